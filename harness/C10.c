/* C10 - the Teletext cache is a coherent, bounded, reference-safe page store.
 *
 * E2 (mc_bfs): operation histories over small colliding alphabets are replayed on
 * a fresh real vbi_cache; after every operation the real structure is walked,
 * reconciled with a reference map model and audited; the canonical state (lists in
 * order, counters, page descriptors with pointers replaced by ordinals and page
 * contents abstracted away) is hashed for de-duplication.  After the last letter the
 * world is torn down (all references released, cache deleted) and the allocator
 * ledger must be empty.
 *
 * cache.c is compiled INTO this file with CACHE_CONSISTENCY=1 / DLIST_CONSISTENCY=1
 * (its own assertions become oracles) and with vbi_malloc/vbi_free routed through a
 * counting wrapper (a seam of this harness, the repository is untouched), so that
 * "releasing the last references frees everything" is decided exactly per history.
 * vbi_is_cached(), vbi_cache_hi_subno(), vbi_chsw_reset() and
 * vbi_teletext_channel_switched() are the library's own (vbi.c / packet.c from the
 * archive) running on one real vbi_decoder per process whose cache is exchanged for
 * a fresh one per history exactly the way vbi_decoder_new()/vbi_decoder_delete()
 * create and destroy it.
 *
 * Deviations from DESIGN.md section C10 (forced by the code, see final report):
 *  - the alphabet is split into six BFS phases (keys / refs / memory / networks / mixed / decoder) plus a
 *    flat phase over every page function x designation x limit, instead of one product
 *    alphabet, so that depth 6 (quick) .. 8/9 (thorough) stays affordable;
 *  - a put that stores ONE version of a page (subno 0, clock page, subcode > 0x79)
 *    is looked up by the library with a wildcard and replaces the most recently used
 *    version of that page, whatever its subno.  The property does not say which
 *    versions such a put supersedes (the standard says the page has no subpages
 *    any more), so the model accepts any subset of the older versions of that page
 *    disappearing and demands only what every reading of "map" demands: no two
 *    cached pages with the same (network, pgno, subno);
 *  - which pages are evicted under memory pressure is not part of the property; the
 *    model learns the victims from the structure and demands only that nothing
 *    disappears while everything fits, that referenced pages are never victims and
 *    that the accounting is exact and within the limit afterwards; a put may fail
 *    only under pressure;
 *  - pages of a network nobody holds a handle on are unreachable; the model lets them
 *    disappear at any time (the property only demands that they are accounted);
 *  - vbi_cache_hi_subno() is compared for stored subnos 0..0x79 only (the statistic
 *    is 8 bits wide and documented as "0x00 ... 0x79"; clock codes are not subpages).  The
 *    library never lowers it when the highest version is superseded or evicted; the oracle
 *    is two-sided with that tolerance: highest cached subpage <= hi_subno <= highest subno
 *    ever stored on the CURRENT network (0 on a new network).  The upper bound was added for
 *    seed C10 round 5 (subpage statistics of the old station surviving a channel switch in
 *    a recycled cache_network structure);
 *  - phase "decoder" (seed C10 round 5): the other phases exchange the cache under one
 *    process-wide decoder and store with _vbi_cache_put_page() only.  This phase builds a
 *    fresh real vbi_decoder per history (vbi_decoder_new .. vbi_decoder_delete), stores also
 *    through vbi_decode() of Teletext packets and switches the channel on every path the
 *    library has (vbi_channel_switched + next frame, time stamp gap + 40 frame countdown,
 *    header text of another station in store_lop(), vbi_chsw_reset), with and without a page
 *    held across the switch (new vs recycled cache_network).  The model restates the two
 *    decoder variables that decide WHEN it switches (countdown pending, remembered station
 *    header); what the cache must then contain is the map as everywhere else.  At the end of
 *    every history vbi_is_cached / _vbi_cache_get_page / vbi_cache_hi_subno are compared
 *    with the map of the current network for every page number of the alphabet (stored here,
 *    stored on an earlier station only, never stored) x subno ANY,0..3;
 *  - memory_limit has no setter in 0.2: the LIMIT letter does what
 *    vbi_cache_set_memory_limit() of 0.3 does (assign, delete_surplus_pages());
 *  - foreach is an operation of the histories (its lookups reorder the chains and cycle
 *    references) but its visiting order / termination is property C17: it is issued only
 *    when a cached page lies inside the window the walk visits, and stopped after 3 visits;
 *  - "delete" is not a letter: EVERY history ends with a teardown (references released,
 *    network handles released, vbi_cache_delete as in vbi_decoder_delete) and an empty
 *    allocator ledger is demanded; LeakSanitizer is asked every 16384 histories;
 *  - transitions of the one class known to crash on the unchanged tree are probed in a
 *    forked copy first (see "crash probe" below) so that the engine's 40-crash cap does not
 *    end the level.
 */
#include <stdio.h>
#include <stdlib.h>
#include <string.h>
#include <stddef.h>
#include <unistd.h>
#include <signal.h>
#include <sys/wait.h>
#include "mc.h"

#include "config.h"
#include "src/misc.h"
static void *c10_malloc(size_t n);
static void c10_free(void *p);
#undef vbi_malloc
#undef vbi_free
#define vbi_malloc c10_malloc
#define vbi_free c10_free

#ifndef CACHE_CONSISTENCY
#  define CACHE_CONSISTENCY 1
#endif
#ifndef DLIST_CONSISTENCY
#  define DLIST_CONSISTENCY 1
#endif
#pragma clang diagnostic push
#pragma clang diagnostic ignored "-Wself-assign"
#include "src/cache.c"
#pragma clang diagnostic pop

#include "src/hamm.h"
extern void vbi_teletext_channel_switched(vbi_decoder *vbi);

/* Every history frees ~40 KB; with ASan's default 256 MB quarantine each history touches fresh
 * memory (6x slower).  8 MB still keeps every block freed during one history (< 100 KB)
 * quarantined until long after the history has ended, so no use-after-free can be missed. */
const char *__asan_default_options(void) { return "quarantine_size_mb=8"; }

/* ---- allocator ledger ----------------------------------------------------- */

#define MAXLIVE 64
static void *live_p[MAXLIVE];
static int live_n, live_overflow;

static void *c10_malloc(size_t n)
{
        void *p = malloc(n);
        if (p) { if (live_n < MAXLIVE) live_p[live_n++] = p; else live_overflow = 1; }
        return p;
}
static void c10_free(void *p)
{
        if (!p) return;
        for (int i = 0; i < live_n; i++)
                if (live_p[i] == p) { live_p[i] = live_p[--live_n]; break; }
        free(p);                 /* a block not in the ledger (double free) is ASan's business */
}

/* ---- alphabet --------------------------------------------------------------- */

enum { OP_PUT, OP_PUTHOLD, OP_GET, OP_ISCACHED, OP_UNREF, OP_REF, OP_FOREACH, OP_PAGETYPE,
       OP_SWITCH, OP_NETUNREF, OP_NETADD, OP_LIMIT, OP_PURGE, OP_PUTBAD,
       OP_DEC, OP_CHSW, OP_FRAME, OP_GAP };       /* decoder level (phase "decoder") */
enum { CL_LOP, CL_ENH, CL_EXT, CL_POP, CL_UNK, CL_DRCS, CL_AIT, CL_OTHER, NCLS };
static const char *cls_name[NCLS] = { "LOP", "LOP+X26", "LOP+X28", "POP", "UNKNOWN", "DRCS", "AIT", "MOT" };

#define M_EXACT (-1)
#define LIM_1P   1564L            /* exactly one plain level one page */
#define LIM_2P5  3910L            /* two and a half */
#define LIM_INF  (1L << 30)       /* the value vbi_cache_new() sets */
/* exactly one page of a larger size class: with a smaller page cached, free space + that page == the size needed,
 * the condition under which _vbi_cache_put_page() reuses the victim's allocation in place */
#define LIM_1ENH ((long)(offsetof(cache_page, data) + sizeof(((cache_page *) 0)->data.enh_lop)))
#define LIM_1POP ((long)(offsetof(cache_page, data) + sizeof(((cache_page *) 0)->data.pop)))

struct letter { int op, net, pgno, subno, mask, cls; long arg; };

#define NH 3                      /* network handle slots; slot 0 is the decoder's vbi->cn */
#define MAXHOLD 3

static const int PG[] = { 0x100, 0x171, 0x1AB, 0x111 };
#define NPG ((int)(sizeof PG / sizeof *PG))
static int pgidx(int pgno) { for (int i = 0; i < NPG; i++) if (PG[i] == pgno) return i; return -1; }

#define PUT(n,p,s,c)     { OP_PUT, n, p, s, 0, c, 0 }
#define PUTH(n,p,s,c)    { OP_PUTHOLD, n, p, s, 0, c, 0 }
#define GET(n,p,s,m)     { OP_GET, n, p, s, m, 0, 0 }
#define LOOK(n,p,s,m)    { OP_GET, n, p, s, m, 0, 1 }   /* reference released at once */
#define ISC(n,p,s)       { OP_ISCACHED, n, p, s, 0, 0, 0 }
#define UNREF(i)         { OP_UNREF, 0, 0, 0, 0, 0, i }
#define REF(i)           { OP_REF, 0, 0, 0, 0, 0, i }
#define FOREACH(n,p,s,d) { OP_FOREACH, n, p, s, 0, 0, d }
#define PTYPE(n,p)       { OP_PAGETYPE, n, p, 0, 0, 0, 0 }
#define SWITCH(n)        { OP_SWITCH, n, 0, 0, 0, 0, 0 }
#define NETUNREF(n)      { OP_NETUNREF, n, 0, 0, 0, 0, 0 }
#define NETADD(n)        { OP_NETADD, n, 0, 0, 0, 0, 0 }
#define LIMIT(x)         { OP_LIMIT, 0, 0, 0, 0, 0, x }
#define PURGE            { OP_PURGE, 0, 0, 0, 0, 0, 0 }
#define PUTBAD(n)        { OP_PUTBAD, n, 0x1FF, 0, 0, CL_LOP, 0 }
#define DEC(p,s,st)      { OP_DEC, 0, p, s, 0, CL_LOP, st }   /* page received through vbi_decode(), header text of station st */
#define CHSW             { OP_CHSW, 0, 0, 0, 0, 0, 0 }        /* vbi_channel_switched(): executed with the next frame */
#define FRAME            { OP_FRAME, 0, 0, 0, 0, 0, 0 }       /* vbi_decode() of one empty frame */
#define GAP              { OP_GAP, 0, 0, 0, 0, 0, 0 }         /* time stamp gap + 39 frames: the countdown stands at 1 */

/* keys: subpage key rules, wildcard/MRU lookups, page type, walk; no references kept, one network */
static const struct letter A_keys[] = {
        PUT(0,0x100,0,CL_LOP), PUT(0,0x100,1,CL_LOP), PUT(0,0x100,2,CL_LOP), PUT(0,0x100,0x80,CL_LOP),
        PUT(0,0x100,0x1234,CL_LOP),
        PUT(0,0x171,0,CL_LOP), PUT(0,0x171,1,CL_UNK),
        PUT(0,0x1AB,1,CL_LOP), PUT(0,0x1AB,0x11,CL_POP), PUT(0,0x1AB,2,CL_LOP),
        LOOK(0,0x100,VBI_ANY_SUBNO,M_EXACT), LOOK(0,0x100,0x11,0x0F), LOOK(0,0x1AB,VBI_ANY_SUBNO,M_EXACT), LOOK(0,0x1AB,1,0x0F),
        ISC(0,0x100,0), ISC(0,0x100,2),
        PTYPE(0,0x100),
        FOREACH(0,0x100,VBI_ANY_SUBNO,1), FOREACH(0,0x171,0,-1),
        SWITCH(0), PUTBAD(0),
};
/* refs: references, replace-while-referenced, zombies, purge, one network */
static const struct letter A_refs[] = {
        PUT(0,0x100,0,CL_LOP), PUT(0,0x100,1,CL_LOP), PUT(0,0x100,0x1234,CL_LOP), PUT(0,0x171,0,CL_LOP),
        PUTH(0,0x100,0,CL_LOP), PUTH(0,0x100,1,CL_LOP),
        GET(0,0x100,VBI_ANY_SUBNO,M_EXACT), GET(0,0x100,0,M_EXACT), GET(0,0x100,1,M_EXACT), GET(0,0x171,VBI_ANY_SUBNO,M_EXACT),
        UNREF(0), UNREF(1), UNREF(2), REF(0), REF(1),
        ISC(0,0x100,0),
        SWITCH(0), PURGE,
        FOREACH(0,0x100,VBI_ANY_SUBNO,1),
};
/* memory: size classes, priorities, tiny limits, eviction, put failure, one network */
static const struct letter A_mem[] = {
        LIMIT(LIM_1P), LIMIT(LIM_2P5), LIMIT(LIM_INF), LIMIT(LIM_1ENH), LIMIT(LIM_1POP),
        PUT(0,0x100,0,CL_LOP), PUT(0,0x171,0,CL_LOP), PUT(0,0x171,0,CL_ENH), PUT(0,0x1AB,0,CL_POP),
        PUT(0,0x111,0,CL_UNK), PUT(0,0x171,1,CL_LOP),
        PUTH(0,0x171,0,CL_LOP), PUTH(0,0x100,0,CL_ENH),
        GET(0,0x171,VBI_ANY_SUBNO,M_EXACT), GET(0,0x100,VBI_ANY_SUBNO,M_EXACT), GET(0,0x1AB,VBI_ANY_SUBNO,M_EXACT),
        ISC(0,0x171,0),
        UNREF(0), UNREF(1), REF(0),
};
/* networks: channel switches, extra network handles, purge, references across switches */
static const struct letter A_net[] = {
        SWITCH(0), SWITCH(1), NETADD(1), NETUNREF(1), NETADD(2), NETUNREF(2),
        PUT(0,0x100,0,CL_LOP), PUT(0,0x171,0,CL_LOP), PUT(1,0x100,0,CL_LOP), PUT(1,0x100,1,CL_LOP), PUT(2,0x100,0,CL_POP),
        PUTH(0,0x100,0,CL_LOP), PUTH(1,0x100,0,CL_LOP),
        GET(0,0x100,VBI_ANY_SUBNO,M_EXACT), GET(1,0x100,VBI_ANY_SUBNO,M_EXACT),
        ISC(0,0x100,0), ISC(1,0x100,0),
        UNREF(0), UNREF(1), UNREF(2), REF(0),
        PURGE, FOREACH(0,0x100,VBI_ANY_SUBNO,1),
};
/* mixed: tiny limit together with channel switches and held pages */
static const struct letter A_mix[] = {
        LIMIT(LIM_1P), LIMIT(LIM_INF), SWITCH(0), PURGE,
        PUT(0,0x171,0,CL_LOP), PUT(0,0x100,0,CL_LOP), PUT(0,0x1AB,0,CL_POP),
        PUTH(0,0x171,0,CL_LOP), PUTH(0,0x1AB,0,CL_POP),
        GET(0,0x171,VBI_ANY_SUBNO,M_EXACT), UNREF(0), UNREF(1),
};

/* decoder (seed C10 round 5): the cache as the decoder drives it.  A real vbi_decoder per history; pages are stored
 * with _vbi_cache_put_page() on vbi->cn and by vbi_decode() of Teletext packets (header, one row, terminating
 * header); the channel is switched on every path the library has: vbi_channel_switched() + the next frame, a time
 * stamp gap + the 40 frame countdown, the header comparison of store_lop() (a page with the header text of another
 * station arrives) and vbi_chsw_reset() called directly - with and without a page of the old station held across the
 * switch, which decides between recycling the old cache_network structure and allocating a new one.  Pages with the
 * same number get fewer / more / no subpages on the new station. */
static const struct letter A_dec[] = {
        PUT(0,0x100,1,CL_LOP), PUT(0,0x100,3,CL_LOP), PUT(0,0x171,0,CL_LOP),
        DEC(0x100,1,0), DEC(0x100,2,0), DEC(0x171,1,0), DEC(0x100,1,1),
        CHSW, FRAME, GAP, SWITCH(0),
        GET(0,0x100,VBI_ANY_SUBNO,M_EXACT), GET(0,0x171,VBI_ANY_SUBNO,M_EXACT), UNREF(0), UNREF(1),
};

struct alphabet { const char *name; const struct letter *L; int n; int dec; };
#define ALPHA(nm, arr) { nm, arr, (int)(sizeof arr / sizeof *arr), 0 }
static struct alphabet ALPH[] = { ALPHA("keys", A_keys), ALPHA("refs", A_refs), ALPHA("memory", A_mem), ALPHA("networks", A_net), ALPHA("mixed", A_mix),
        { "decoder", A_dec, (int)(sizeof A_dec / sizeof *A_dec), 1 } };
#define NALPH ((int)(sizeof ALPH / sizeof *ALPH))

static const char *subno_str(int s) { static char b[4][16]; static int k; char *p = b[k++ & 3]; if (s == VBI_ANY_SUBNO) strcpy(p, "ANY"); else snprintf(p, 16, "%x", s); return p; }

static const char *letter_name(int l, void *arg)
{
        static char b[8][80]; static int k;
        const struct alphabet *al = arg; char *p = b[k++ & 7];
        if (l < 0 || l >= al->n) { snprintf(p, 80, "?%d", l); return p; }
        const struct letter *L = &al->L[l];
        switch (L->op) {
        case OP_PUT:      snprintf(p, 80, "put(n%d,%x.%s,%s)", L->net, L->pgno, subno_str(L->subno), cls_name[L->cls]); break;
        case OP_PUTHOLD:  snprintf(p, 80, "put+hold(n%d,%x.%s,%s)", L->net, L->pgno, subno_str(L->subno), cls_name[L->cls]); break;
        case OP_PUTBAD:   snprintf(p, 80, "put(n%d,1ff.0)", L->net); break;
        case OP_GET:      if (L->mask == M_EXACT) snprintf(p, 80, "%s(n%d,%x.%s)", L->arg ? "get+unref" : "get+hold", L->net, L->pgno, subno_str(L->subno));
                          else snprintf(p, 80, "%s(n%d,%x.%s/mask %x)", L->arg ? "get+unref" : "get+hold", L->net, L->pgno, subno_str(L->subno), L->mask); break;
        case OP_ISCACHED: snprintf(p, 80, "is_cached(n%d,%x.%s)", L->net, L->pgno, subno_str(L->subno)); break;
        case OP_UNREF:    snprintf(p, 80, "unref(referenced[%ld])", L->arg); break;
        case OP_REF:      snprintf(p, 80, "ref(referenced[%ld])", L->arg); break;
        case OP_FOREACH:  snprintf(p, 80, "foreach(n%d,%x.%s,dir %+ld)", L->net, L->pgno, subno_str(L->subno), L->arg); break;
        case OP_PAGETYPE: snprintf(p, 80, "page_type(n%d,%x)=CLOCK", L->net, L->pgno); break;
        case OP_SWITCH:   snprintf(p, 80, L->net ? "switch(n%d)" : "vbi_chsw_reset(n%d)", L->net); break;
        case OP_NETUNREF: snprintf(p, 80, "network_unref(n%d)", L->net); break;
        case OP_NETADD:   snprintf(p, 80, "add_network(n%d)", L->net); break;
        case OP_LIMIT:    snprintf(p, 80, "memory_limit=%ld", L->arg); break;
        case OP_PURGE:    snprintf(p, 80, "purge"); break;
        case OP_DEC:      snprintf(p, 80, "vbi_decode(%x.%s,station %c)", L->pgno, subno_str(L->subno), (int)('A' + L->arg)); break;
        case OP_CHSW:     snprintf(p, 80, "vbi_channel_switched"); break;
        case OP_FRAME:    snprintf(p, 80, "vbi_decode(empty frame)"); break;
        case OP_GAP:      snprintf(p, 80, "vbi_decode(time gap + 39 frames)"); break;
        default:          snprintf(p, 80, "?"); break;
        }
        return p;
}

/* ---- independent restatements ------------------------------------------------- */

#define HDR ((unsigned) offsetof(cache_page, data))

static unsigned cls_size(int cls)
{
        cache_page *z = NULL;
        switch (cls) {
        case CL_LOP: case CL_UNK: return HDR + sizeof z->data.lop;
        case CL_ENH:  return HDR + sizeof z->data.enh_lop;
        case CL_EXT:  return HDR + sizeof z->data.ext_lop;
        case CL_POP:  return HDR + sizeof z->data.pop;
        case CL_DRCS: return HDR + sizeof z->data.drcs;
        case CL_AIT:  return HDR + sizeof z->data.ait;
        default:      return sizeof *z;
        }
}
static int cls_function(int cls)
{
        switch (cls) {
        case CL_LOP: case CL_ENH: case CL_EXT: return PAGE_FUNCTION_LOP;
        case CL_POP: return PAGE_FUNCTION_POP;
        case CL_UNK: return PAGE_FUNCTION_UNKNOWN;
        case CL_DRCS: return PAGE_FUNCTION_DRCS;
        case CL_AIT: return PAGE_FUNCTION_AIT;
        default: return PAGE_FUNCTION_MOT;
        }
}
static int m_is_bcd(unsigned v) { for (int i = 0; i < 7; i++) if (((v >> (4 * i)) & 15) > 9) return 0; return 1; }
static int m_digit_gt(unsigned v, unsigned max) { for (int i = 0; i < 7; i++) if (((v >> (4 * i)) & 15) > ((max >> (4 * i)) & 15)) return 1; return 0; }

/* EN 300 706 A.1: which stored subno and which key a transmitted subcode has */
static void m_key(int clock, int pgno, int subno, int *stored, int *mask)
{
        if (!m_is_bcd(pgno)) { *stored = subno; *mask = 0x0F; return; }       /* S1 is the subpage */
        if (subno == 0) { *stored = 0; *mask = 0; return; }                   /* no subpages */
        if (clock || subno >= 0x100) {                                        /* clock / rolling page: one version */
                *stored = (m_digit_gt(subno, 0x2959) || subno > 0x2300) ? 0 : subno; *mask = 0; return;
        }
        if (m_digit_gt(subno, 0x79)) { *stored = 0; *mask = 0; return; }      /* not a subpage number */
        *stored = subno; *mask = 0xFF;
}

static inline unsigned char pat(unsigned tag, unsigned k) { return (unsigned char)(tag * 131u + k * 7u + (k >> 8) + 1u); }
/* byte loops over buffers whose validity is established elsewhere (own static buffer; pages
 * checked against the allocator ledger by walk()): not instrumented, they dominate the run time */
#define NOASAN __attribute__((no_sanitize("address")))
NOASAN static void pat_fill(unsigned char *d, unsigned tag, unsigned n) { for (unsigned k = 0; k < n; k++) d[k] = pat(tag, k); }
NOASAN static int pat_check(const unsigned char *d, unsigned tag, unsigned n) { for (unsigned k = 0; k < n; k++) if (d[k] != pat(tag, k)) return 0; return 1; }

static cache_page *build_page(int cls, int pgno, int subno, unsigned tag)
{
        static cache_page pg;
        unsigned size = cls_size(cls);
        memset(&pg, 0xEE, sizeof pg);
        pg.function = cls_function(cls);
        pg.pgno = pgno; pg.subno = subno;
        pg.national = tag & 7;
        pg.flags = 0xC0DE0000u | tag;
        pg.lop_packets = tag * 3 + 1;
        pg.x26_designations = cls == CL_ENH ? (1u | (tag << 4)) : 0;
        pg.x27_designations = tag ^ 0x55u;
        pg.x28_designations = cls == CL_EXT ? (tag & 1 ? 0x01u : 0x10u) : (cls == CL_ENH ? 0x0Cu : 0x04u);   /* bits outside 0x13 do not select ext_lop */
        pat_fill((unsigned char *) &pg.data, tag, size - HDR);
        return mc_exact(&pg, size);   /* red zone right behind the bytes the function may read */
}

/* ---- world ----------------------------------------------------------------------- */

static vbi_decoder *g_vbi; static vbi_cache *g_ca0; static cache_network *g_cn0;
static vbi_cache *ca;
static cache_network *slot_cn[NH];     /* slot 0 mirrors g_vbi->cn */

enum { V_FREE = 0, V_CACHED, V_ZOMBIE, V_GONE };
struct mver { int st, net, pgno, subno, cls, holds; unsigned tag, size; uint64_t stamp; cache_page *real; int seen;
              int dec, station; };       /* dec: received through vbi_decode() with the header text of this station */
/* hi_ever: the highest subno 0..0x79 ever stored for PG[i] on this network (this incarnation of the structure);
 * hi_wide: a subno above 0x79 was stored (the 8 bit statistic is then undefined, see head comment) */
struct mnet { int alive; cache_network *real; int handles; unsigned char clock[NPG]; int seen; int hi_ever[NPG]; unsigned char hi_wide[NPG]; };
#define MAXV 80
#define MAXN 80
static struct mver V[MAXV]; static int nV;
static struct mnet N[MAXN]; static int nN;
static int slot_net[NH];
static uint64_t mclock;
static unsigned next_tag;
static int nholds;

/* decoder level: g_dec = the world is a fresh real vbi_decoder (phase "decoder"), else the process-wide decoder with
 * an exchanged cache.  D_pending / D_hdr restate the two variables of the decoder that decide when it switches the
 * channel: the countdown (vbi->chswcd, here only 0 or 1 between letters) and the station whose header text it
 * remembers (vbi->vt.header, -1 = none since the last switch). */
static int g_dec;
static vbi_decoder *g_vbi_shared;
static double g_now;
static int D_pending, D_hdr;
static uint64_t dec_events;
static void dec_event(vbi_event *ev, void *ud) { (void) ev; (void) ud; dec_events++; }

/* per run flags */
static int g_report;          /* violations of this step are reported */
static int g_hard;            /* a hard violation happened: state is not expanded */
static struct mver *g_new_version;   /* version created by the current operation */
static int g_probe_child;     /* this process is the forked copy of a crash probe: it reports nothing */
static const char *g_opname = "";

/* local evidence */
enum { OC_PUT_NEW, OC_PUT_REPLACE, OC_PUT_ZOMBIFY, OC_PUT_REUSE, OC_PUT_EVICT, OC_PUT_FAIL, OC_PUT_SINGLE_DROPS, OC_GET_HIT, OC_GET_MISS,
       OC_UNREF_FREE_ZOMBIE, OC_UNREF_EVICT, OC_UNREF_SHARED, OC_SWITCH_RECYCLE, OC_SWITCH_NEWNET, OC_NET_DELETED, OC_NET_ZOMBIE,
       OC_PURGE_KEEPS_HELD, OC_LIMIT_EVICT, OC_FOREACH_VISIT, OC_FOREACH_SKIPPED, OC_ISC_TRUE, OC_ISC_FALSE, OC_DUP, OC_PUT_BAD_REFUSED,
       OC_HI_EXACT, OC_HI_ABOVE, OC_DEC_STORED, OC_DEC_REPLACES_PUT, OC_DEC_AUTOSWITCH, OC_DEC_SWITCH_THEN_STORE, OC_FRAME_SWITCH, OC_GAP_COUNTDOWN,
       OC_SWITCH_FEWER, OC_PROBE_HIT, OC_PROBE_MISS, OC_N };
static const char *oc_name[OC_N] = { "put:new key", "put:replaces unreferenced version", "put:referenced version becomes zombie",
        "put:reuses victim allocation", "put:evicts under pressure", "put:fails under pressure", "put:single-version put supersedes another subno",
        "get:hit", "get:miss", "unref:zombie freed", "unref:eviction", "unref:still referenced", "switch:network recycled",
        "switch:new network beside referenced old one", "network deleted", "network zombie", "purge:referenced page stays cached",
        "limit:evicts", "foreach:visits", "foreach:not issued (no reachable page)", "is_cached:true", "is_cached:false",
        "duplicate subno (finding)", "put:invalid pgno refused",
        "hi_subno:equals the highest cached subpage", "hi_subno:above the map, <= highest ever stored here",
        "decode:page stored", "decode:replaces a version stored with put", "decode:foreign header switches channel, page dropped",
        "decode:pending switch executed, page stored after", "frame:pending switch executed", "gap:countdown started",
        "switch:page has fewer/no subpages on the new network", "probe:hit", "probe:miss" };
static unsigned char oc_seen[OC_N]; static uint64_t oc_cnt[OC_N];
static void oc(int i) { oc_cnt[i]++; if (!oc_seen[i]) { oc_seen[i] = 1; mc_outcome("%s", oc_name[i]); } }

static void viol(int hard, const char *key, const char *fmt, ...) __attribute__((format(printf, 3, 4)));
static void viol(int hard, const char *key, const char *fmt, ...)
{
        char b[600]; va_list ap; va_start(ap, fmt); vsnprintf(b, sizeof b, fmt, ap); va_end(ap);
        if (hard) g_hard = 1;
        if (g_probe_child) return;
        if (g_report) mc_violation(key, "%s [at %s]", b, g_opname);
        else if (hard) mc_violation("harness: hard violation inside an already explored prefix (canonical state unsound)", "%s: %s [at %s]", key, b, g_opname);
}

static cache_network *cn_of(int slot) { return slot == 0 ? g_vbi->cn : slot_cn[slot]; }

static int new_mnet(cache_network *real)
{
        /* a pointer handed out again means the structure was recycled (or freed and reallocated) */
        for (int m = 0; m < nN; m++) if (N[m].alive && N[m].real == real) {
                int held = 0; for (int i = 0; i < nV; i++) if (V[i].st != V_FREE && V[i].st != V_GONE && V[i].net == m && V[i].holds) held = 1;
                if (N[m].handles || held) viol(1, "referenced network recycled", "model net %d handles=%d held pages=%d", m, N[m].handles, held);
                N[m].alive = 0; oc(OC_SWITCH_RECYCLE);
        }
        if (nN >= MAXN) { fprintf(stderr, "C10: MAXN\n"); exit(42); }
        memset(&N[nN], 0, sizeof N[nN]); N[nN].alive = 1; N[nN].real = real; N[nN].handles = 1;
        return nN++;
}

static void world_init(void)
{
        if (!g_vbi) {
                g_vbi = vbi_decoder_new();
                if (!g_vbi) { fprintf(stderr, "C10: vbi_decoder_new failed\n"); exit(42); }
                g_ca0 = g_vbi->ca; g_cn0 = g_vbi->cn;
        }
        live_n = 0; live_overflow = 0;
        nV = nN = 0; mclock = 0; next_tag = 1; nholds = 0; g_hard = 0;
        for (int i = 0; i < NH; i++) { slot_cn[i] = NULL; slot_net[i] = -1; }
        if (g_dec) {
                /* the real thing: vbi_decoder_new() (cache, network, vbi_teletext_channel_switched()), a Teletext page
                 * handler (without one packets 0..29 are not decoded) and a first frame, which sets the time base */
                g_vbi_shared = g_vbi;
                g_vbi = vbi_decoder_new();
                if (!g_vbi || !vbi_event_handler_register(g_vbi, VBI_EVENT_TTX_PAGE, dec_event, NULL)) { fprintf(stderr, "C10: vbi_decoder_new failed\n"); exit(42); }
                ca = g_vbi->ca;
                g_now = 1000.0; D_pending = 0; D_hdr = -1;
                vbi_decode(g_vbi, NULL, 0, g_now);
                slot_cn[0] = g_vbi->cn; slot_net[0] = new_mnet(g_vbi->cn);
                return;
        }
        /* as vbi_decoder_new() */
        ca = vbi_cache_new();
        cache_network *cn = ca ? _vbi_cache_add_network(ca, NULL, VBI_VIDEOSTD_SET_625_50) : NULL;
        if (!cn) { fprintf(stderr, "C10: cache setup failed\n"); exit(42); }
        g_vbi->ca = ca; g_vbi->cn = cn;
        /* vbi_decoder_new() goes on with vbi_teletext_channel_switched(), which initialises the page
         * statistics of the zeroed network (page_type UNKNOWN instead of 0, nothing cache.c reads
         * differently); it costs 3x the rest of the setup and is left to the SWITCH letters */
        slot_cn[0] = cn; slot_net[0] = new_mnet(cn);
}

/* ---- structure walk ---------------------------------------------------------------- */

#define MAXR 64
struct rpage { cache_page *cp; int hash_b, hash_pos, pri_pos, ref_pos; };
static struct rpage R[MAXR]; static int nR;
static cache_network *RN[MAXR]; static int nRN;
static int walk_bad;

static int ring_ok(const struct node *l, int *len)
{
        const struct node *n = l; int c = 0;
        do {
                if (!n->_succ || n->_succ->_pred != n) return 0;
                n = n->_succ;
                if (++c > MAXR) return 0;
        } while (n != l);
        *len = c - 1; return 1;
}
static int is_live(const void *p) { for (int i = 0; i < live_n; i++) if (live_p[i] == p) return 1; return 0; }
static struct rpage *rp_of(cache_page *cp, int create)
{
        for (int i = 0; i < nR; i++) if (R[i].cp == cp) return &R[i];
        if (!create || nR >= MAXR) return NULL;
        if (!is_live(cp)) { viol(1, "list node is not a live page allocation", "%p", (void *) cp); return NULL; }
        R[nR].cp = cp; R[nR].hash_b = R[nR].hash_pos = R[nR].pri_pos = R[nR].ref_pos = -1;
        return &R[nR++];
}
static void walk(void)
{
        int len; nR = 0; nRN = 0; walk_bad = 0;
        for (int b = 0; b < HASH_SIZE; b++) {
                if (!ring_ok(&ca->hash[b], &len)) { viol(1, "list corrupt", "hash bucket %d", b); walk_bad = 1; return; }
                int pos = 0;
                for (struct node *n = ca->hash[b]._succ; n != &ca->hash[b]; n = n->_succ, pos++) {
                        cache_page *cp = PARENT(n, cache_page, hash_node);
                        struct rpage *r = rp_of(cp, 1);
                        if (!r) { walk_bad = 1; return; }
                        if (r->hash_b >= 0) { viol(1, "page on two hash chains", "pgno %x", cp->pgno); walk_bad = 1; return; }
                        r->hash_b = b; r->hash_pos = pos;
                }
        }
        if (!ring_ok(&ca->priority, &len)) { viol(1, "list corrupt", "priority list"); walk_bad = 1; return; }
        int pos = 0;
        for (struct node *n = ca->priority._succ; n != &ca->priority; n = n->_succ, pos++) {
                struct rpage *r = rp_of(PARENT(n, cache_page, pri_node), 1); if (!r) { walk_bad = 1; return; }
                r->pri_pos = pos;
        }
        if (!ring_ok(&ca->referenced, &len)) { viol(1, "list corrupt", "referenced list"); walk_bad = 1; return; }
        pos = 0;
        for (struct node *n = ca->referenced._succ; n != &ca->referenced; n = n->_succ, pos++) {
                struct rpage *r = rp_of(PARENT(n, cache_page, pri_node), 1); if (!r) { walk_bad = 1; return; }
                r->ref_pos = pos;
        }
        if (!ring_ok(&ca->networks, &len)) { viol(1, "list corrupt", "network list"); walk_bad = 1; return; }
        for (struct node *n = ca->networks._succ; n != &ca->networks; n = n->_succ)
        {
                cache_network *cn = PARENT(n, cache_network, node);
                if (!is_live(cn)) { viol(1, "list node is not a live network allocation", "%p", (void *) cn); walk_bad = 1; return; }
                RN[nRN++] = cn;
        }
}
static int rn_index(const cache_network *cn) { for (int i = 0; i < nRN; i++) if (RN[i] == cn) return i; return -1; }

/* ---- model helpers ---------------------------------------------------------------------- */

static struct mver *m_find(int net, int pgno, int subno, int mask)
{
        struct mver *best = NULL;
        for (int i = 0; i < nV; i++) {
                struct mver *v = &V[i];
                if (v->st != V_CACHED || v->net != net || v->pgno != pgno) continue;
                if ((v->subno & mask) != (subno & mask)) continue;
                if (!best || v->stamp > best->stamp) best = v;
        }
        return best;
}
static struct mver *m_by_real(const cache_page *cp)
{
        for (int i = 0; i < nV; i++) if ((V[i].st == V_CACHED || V[i].st == V_ZOMBIE) && V[i].real == cp) return &V[i];
        return NULL;
}
static long m_used(void)
{
        long u = 0;
        for (int i = 0; i < nV; i++) if (V[i].st == V_CACHED && V[i].holds == 0) u += V[i].size;
        return u;
}

/* ---- Teletext packets of the decoder phase ------------------------------------------------------ */

/* 42 bytes: page header of pgno.subno (magazine parallel mode, no control bits) with the header text of a station:
 * 8 characters name, the page number (the decoder looks for it to compare headers), date, clock */
static void dec_header(uint8_t *d, int pgno, int subno, int station)
{
        char text[40];
        d[0] = vbi_ham8(pgno >> 8 & 7); d[1] = vbi_ham8(0);
        d[2] = vbi_ham8(pgno & 15); d[3] = vbi_ham8(pgno >> 4 & 15);
        d[4] = vbi_ham8(subno & 15); d[5] = vbi_ham8(subno >> 4 & 15); d[6] = vbi_ham8(subno >> 8 & 15); d[7] = vbi_ham8(subno >> 12 & 15);
        d[8] = vbi_ham8(0); d[9] = vbi_ham8(0);
        snprintf(text, sizeof text, "%s %03X %s  12:34:56", station ? "ZWEITES " : "STATION1", pgno, station ? "Di 02 Feb" : "Mo 01 Jan");
        for (int i = 0; i < 32; i++) d[10 + i] = vbi_par8((unsigned char) text[i]);
}
static void dec_row(uint8_t *d, int pgno, int row, unsigned tag)
{
        d[0] = vbi_ham8((pgno >> 8 & 7) | (row & 1) << 3); d[1] = vbi_ham8(row >> 1);
        for (unsigned k = 0; k < 40; k++) d[2 + k] = vbi_par8(0x20 + (tag * 7 + k * 3) % 0x5F);
}

static int page_equals(const cache_page *cp, const struct mver *v)
{
        if (v->dec) {
                /* received through vbi_decode(): the header and the row that were transmitted */
                uint8_t h[42], r[42];
                if (cp->function != PAGE_FUNCTION_LOP || cp->pgno != v->pgno || cp->subno != v->subno) return 0;
                dec_header(h, v->pgno, v->subno, v->station); dec_row(r, v->pgno, 1, v->tag);
                return !memcmp(cp->data.lop.raw[0], h + 2, 40) && !memcmp(cp->data.lop.raw[1], r + 2, 40);
        }
        if ((int) cp->function != cls_function(v->cls) || cp->pgno != v->pgno || cp->subno != v->subno) return 0;
        if (cp->national != (int)(v->tag & 7) || cp->flags != (0xC0DE0000u | v->tag) || cp->lop_packets != v->tag * 3 + 1) return 0;
        if (cp->x27_designations != (v->tag ^ 0x55u)) return 0;
        if (cp->x26_designations != (v->cls == CL_ENH ? (1u | (v->tag << 4)) : 0)) return 0;
        if (cp->x28_designations != (v->cls == CL_EXT ? (v->tag & 1 ? 0x01u : 0x10u) : (v->cls == CL_ENH ? 0x0Cu : 0x04u))) return 0;
        return pat_check((const unsigned char *) &cp->data, v->tag, v->size - HDR);
}

/* what the operation just executed permits */
struct expect {
        int pressure;             /* unreferenced pages may have been evicted */
        int purge;                /* every unreferenced page must be gone */
        int put_net, put_pgno;    /* versions of this page may have been superseded (single-version put / failed put) */
        struct mver *must_go;     /* keyed put: the version with the same key must be replaced */
};

/* Reconcile the model with the structure, then audit the structure. */
static void settle(const struct expect *A, int full)
{
        walk();
        if (walk_bad) return;

        /* networks */
        for (int m = 0; m < nN; m++) {
                if (!N[m].alive) continue;
                if (rn_index(N[m].real) >= 0) continue;
                int held = 0; for (int i = 0; i < nV; i++) if ((V[i].st == V_CACHED || V[i].st == V_ZOMBIE) && V[i].net == m && V[i].holds) held = 1;
                if (N[m].handles || held) { viol(1, "network dropped while referenced", "model net %d handles=%d", m, N[m].handles); return; }
                N[m].alive = 0; oc(OC_NET_DELETED);
        }
        for (int i = 0; i < nRN; i++) {
                int found = 0; for (int m = 0; m < nN; m++) if (N[m].alive && N[m].real == RN[i]) found = 1;
                if (!found) { viol(1, "unknown network on the network list", "position %d", i); return; }
        }

        /* pages: every model version against the structure */
        for (int i = 0; i < nV; i++) {
                struct mver *v = &V[i];
                if (v->st == V_GONE) {            /* released zombie: must have been freed */
                        if (v->real && rp_of(v->real, 0) && !m_by_real(v->real)) { viol(1, "released zombie page still listed", "%x.%x", v->pgno, v->subno); return; }
                        v->st = V_FREE; continue;
                }
                if (v->st == V_FREE) continue;
                struct rpage *r = v->real ? rp_of(v->real, 0) : NULL;
                if (v->st == V_ZOMBIE) {
                        if (!r || r->hash_b >= 0 || r->ref_pos < 0 || r->pri_pos >= 0) { viol(1, "zombie page not on exactly the referenced list", "%x.%x", v->pgno, v->subno); return; }
                        continue;
                }
                /* V_CACHED */
                int cached = r && r->hash_b >= 0;
                if (cached && !N[v->net].alive) { viol(1, "page of a dropped network still cached", "%x.%x", v->pgno, v->subno); return; }
                if (cached) {
                        if (v == A->must_go) { viol(1, "put did not replace the version with the same key", "%x.%x", v->pgno, v->subno); return; }
                        if (A->purge && v->holds == 0) { viol(1, "unreferenced page survives purge", "%x.%x", v->pgno, v->subno); return; }
                        if (A->purge && v->holds) oc(OC_PURGE_KEEPS_HELD);
                        continue;
                }
                /* not cached any more: why? */
                int same_page = (A->put_net == v->net && A->put_pgno == v->pgno);
                int unreachable = N[v->net].handles == 0;
                int ok = (v == A->must_go) || same_page || (v->holds == 0 && (A->pressure || A->purge || unreachable || !N[v->net].alive))
                         || (v->holds && A->purge);
                if (!ok) { viol(1, "page lost without cause", "%x.%x net %d holds=%d pressure=%d", v->pgno, v->subno, v->net, v->holds, A->pressure); return; }
                if (v->holds) {
                        if (!r || r->ref_pos < 0 || r->pri_pos >= 0) { viol(1, "referenced page removed from the cache is not kept as zombie", "%x.%x", v->pgno, v->subno); return; }
                        v->st = V_ZOMBIE; oc(OC_PUT_ZOMBIFY);
                } else {
                        if (r) { viol(1, "page off its hash chain but still listed", "%x.%x", v->pgno, v->subno); return; }
                        if (same_page && v != A->must_go && v->real) oc(OC_PUT_SINGLE_DROPS);
                        v->st = V_FREE;
                }
        }
        /* every real page must be a model version, on exactly the lists its state requires */
        unsigned long used = 0; unsigned npages = 0;
        for (int i = 0; i < nR; i++) {
                struct rpage *r = &R[i]; cache_page *cp = r->cp;
                struct mver *v = m_by_real(cp);
                if (!v) { viol(1, "page in the cache that the map does not contain", "%x.%x", cp->pgno, cp->subno); return; }
                npages++;
                if (cp->ref_count != (unsigned) v->holds) { viol(1, "page ref_count differs from references handed out", "%x.%x ref_count=%u held=%d", cp->pgno, cp->subno, cp->ref_count, v->holds); return; }
                if (!cp->network || cp->network != N[v->net].real || rn_index(cp->network) < 0 || cp->network->cache != ca) { viol(1, "page network link wrong", "%x.%x", cp->pgno, cp->subno); return; }
                if (cache_page_size(cp) != v->size) { viol(1, "cache_page_size differs from the size class", "%x.%x %u vs %u", cp->pgno, cp->subno, cache_page_size(cp), v->size); return; }
                if (v->st == V_ZOMBIE) {
                        if (cp->priority != CACHE_PRI_ZOMBIE) { viol(1, "page off the hash chains without zombie mark", "%x.%x", cp->pgno, cp->subno); return; }
                } else {
                        if (cp->priority == CACHE_PRI_ZOMBIE) { viol(1, "zombie mark on a cached page", "%x.%x", cp->pgno, cp->subno); return; }
                        if (r->hash_b != (int)(cp->pgno % HASH_SIZE)) { viol(1, "page on the wrong hash chain", "%x.%x bucket %d", cp->pgno, cp->subno, r->hash_b); return; }
                        if (cp->ref_count > 0 ? !(r->ref_pos >= 0 && r->pri_pos < 0) : !(r->pri_pos >= 0 && r->ref_pos < 0)) {
                                viol(1, "page on the wrong one of priority/referenced list", "%x.%x ref_count=%u pri=%d ref=%d", cp->pgno, cp->subno, cp->ref_count, r->pri_pos, r->ref_pos); return; }
                        if (cp->ref_count == 0) used += v->size;
                }
                /* held or not, the stored bytes are what was put */
                if ((full || v->holds) && !page_equals(cp, v)) { viol(1, v->holds ? "referenced page modified" : "cached page differs from what was stored", "%x.%x tag %u", v->pgno, v->subno, v->tag); return; }
        }
        /* bookkeeping */
        if (ca->n_cached_pages != npages) { viol(1, "cache n_cached_pages inexact", "%u vs %u pages", ca->n_cached_pages, npages); return; }
        if (ca->memory_used != used) { viol(1, "memory_used inexact", "%lu vs sum of unreferenced page sizes %lu", ca->memory_used, used); return; }
        if (ca->memory_used > ca->memory_limit) { viol(1, "memory_used exceeds memory_limit", "%lu > %lu", ca->memory_used, ca->memory_limit); return; }
        unsigned nz = 0;
        for (int i = 0; i < nRN; i++) {
                cache_network *cn = RN[i]; int m = -1;
                for (int k = 0; k < nN; k++) if (N[k].alive && N[k].real == cn) m = k;
                unsigned np = 0, nref = 0, per[NPG] = { 0 }, other = 0;
                for (int k = 0; k < nV; k++) if ((V[k].st == V_CACHED || V[k].st == V_ZOMBIE) && V[k].net == m) {
                        np++; if (V[k].holds) nref++;
                        int pi = pgidx(V[k].pgno); if (pi >= 0) per[pi]++; else other++;
                }
                if (cn->cache != ca) { viol(1, "network cache link wrong", "net %d", m); return; }
                if (cn->ref_count != (unsigned) N[m].handles) { viol(1, "network ref_count differs from handles handed out", "%u vs %d", cn->ref_count, N[m].handles); return; }
                if (cn->n_cached_pages != np) { viol(1, "network n_cached_pages inexact", "%u vs %u", cn->n_cached_pages, np); return; }
                if (cn->n_referenced_pages != nref) { viol(1, "network n_referenced_pages inexact", "%u vs %u", cn->n_referenced_pages, nref); return; }
                if (cn->max_cached_pages < cn->n_cached_pages) { viol(1, "network max_cached_pages below current", "%u < %u", cn->max_cached_pages, cn->n_cached_pages); return; }
                for (int p = 0; p < NPG; p++) {
                        const struct ttx_page_stat *ps = cache_network_const_page_stat(cn, PG[p]);
                        if (ps->n_subpages != per[p]) { viol(1, "page n_subpages inexact", "pgno %x: %u vs %u", PG[p], ps->n_subpages, per[p]); return; }
                }
                if (full) {
                        unsigned sum = 0;
                        for (int p = 0; p < 0x800; p++) sum += cn->_pages[p].n_subpages;
                        if (sum != np) { viol(1, "page n_subpages inexact", "sum over all pages %u vs %u", sum, np); return; }
                }
                if (cn->zombie) { nz++; oc(OC_NET_ZOMBIE); }
        }
        if (ca->n_cached_networks != (unsigned) nRN - nz) { viol(1, "n_cached_networks inexact", "%u vs %u", ca->n_cached_networks, nRN - nz); return; }

        /* map: the versions of one (network, page) are distinguishable and in MRU order */
        for (int i = 0; i < nV; i++) {
                if (V[i].st != V_CACHED) continue;
                struct rpage *ri = rp_of(V[i].real, 0);
                for (int k = i + 1; k < nV; k++) {
                        if (V[k].st != V_CACHED || V[k].net != V[i].net || V[k].pgno != V[i].pgno) continue;
                        struct rpage *rk = rp_of(V[k].real, 0);
                        if ((V[i].stamp > V[k].stamp) != (ri->hash_pos < rk->hash_pos)) {
                                viol(1, "hash chain not in most-recently-used order", "%x: .%x and .%x", V[i].pgno, V[i].subno, V[k].subno); return; }
                        if (V[i].subno == V[k].subno) {
                                /* genuine on the unchanged tree (see report): soft, the state stays explorable */
                                /* reported by the transition that creates it */
                                if (g_report && (&V[i] == g_new_version || &V[k] == g_new_version)) { oc(OC_DUP);
                                        viol(0, "two cached versions with the same (network, pgno, subno) after a single-version put", "%x.%x twice", V[i].pgno, V[i].subno); }
                        }
                }
        }
        /* highest subpage: the decoder's current network, stored subnos 0..0x79 */
        for (int s = 0; s < NH; s++) {
                if (slot_net[s] < 0) continue;
                cache_network *save = g_vbi->cn; g_vbi->cn = cn_of(s);
                for (int p = 0; p < NPG; p++) {
                        int hi = vbi_cache_hi_subno(g_vbi, PG[p]), want = -1;
                        for (int k = 0; k < nV; k++) if (V[k].st == V_CACHED && V[k].net == slot_net[s] && V[k].pgno == PG[p] && V[k].subno <= 0x79 && V[k].subno > want) want = V[k].subno;
                        if (hi < want) { g_vbi->cn = save; viol(1, "vbi_cache_hi_subno below a stored subpage", "pgno %x: %x < %x", PG[p], hi, want); return; }
                        /* ... and not above: the library never lowers the statistic when the highest version is superseded or
                         * evicted, which the property text does not clearly forbid ("agree with that map" is read with this
                         * tolerance); but a value above every subpage ever stored on THIS network cannot agree with any map
                         * of it - in particular 0 is demanded for every page number on a new network after a channel switch
                         * and the new maximum once pages of the new station were stored (seed C10 round 5) */
                        const struct mnet *mn = &N[slot_net[s]];
                        if (!mn->hi_wide[p]) {
                                if (hi > mn->hi_ever[p]) { g_vbi->cn = save;
                                        viol(1, "vbi_cache_hi_subno above every subpage ever stored on this network", "pgno %x: %x > %x (highest cached: %x)", PG[p], hi, mn->hi_ever[p], want < 0 ? 0 : want); return; }
                                if (g_report) oc(hi == (want < 0 ? 0 : want) ? OC_HI_EXACT : OC_HI_ABOVE);
                        }
                }
                g_vbi->cn = save;
        }
}

/* ---- operations ------------------------------------------------------------------------ */

static const struct expect NOTHING = { 0, 0, -1, -1, NULL };

static cache_page *referenced_at(int i)
{
        int k = 0;
        for (struct node *n = ca->referenced._succ; n != &ca->referenced; n = n->_succ, k++)
                if (k == i) return PARENT(n, cache_page, pri_node);
        return NULL;
}

static void m_stored(int net, int pgno, int stored)
{
        int pi = pgidx(pgno);
        if (pi < 0) return;
        if (stored > 0x79) N[net].hi_wide[pi] = 1;
        else if (stored > N[net].hi_ever[pi]) N[net].hi_ever[pi] = stored;
}

static void do_put(const struct letter *L, int hold, int full)
{
        int net = slot_net[L->net];
        if (net < 0) return;
        cache_network *cn = cn_of(L->net);
        struct expect A = NOTHING;
        if (L->op == OP_PUTBAD) {
                cache_page *in = build_page(L->cls, L->pgno, L->subno, 0);
                cache_page *cp = _vbi_cache_put_page(ca, cn, in);
                free(in);
                if (cp) { viol(1, "put accepts pgno xFF", "%x", L->pgno); cache_page_unref(cp); }
                else oc(OC_PUT_BAD_REFUSED);
                settle(&A, full);
                return;
        }
        unsigned tag = next_tag++;
        int pi = pgidx(L->pgno), stored, mask;
        m_key(pi >= 0 ? N[net].clock[pi] : 0, L->pgno, L->subno, &stored, &mask);
        long size = cls_size(L->cls), used = m_used(), limit = (long) ca->memory_limit;
        struct mver *match = mask ? m_find(net, L->pgno, stored, mask) : NULL;
        long avail = limit - used + (match && match->holds == 0 ? (long) match->size : 0);
        A.pressure = avail < size;
        A.must_go = match;
        if (!mask) { A.put_net = net; A.put_pgno = L->pgno; }

        cache_page *in = build_page(L->cls, L->pgno, L->subno, tag);
        cache_page *cp = _vbi_cache_put_page(ca, cn, in);
        free(in);
        if (!cp) {
                if (!A.pressure) { viol(1, "put fails although the page fits", "%x.%x size %ld used %ld limit %ld", L->pgno, L->subno, size, used, limit); return; }
                oc(OC_PUT_FAIL);
                A.must_go = NULL; A.put_net = net; A.put_pgno = L->pgno;      /* a refused put may or may not have detached the old version */
                settle(&A, full);
                return;
        }
        if (match) oc(match->holds ? OC_PUT_ZOMBIFY : OC_PUT_REPLACE); else if (mask) oc(OC_PUT_NEW);
        /* the allocation of a victim may be reused */
        for (int i = 0; i < nV; i++) if ((V[i].st == V_CACHED || V[i].st == V_ZOMBIE) && V[i].real == cp) {
                if (V[i].holds) { viol(1, "put overwrites a referenced page", "%x.%x", V[i].pgno, V[i].subno); return; }
                V[i].real = NULL; oc(OC_PUT_REUSE);
        }
        if (nV >= MAXV) { fprintf(stderr, "C10: MAXV\n"); exit(42); }
        struct mver *v = &V[nV++];
        memset(v, 0, sizeof *v);
        v->st = V_CACHED; v->net = net; v->pgno = L->pgno; v->subno = stored; v->cls = L->cls; v->holds = 1;
        v->tag = tag; v->size = size; v->stamp = ++mclock; v->real = cp;
        g_new_version = v;
        m_stored(net, L->pgno, stored);
        if (cp->ref_count != 1) { viol(1, "put returns a page with ref_count != 1", "%u", cp->ref_count); return; }
        if (!page_equals(cp, v)) { viol(1, "put stores something else than it was given", "%x.%x -> %x.%x function %d", L->pgno, L->subno, cp->pgno, cp->subno, cp->function); return; }
        if (A.pressure) oc(OC_PUT_EVICT);
        if (hold && nholds < MAXHOLD) nholds++;
        else {
                /* the usual pattern: cache_page_unref (_vbi_cache_put_page (...)) */
                if (used + size - (match && match->holds == 0 ? (long) match->size : 0) > limit || A.pressure) A.pressure = 1;
                cache_page_unref(cp); v->holds = 0;
        }
        settle(&A, full);
}

static void do_get(const struct letter *L, int full)
{
        int net = slot_net[L->net];
        if (net < 0) return;
        int mask = L->subno == VBI_ANY_SUBNO ? 0 : L->mask;
        struct mver *want = m_find(net, L->pgno, L->subno, mask);
        cache_page *cp = _vbi_cache_get_page(ca, cn_of(L->net), L->pgno, L->subno, L->mask);
        if (!cp != !want) { viol(1, want ? "lookup misses a stored page" : "lookup returns a page that is not in the map", "%x.%s mask %x", L->pgno, subno_str(L->subno), mask);
                if (cp) cache_page_unref(cp);
                return; }
        if (cp) {
                if (cp != want->real || !page_equals(cp, want)) { viol(1, mask == M_EXACT ? "lookup returns the wrong version" : "wildcard lookup does not return the most recently stored or looked-up version",
                        "%x.%s mask %x: got .%x", L->pgno, subno_str(L->subno), mask, cp->subno); cache_page_unref(cp); return; }
                want->stamp = ++mclock; want->holds++; oc(OC_GET_HIT);
                if (nholds < MAXHOLD && !L->arg) nholds++;
                else { cache_page_unref(cp); want->holds--; }
        } else oc(OC_GET_MISS);
        settle(&NOTHING, full);
}

static void do_iscached(const struct letter *L, int full)
{
        int net = slot_net[L->net];
        if (net < 0) return;
        struct mver *want = m_find(net, L->pgno, L->subno, L->subno == VBI_ANY_SUBNO ? 0 : -1);
        cache_network *save = g_vbi->cn; g_vbi->cn = cn_of(L->net);
        int r = vbi_is_cached(g_vbi, L->pgno, L->subno);
        g_vbi->cn = save;
        if (!r != !want) { viol(1, "vbi_is_cached disagrees with the map", "%x.%x says %d", L->pgno, L->subno, r); return; }
        if (want) { want->stamp = ++mclock; oc(OC_ISC_TRUE); } else oc(OC_ISC_FALSE);
        settle(&NOTHING, full);
}

static void do_unref(int i, int full)
{
        cache_page *cp = referenced_at(i);
        if (!cp) return;
        struct mver *v = m_by_real(cp);
        if (!v || v->holds <= 0) { viol(1, "referenced list holds a page nobody references", "position %d", i); return; }
        struct expect A = NOTHING;
        if (v->holds == 1 && v->st == V_CACHED) A.pressure = m_used() + (long) v->size > (long) ca->memory_limit;
        cache_page_unref(cp);
        v->holds--; nholds--;
        if (v->holds == 0 && v->st == V_ZOMBIE) { v->st = V_GONE; oc(OC_UNREF_FREE_ZOMBIE); }
        else if (v->holds) oc(OC_UNREF_SHARED);
        if (A.pressure) oc(OC_UNREF_EVICT);
        settle(&A, full);
}

static void do_ref(int i, int full)
{
        if (nholds >= MAXHOLD) return;
        cache_page *cp = referenced_at(i);
        if (!cp) return;
        struct mver *v = m_by_real(cp);
        if (!v || v->holds <= 0) { viol(1, "referenced list holds a page nobody references", "position %d", i); return; }
        if (cache_page_ref(cp) != cp) { viol(1, "cache_page_ref returns another page", "-"); return; }
        v->holds++; nholds++;
        settle(&NOTHING, full);
}

struct fe { cache_page *cp[4]; int n, max; };
static int fe_cb(cache_page *cp, vbi_bool wrapped, void *ud)
{
        struct fe *f = ud;
        f->cp[f->n++] = cp;
        return f->n >= f->max;
}
static void do_foreach(const struct letter *L, int full)
{
        int net = slot_net[L->net];
        if (net < 0) return;
        cache_network *cn = cn_of(L->net);
        /* the walk ends only through the callback; it is issued when some cached page lies in
         * the [subno_min, subno_max] window the walk visits (termination and completeness of
         * the walk are property C17, not C10) */
        int reachable = 0;
        for (int i = 0; i < nV; i++) if (V[i].st == V_CACHED && V[i].net == net) {
                const struct ttx_page_stat *ps = cache_network_const_page_stat(cn, V[i].pgno);
                if (V[i].subno >= ps->subno_min && V[i].subno <= ps->subno_max) reachable = 1;
        }
        if (!reachable) { oc(OC_FOREACH_SKIPPED); return; }
        struct fe f = { { 0 }, 0, 3 };
        int r = _vbi_cache_foreach_page(ca, cn, L->pgno, L->subno, (int) L->arg, fe_cb, &f);
        /* The walk ends when the callback asks for it (r = 1 after 3 visits) or - since the repair of the
         * endless walk, /repo b1325bb - by itself with -1 at its second wrap-around, when every cached page
         * of the network has been offered at least once. */
        if (r == -1 && f.n < 3) {
                for (int i = 0; i < nV; i++) if (V[i].st == V_CACHED && V[i].net == net) {
                        const struct ttx_page_stat *ps = cache_network_const_page_stat(cn, V[i].pgno);
                        int seen = 0;
                        if (V[i].subno < ps->subno_min || V[i].subno > ps->subno_max) continue;
                        /* by key: a version shadowed by a newer one with the same subno (known finding) is not offered */
                        for (int k = 0; k < f.n; k++) { struct mver *v = m_by_real(f.cp[k]); if (v && v->pgno == V[i].pgno && v->subno == V[i].subno) seen = 1; }
                        if (!seen) { viol(1, "foreach ends by itself before every cached page of the network was offered", "r=%d visits=%d", r, f.n); return; }
                }
        } else if (r != 1 || f.n != 3) { viol(1, "foreach returns without the callback asking for it", "r=%d visits=%d", r, f.n); return; }
        for (int k = 0; k < f.n; k++) {
                struct mver *v = m_by_real(f.cp[k]);
                if (!v || v->st != V_CACHED || v->net != net) { viol(1, "foreach offers a page that is not in the map of this network", "visit %d", k); return; }
                v->stamp = ++mclock; oc(OC_FOREACH_VISIT);
        }
        settle(&NOTHING, full);
}

static void probe_empty(int slot)
{
        /* a channel switch leaves no page of the old network reachable */
        cache_network *cn = cn_of(slot);
        for (int p = 0; p < NPG; p++) {
                cache_page *cp = _vbi_cache_get_page(ca, cn, PG[p], VBI_ANY_SUBNO, 0);
                if (cp) { viol(1, "page of the old network reachable after a channel switch", "%x.%x", cp->pgno, cp->subno); cache_page_unref(cp); return; }
        }
        if (cn->n_cached_pages) viol(1, "new network starts with cached pages", "%u", cn->n_cached_pages);
}

static void do_switch(int slot, int full)
{
        int old = slot_net[slot];
        if (old < 0) return;
        unsigned nets_before = 0; for (int m = 0; m < nN; m++) nets_before += N[m].alive;
        N[old].handles--;
        if (slot == 0) {
                vbi_chsw_reset(g_vbi, 0);                 /* the library's own channel switch */
                slot_cn[0] = g_vbi->cn;
                D_pending = 0; D_hdr = -1;                /* it also ends the countdown and forgets the header */
        } else {
                cache_network_unref(slot_cn[slot]);      /* what vbi_chsw_reset() does, for a second decoder sharing the cache */
                slot_cn[slot] = _vbi_cache_add_network(ca, NULL, VBI_VIDEOSTD_SET_625_50);
                if (!slot_cn[slot]) { viol(1, "add_network fails", "-"); return; }
                cache_network *save = g_vbi->cn; g_vbi->cn = slot_cn[slot];
                vbi_teletext_channel_switched(g_vbi);
                g_vbi->cn = save;
        }
        slot_net[slot] = new_mnet(cn_of(slot));
        if (g_hard) return;
        probe_empty(slot);
        if (g_hard) return;
        settle(&NOTHING, full);
        unsigned nets_after = 0; for (int m = 0; m < nN; m++) nets_after += N[m].alive;
        if (nets_after > nets_before) oc(OC_SWITCH_NEWNET);
}

static void do_netunref(int slot, int full)
{
        if (slot == 0 || slot_net[slot] < 0) return;
        N[slot_net[slot]].handles--;
        cache_network_unref(slot_cn[slot]);
        slot_cn[slot] = NULL; slot_net[slot] = -1;
        settle(&NOTHING, full);
}

static void do_netadd(int slot, int full)
{
        if (slot == 0 || slot_net[slot] >= 0) return;
        slot_cn[slot] = _vbi_cache_add_network(ca, NULL, VBI_VIDEOSTD_SET_625_50);
        if (!slot_cn[slot]) { viol(1, "add_network fails", "-"); return; }
        cache_network *save = g_vbi->cn; g_vbi->cn = slot_cn[slot];
        vbi_teletext_channel_switched(g_vbi);
        g_vbi->cn = save;
        slot_net[slot] = new_mnet(slot_cn[slot]);
        if (g_hard) return;
        probe_empty(slot);
        if (g_hard) return;
        settle(&NOTHING, full);
}

static void do_limit(long x, int full)
{
        struct expect A = NOTHING;
        A.pressure = m_used() > x;
        ca->memory_limit = x;
        delete_surplus_pages(ca);                         /* = vbi_cache_set_memory_limit() of libzvbi 0.3 */
        if (A.pressure) oc(OC_LIMIT_EVICT);
        settle(&A, full);
}

static void do_purge(int full)
{
        struct expect A = NOTHING; A.purge = 1;
        vbi_cache_purge(ca);
        settle(&A, full);
}

static void do_pagetype(const struct letter *L, int full)
{
        int net = slot_net[L->net];
        if (net < 0) return;
        /* what the decoder does when MIP/BTT/MOT announce a clock page */
        cache_network_page_stat(cn_of(L->net), L->pgno)->page_type = VBI_NONSTD_SUBPAGES;
        N[net].clock[pgidx(L->pgno)] = 1;
        settle(&NOTHING, full);
}

/* ---- decoder level operations --------------------------------------------------------------------
 * The real operation is executed first; the model then follows in the order the decoder works: a pending channel
 * switch is executed when the frame begins, then the lines are decoded.  At most one switch happens per letter. */

static void dec_model_switch(void)
{
        N[slot_net[0]].handles--;
        slot_cn[0] = g_vbi->cn;
        slot_net[0] = new_mnet(g_vbi->cn);
        D_pending = 0; D_hdr = -1;
}

static void do_chsw(int full)
{
        vbi_channel_switched(g_vbi, 0);
        D_pending = 1;
        settle(&NOTHING, full);
}

static void do_frame(int gap, int full)
{
        if (gap) {
                /* a time stamp gap starts the countdown at 40 unless one is running; 39 regular frames later it
                 * stands at 1 (or the switch that was pending has been executed by the first of them) */
                g_now += 1.0; vbi_decode(g_vbi, NULL, 0, g_now);
                for (int i = 0; i < 39; i++) { g_now += 0.04; vbi_decode(g_vbi, NULL, 0, g_now); }
        } else {
                g_now += 0.04; vbi_decode(g_vbi, NULL, 0, g_now);
        }
        if (D_pending) {
                dec_model_switch(); oc(OC_FRAME_SWITCH);
                if (g_hard) return;
                probe_empty(0);
                if (g_hard) return;
        } else if (gap) { D_pending = 1; oc(OC_GAP_COUNTDOWN); }
        settle(&NOTHING, full);
}

static void do_dec(const struct letter *L, int full)
{
        int station = (int) L->arg, switched = 0;
        unsigned tag = next_tag++;
        vbi_sliced sl[3];
        memset(sl, 0, sizeof sl);
        for (int i = 0; i < 3; i++) { sl[i].id = VBI_SLICED_TELETEXT_B; sl[i].line = 7 + i; }
        dec_header(sl[0].data, L->pgno, L->subno, station);
        dec_row(sl[1].data, L->pgno, 1, tag);
        dec_header(sl[2].data, (L->pgno & 0x700) | 0xFF, 0, station);       /* time filling header: ends the page in its magazine */
        g_now += 0.04;
        vbi_decode(g_vbi, sl, 3, g_now);

        struct expect A = NOTHING;
        if (D_pending) { dec_model_switch(); switched = 1; if (g_hard) return; }
        int net = slot_net[0];
        /* the header looks the page up to continue from the cached version */
        struct mver *hit = m_find(net, L->pgno, L->subno, M_EXACT);
        if (hit) hit->stamp = ++mclock;
        /* the terminating header stores the page, unless its header text is that of another station than the one
         * remembered: then the decoder assumes a channel switch it was not told about and drops the page */
        if (D_hdr >= 0 && D_hdr != station) {
                dec_model_switch(); oc(OC_DEC_AUTOSWITCH);
                if (g_hard) return;
                probe_empty(0);
                if (g_hard) return;
                settle(&A, full);
                return;
        }
        D_hdr = station; D_pending = 0;
        int stored, mask;
        m_key(0, L->pgno, L->subno, &stored, &mask);
        struct mver *match = mask ? m_find(net, L->pgno, stored, mask) : NULL;
        A.must_go = match;
        if (!mask) { A.put_net = net; A.put_pgno = L->pgno; }
        /* the page the decoder stored: first on its hash chain */
        cache_page *cp = NULL;
        for (struct node *n = ca->hash[L->pgno % HASH_SIZE]._succ; n != &ca->hash[L->pgno % HASH_SIZE] && n; n = n->_succ) {
                cache_page *c = PARENT(n, cache_page, hash_node);
                if (c->network == g_vbi->cn && c->pgno == L->pgno && c->subno == stored) { cp = c; break; }
        }
        if (!cp) { viol(1, "page received through vbi_decode() is not in the cache", "%x.%x", L->pgno, L->subno); return; }
        for (int i = 0; i < nV; i++) if ((V[i].st == V_CACHED || V[i].st == V_ZOMBIE) && V[i].real == cp) {
                if (V[i].holds) { viol(1, "put overwrites a referenced page", "%x.%x", V[i].pgno, V[i].subno); return; }
                if (&V[i] != match) { viol(1, "page received through vbi_decode() is not in the cache", "%x.%x: an older version is", L->pgno, L->subno); return; }
                V[i].real = NULL; oc(OC_PUT_REUSE);
        }
        if (match) { oc(match->holds ? OC_PUT_ZOMBIFY : OC_PUT_REPLACE); if (!match->dec) oc(OC_DEC_REPLACES_PUT); } else if (mask) oc(OC_PUT_NEW);
        oc(switched ? OC_DEC_SWITCH_THEN_STORE : OC_DEC_STORED);
        if (nV >= MAXV) { fprintf(stderr, "C10: MAXV\n"); exit(42); }
        struct mver *v = &V[nV++];
        memset(v, 0, sizeof *v);
        v->st = V_CACHED; v->net = net; v->pgno = L->pgno; v->subno = stored; v->cls = CL_LOP; v->holds = 0;
        v->tag = tag; v->size = cls_size(CL_LOP); v->stamp = ++mclock; v->real = cp; v->dec = 1; v->station = station;
        g_new_version = v;
        m_stored(net, L->pgno, stored);
        if (!page_equals(cp, v)) { viol(1, "put stores something else than it was given", "vbi_decode %x.%x -> %x.%x function %d", L->pgno, L->subno, cp->pgno, cp->subno, cp->function); return; }
        settle(&A, full);
}

static void apply(const struct letter *L, int full)
{
        g_new_version = NULL;
        switch (L->op) {
        case OP_PUT: case OP_PUTBAD: do_put(L, 0, full); break;
        case OP_PUTHOLD:  do_put(L, 1, full); break;
        case OP_GET:      do_get(L, full); break;
        case OP_ISCACHED: do_iscached(L, full); break;
        case OP_UNREF:    do_unref((int) L->arg, full); break;
        case OP_REF:      do_ref((int) L->arg, full); break;
        case OP_FOREACH:  do_foreach(L, full); break;
        case OP_PAGETYPE: do_pagetype(L, full); break;
        case OP_SWITCH:   do_switch(L->net, full); break;
        case OP_NETUNREF: do_netunref(L->net, full); break;
        case OP_NETADD:   do_netadd(L->net, full); break;
        case OP_LIMIT:    do_limit(L->arg, full); break;
        case OP_PURGE:    do_purge(full); break;
        case OP_DEC:      do_dec(L, full); break;
        case OP_CHSW:     do_chsw(full); break;
        case OP_FRAME:    do_frame(0, full); break;
        case OP_GAP:      do_frame(1, full); break;
        }
}

/* ---- canonical state -------------------------------------------------------------------- */

static void canon(uint64_t out[2])
{
        mc_hash h; mc_hash_init(&h);
        walk();
        if (walk_bad) { out[0] = out[1] = ~0ull; return; }
        /* R[] is in first-appearance order: hash buckets ascending, chain order, then zombies on the
         * referenced list: the index in R[] is the ordinal of a page */
        for (int i = 0; i < nR; i++) {
                const cache_page *cp = R[i].cp;
                mc_hash_u64(&h, (uint64_t) R[i].hash_b + 1);
                mc_hash_u64(&h, (uint64_t) rn_index(cp->network));
                mc_hash_u64(&h, ((uint64_t) cp->pgno << 32) | (uint32_t) cp->subno);
                mc_hash_u64(&h, ((uint64_t)(cp->function + 16) << 40) | ((uint64_t) cache_page_size(cp) << 16) | (cp->priority << 8) | cp->ref_count);
                mc_hash_u64(&h, ((uint64_t)(R[i].pri_pos + 1) << 16) | (uint64_t)(R[i].ref_pos + 1));
        }
        mc_hash_u64(&h, 0xAAAA0000u + nR);
        for (int i = 0; i < nRN; i++) {
                const cache_network *cn = RN[i];
                unsigned slots = 0; for (int s = 0; s < NH; s++) if (slot_net[s] >= 0 && cn_of(s) == cn) slots |= 1u << s;
                mc_hash_u64(&h, ((uint64_t) cn->ref_count << 48) | ((uint64_t) cn->zombie << 40) | ((uint64_t) cn->n_cached_pages << 24) | ((uint64_t) cn->n_referenced_pages << 8) | slots);
                for (int p = 0; p < NPG; p++) {
                        const struct ttx_page_stat *ps = cache_network_const_page_stat(cn, PG[p]);
                        mc_hash_u64(&h, ((uint64_t)(ps->page_type == VBI_NONSTD_SUBPAGES) << 24) | (ps->n_subpages << 16) | (ps->subno_min << 8) | ps->subno_max);
                }
        }
        mc_hash_u64(&h, 0xBBBB0000u + nRN);
        mc_hash_u64(&h, ca->n_cached_pages); mc_hash_u64(&h, ca->memory_used); mc_hash_u64(&h, ca->memory_limit);
        mc_hash_u64(&h, ca->n_cached_networks);
        mc_hash_u64(&h, (uint64_t) nholds);
        if (g_dec) {
                /* what decides the decoder's next channel switch: the countdown, whether it remembers a header and whose */
                int st = -1;
                if (g_vbi->vt.header_page.pgno) { uint8_t a[42], b[42]; dec_header(a, 0x100, 0, 0); dec_header(b, 0x100, 0, 1);
                        st = !memcmp(g_vbi->vt.header + 8, a + 10, 8) ? 0 : !memcmp(g_vbi->vt.header + 8, b + 10, 8) ? 1 : 2; }
                mc_hash_u64(&h, 0xCCCC0000u + ((uint64_t) g_vbi->chswcd << 8) + (uint64_t)(st + 1));
                /* and what the model expects of it: on a tree where the two differ (an announced switch that is not
                 * scheduled) the state must not be merged with the one the history started from, or the history that
                 * exposes the difference is never run */
                mc_hash_u64(&h, 0xDDDD0000u + ((uint64_t) D_pending << 8) + (uint64_t)(D_hdr + 1));
        }
        out[0] = h.a; out[1] = h.b;
}

/* ---- teardown: releasing the last references frees everything ---------------------------- */

static uint64_t runs_in_process;
static int abandoned;             /* a world was left behind after a hard violation: LSan would see it */
static void *abandoned_keep[256]; static int n_abandoned;

static void flush_counts(void)
{
        for (int i = 0; i < OC_N; i++) if (oc_cnt[i]) { mc_count(oc_name[i], oc_cnt[i]); oc_cnt[i] = 0; }
}

static void teardown(void)
{
        if (g_hard) {
                /* the structure is not trustworthy any more: leave it alone (kept reachable) */
                abandoned = 1;
                if (n_abandoned < 256) abandoned_keep[n_abandoned++] = ca;
                if (g_dec) { if (n_abandoned < 256) abandoned_keep[n_abandoned++] = g_vbi; g_vbi = g_vbi_shared; ca = NULL; live_n = 0; return; }
                g_vbi->ca = g_ca0; g_vbi->cn = g_cn0; ca = NULL; live_n = 0;
                return;
        }
        g_opname = "teardown";
        g_report = 1;
        /* release page references, oldest first */
        for (int guard = 0; guard < 4 * MAXHOLD && !is_empty(&ca->referenced); guard++)
                cache_page_unref(referenced_at(0));
        if (!is_empty(&ca->referenced)) viol(1, "pages stay referenced after every reference was released", "-");
        for (int s = 1; s < NH; s++) if (slot_net[s] >= 0) { cache_network_unref(slot_cn[s]); slot_cn[s] = NULL; }
        if (g_dec) {
                if (ca->memory_used > ca->memory_limit) viol(1, "memory_used exceeds memory_limit", "at teardown %lu > %lu", ca->memory_used, ca->memory_limit);
                vbi_decoder_delete(g_vbi);        /* releases the network, deletes the cache */
                g_vbi = g_vbi_shared; ca = NULL;
        } else {
        /* as vbi_decoder_delete() */
        cache_network_unref(g_vbi->cn);
        if (ca->memory_used > ca->memory_limit) viol(1, "memory_used exceeds memory_limit", "at teardown %lu > %lu", ca->memory_used, ca->memory_limit);
        vbi_cache_delete(ca);
        g_vbi->ca = g_ca0; g_vbi->cn = g_cn0; ca = NULL;
        }
        if (live_n || live_overflow) viol(1, "memory still allocated after all references were released and the cache deleted", "%d blocks", live_n);
        live_n = 0;
        if ((++runs_in_process & 0x3FFF) == 0 && !abandoned) mc_leak_check("LeakSanitizer: leak after teardown");
}

/* ---- crash probe -------------------------------------------------------------------------------
 * A put that meets a finite memory limit while a network without handle still owns unreferenced
 * pages is the one class of transition known to die on the unchanged tree (double delete, see the
 * report).  The engine ends a BFS level after 40 dead workers, which would leave the phases that
 * contain this class unexplored beyond it.  Transitions of this class are therefore executed first
 * in a forked copy of the worker; if the copy dies, the violation is recorded under the same key
 * the engine would have built ("<case key> crash=<class>@<function>") and the history is pruned
 * (a dead state has no successors anyway); if it survives, the transition is executed normally.
 * The verdict is unchanged, nothing is skipped; in --replay mode the transition runs in process so
 * that the sanitizer report goes to stderr. */
static int probe_dies(const struct letter *L, char *cls, size_t clen)
{
        int pfd[2];
        if (pipe(pfd)) return 0;
        fflush(NULL);
        pid_t p = fork();
        if (p < 0) { close(pfd[0]); close(pfd[1]); return 0; }
        if (p == 0) {
                dup2(pfd[1], 2); close(pfd[0]); close(pfd[1]);
                g_probe_child = 1; g_report = 0;
                memset(oc_seen, 1, sizeof oc_seen);
                alarm(60);
                apply(L, 1);
                _exit(0);
        }
        close(pfd[1]);
        static char buf[32768]; size_t n = 0; ssize_t r;
        while ((r = read(pfd[0], buf + n, sizeof buf - 1 - n)) > 0) { n += (size_t) r; if (n >= sizeof buf - 1) { char sink[4096]; while (read(pfd[0], sink, sizeof sink) > 0) { } break; } }
        buf[n] = 0; close(pfd[0]);
        int st = 0; while (waitpid(p, &st, 0) < 0) ;
        if (WIFEXITED(st) && WEXITSTATUS(st) == 0) return 0;
        /* same classification as the engine: sanitizer class + first frame inside the code under test */
        char w[64] = "", fn[80] = ""; const char *q;
        cls[0] = 0;
        if ((q = strstr(buf, "AddressSanitizer: "))) { sscanf(q + 18, "%63[^ \n]", w); snprintf(cls, clen, "asan:%s", w); }
        else if ((q = strstr(buf, "Assertion")) && strstr(q, "failed")) { char a[128] = ""; sscanf(q, "%127[^\n]", a); snprintf(cls, clen, "assert:%.100s", a); }
        else if (WIFSIGNALED(st)) snprintf(cls, clen, WTERMSIG(st) == SIGALRM ? "hang>60s" : "signal:%d", WTERMSIG(st));
        else snprintf(cls, clen, "exit:%d", WEXITSTATUS(st));
        for (const char *l = buf; l && *l; l = strchr(l, '\n') ? strchr(l, '\n') + 1 : NULL) {
                const char *e = strchr(l, '\n'); size_t len = e ? (size_t)(e - l) : strlen(l);
                char line[512]; if (len >= sizeof line) len = sizeof line - 1; memcpy(line, l, len); line[len] = 0;
                const char *in = strstr(line, " in ");
                if (in && strstr(line, "    #") && (strstr(in, "/src/") || strstr(in, "/daemon/")) && !strstr(in, "/verif/")) { sscanf(in + 4, "%79[^ \n]", fn); break; }
        }
        if (fn[0] && strlen(cls) + strlen(fn) + 2 < clen) { strcat(cls, "@"); strcat(cls, fn); }
        return 1;
}

/* ---- the whole universe against the map (decoder phase, end of every history) ---------------------
 * Every page number of PG[] - stored on this network, stored on an earlier one only, never stored - with
 * subnos 0..3 and VBI_ANY_SUBNO: vbi_is_cached() and _vbi_cache_get_page() must say what the map of the decoder's
 * CURRENT network says, and return the version stored there (not one of an earlier station). */
static void universe_probe(void)
{
        static const int SUB[] = { VBI_ANY_SUBNO, 0, 1, 2, 3 };
        int net = slot_net[0];
        int fewer = 0;
        for (int p = 0; p < NPG; p++) {
                for (unsigned k = 0; k < sizeof SUB / sizeof *SUB; k++) {
                        int mask = SUB[k] == VBI_ANY_SUBNO ? 0 : M_EXACT;
                        struct mver *want = m_find(net, PG[p], SUB[k], mask);
                        int r = vbi_is_cached(g_vbi, PG[p], SUB[k]);
                        if (!r != !want) { viol(1, "vbi_is_cached disagrees with the map", "%x.%s says %d", PG[p], subno_str(SUB[k]), r); return; }
                        if (want) want->stamp = ++mclock;
                        cache_page *cp = _vbi_cache_get_page(g_vbi->ca, g_vbi->cn, PG[p], SUB[k], M_EXACT);
                        if (!cp != !want) { viol(1, want ? "lookup misses a stored page" : "lookup returns a page that is not in the map", "%x.%s", PG[p], subno_str(SUB[k]));
                                if (cp) cache_page_unref(cp);
                                return; }
                        if (cp) {
                                int ok = cp == want->real && page_equals(cp, want);
                                cache_page_unref(cp);
                                if (!ok) { viol(1, mask ? "lookup returns the wrong version" : "wildcard lookup does not return the most recently stored or looked-up version", "%x.%s", PG[p], subno_str(SUB[k])); return; }
                                want->stamp = ++mclock; oc(OC_PROBE_HIT);
                        } else oc(OC_PROBE_MISS);
                }
                /* coverage: a page number that had a higher subpage on an earlier network of this history than here */
                for (int m = 0; m < nN; m++) if (m != net && N[m].hi_ever[p] > N[net].hi_ever[p]) fewer = 1;
        }
        if (fewer) oc(OC_SWITCH_FEWER);
        settle(&NOTHING, 1);
}

/* ---- BFS run ------------------------------------------------------------------------------- */

static uint64_t ev_ops;

static int run(const uint8_t *hist, int n, uint64_t hash[2], void *arg)
{
        static const char *opkey[] = { "put", "put", "get", "is_cached", "unref", "ref", "foreach", "page_type", "switch",
                                       "network_unref", "add_network", "memory_limit", "purge", "put",
                                       "vbi_decode(page)", "vbi_channel_switched", "vbi_decode(frame)", "vbi_decode(gap)" };
        const struct alphabet *al = arg;
        g_dec = al->dec;
        char hs[500]; size_t o = 0; hs[0] = 0;
        for (int i = 0; i < n && o + 90 < sizeof hs; i++) o += snprintf(hs + o, sizeof hs - o, "%s%s", i ? " ; " : "", letter_name(hist[i], arg));
        mc_case("replayed prefix", "%s", hs);
        world_init();
        g_report = 0; g_opname = "initial state";
        if (n == 0) { g_report = 1; settle(&NOTHING, 1); }
        for (int i = 0; i < n && !g_hard; i++) {
                const struct letter *L = &al->L[hist[i]];
                int last = i == n - 1;
                g_report = last; g_opname = letter_name(hist[i], arg);
                if (last) {
                        /* crash attribution: the operation and, for put, the class of state it meets */
                        const char *k = opkey[L->op];
                        if (L->op == OP_PUT || L->op == OP_PUTHOLD) {
                                int linger = 0;
                                for (int v = 0; v < nV; v++) if (V[v].st == V_CACHED && V[v].holds == 0 && N[V[v].net].handles == 0) linger = 1;
                                if ((long) ca->memory_limit < LIM_INF) k = linger ? "put[finite limit, unreferenced pages in a network without handle]" : "put[finite limit]";
                        }
                        mc_case(k, "%s", hs);
                        if (k != opkey[L->op] && strstr(k, "without handle") && !mc_replaying) {
                                char cls[200], key[400];
                                if (probe_dies(L, cls, sizeof cls)) {
                                        snprintf(key, sizeof key, "%s crash=%s", k, cls);
                                        mc_violation(key, "%s", hs);
                                        mc_count("transitions probed in a forked copy: died", 1);
                                        g_hard = 1;
                                        break;
                                }
                                mc_count("transitions probed in a forked copy: survived", 1);
                        }
                }
                apply(L, last);
                ev_ops++;
        }
        int dead = g_hard;
        if (!dead) canon(hash); else { hash[0] = 0xDEAD0000DEAD0000ull; hash[1] = mc_hash64(hist, n); }
        if (!dead && g_dec) {
                /* after the state has been hashed (the look-ups reorder the chains; successors are replayed from scratch) */
                mc_case("look-ups over the page universe", "after: %s", hs);
                g_report = 1; g_opname = "look-ups over the page universe";
                universe_probe();
                dead |= g_hard;
        }
        mc_case("teardown", "after: %s", hs);
        teardown();
        dead |= g_hard;
        mc_count("operations_executed", ev_ops); ev_ops = 0; flush_counts();
        if (!dead) mc_distinct(hash[0] ^ (hash[1] * 0x9E3779B97F4A7C15ull));
        return dead;
}

/* ---- flat phase: every page function / size class -------------------------------------------- */

static void functions_case(uint64_t idx, void *arg)
{
        /* idx: function -5..16 (22 values) x x26 {0,1} x x28 {0,1,2,4,0x10,0x13} x limit {inf, exact fit} */
        int fn = (int)(idx % 22) - 5; idx /= 22;
        unsigned x26 = idx % 2; idx /= 2;
        static const unsigned X28[] = { 0, 1, 2, 4, 0x10, 0x13 };
        unsigned x28 = X28[idx % 6]; idx /= 6;
        int exact = (int) idx;
        mc_case("put/get of every page function", "function %d x26=%u x28=%x exact-limit=%d", fn, x26, x28, exact);
        world_init();
        g_report = 1; g_opname = "functions";
        /* independent size */
        cache_page *z = NULL; unsigned size;
        switch (fn) {
        case PAGE_FUNCTION_UNKNOWN: case PAGE_FUNCTION_LOP:
                size = HDR + ((x28 & 0x13) ? sizeof z->data.ext_lop : x26 ? sizeof z->data.enh_lop : sizeof z->data.lop); break;
        case PAGE_FUNCTION_GPOP: case PAGE_FUNCTION_POP: size = HDR + sizeof z->data.pop; break;
        case PAGE_FUNCTION_GDRCS: case PAGE_FUNCTION_DRCS: size = HDR + sizeof z->data.drcs; break;
        case PAGE_FUNCTION_AIT: size = HDR + sizeof z->data.ait; break;
        default: size = sizeof *z; break;
        }
        static cache_page pg;
        /* exact: the limit is two pages, the third put must evict (victim allocation reused) */
        if (exact) ca->memory_limit = 2ul * size;
        for (int round = 0; round < 3; round++) {
                memset(&pg, 0xEE, sizeof pg);
                pg.function = fn; pg.pgno = 0x1AB; pg.subno = 0x3F70 | round; pg.national = round; pg.flags = 0xF00 + round;
                pg.lop_packets = 7; pg.x26_designations = x26; pg.x27_designations = 9; pg.x28_designations = x28;
                unsigned char *d = (unsigned char *) &pg.data;
                for (unsigned k = 0; k < size - HDR; k++) d[k] = pat(100 + round, k);
                cache_page *in = mc_exact(&pg, size);
                int pressure = ca->memory_used + size > ca->memory_limit;
                cache_page *cp = _vbi_cache_put_page(ca, g_vbi->cn, in);
                free(in);
                if (!cp) {
                        if (!pressure) mc_violation("put fails although the page fits", "function %d size %u", fn, size);
                        else mc_outcome("put fails under pressure");
                        break;
                }
                if (cache_page_size(cp) != size) { mc_violation("cache_page_size differs from the size class", "function %d: %u vs %u", fn, cache_page_size(cp), size); }
                if (cp->function != fn || cp->pgno != 0x1AB || cp->subno != (0x3F70 | round) || cp->national != round || cp->flags != 0xF00u + round
                    || cp->lop_packets != 7 || cp->x26_designations != x26 || cp->x27_designations != 9 || cp->x28_designations != x28
                    || memcmp(&cp->data, &pg.data, size - HDR))
                        mc_violation("put stores something else than it was given", "function %d", fn);
                cache_page_unref(cp);
                unsigned want = (exact && round == 2) ? 2 : round + 1;
                if (ca->memory_used != (unsigned long) size * want) mc_violation("memory_used inexact", "function %d round %d: %lu", fn, round, ca->memory_used);
                if (ca->memory_used > ca->memory_limit) mc_violation("memory_used exceeds memory_limit", "function %d round %d", fn, round);
                cache_page *g = _vbi_cache_get_page(ca, g_vbi->cn, 0x1AB, round, 0x0F);
                if (!g || memcmp(&g->data, &pg.data, size - HDR) || g->subno != (0x3F70 | round)) mc_violation("lookup returns the wrong version", "function %d S1=%d", fn, round);
                cache_page_unref(g);
                if (ca->n_cached_pages != want) mc_violation("cache n_cached_pages inexact", "function %d round %d: %u", fn, round, ca->n_cached_pages);
                if (pressure) mc_outcome("put:evicts under pressure");
        }
        mc_outcome("size class %u bytes", size);
        mc_distinct(0xF0000000ull + idx * 1000 + (uint64_t)(fn + 5) * 40 + x26 * 20 + x28);
        teardown();
}

int main(int argc, char **argv)
{
        mc_init(argc, argv, "C10");
        mc_set_budget(300, 860);        /* deadlines (exhaustive:false beyond); intended run times on 16 free cores are far below */
        mc_meta("level", "model_checking");
        mc_meta("technique", "explicit-state BFS over operation histories replayed on a fresh real vbi_cache (cache.c with CACHE_CONSISTENCY/DLIST_CONSISTENCY), canonical state hashing, reference map model + structural audit + allocator ledger after every history; one phase drives the cache through a real vbi_decoder (vbi_decode of Teletext packets, every channel switch path of vbi.c/packet.c)");
        mc_meta("rule", "every history over the phase alphabet up to the depth bound, one per canonical state (lists in order, counters, page descriptors, pointers as ordinals, page bytes abstracted); a state is non-trivial by construction (it is a distinct cache structure); every transition is audited and ends with a full teardown; vbi_cache_hi_subno must lie between the highest cached subpage and the highest ever stored on the current network (0 on a new one) for every page number of the alphabet after every operation");
        mc_meta("assume", "page contents are data-independent: the cache never branches on page bytes, so states are merged modulo the content tags (contents are still compared byte-wise on every page on every transition)");
        mc_meta("assume", "memory_limit is set white-box as vbi_cache_set_memory_limit() of libzvbi 0.3 does (0.2 has no setter); n_networks_limit stays 1 as in 0.2");
        mc_meta("assume", "eviction victims and the versions superseded by a single-version put are learned from the structure (the property does not fix them); foreach termination/completeness belongs to C17");
        int thorough = mc_tier == MC_THOROUGH;
        /*                 keys refs memory networks mixed decoder */
        int depth[NALPH] = { 6, 6, 6, 6, 6, 6 };
        if (thorough) { depth[0] = 8; depth[1] = 7; depth[2] = 8; depth[3] = 7; depth[4] = 8; depth[5] = 7; }
        if (getenv("C10_DEPTH")) for (int i = 0; i < NALPH; i++) depth[i] = atoi(getenv("C10_DEPTH"));
        mc_meta("bound", "keys: %d letters depth %d; refs: %d letters depth %d; memory: %d letters depth %d; networks: %d letters (3 handles) depth %d; mixed: %d letters depth %d; decoder (fresh vbi_decoder per history; stores by put and by vbi_decode of header+row+header, 2 station header texts; switches by vbi_channel_switched+frame, time gap+countdown, foreign header, vbi_chsw_reset; pages held across switches; at the end of every history is_cached/lookup/hi_subno for 4 page numbers x subno ANY,0..3): %d letters depth %d; 528 function/designation/limit cases; <= 3 page references held",
                ALPH[0].n, depth[0], ALPH[1].n, depth[1], ALPH[2].n, depth[2], ALPH[3].n, depth[3], ALPH[4].n, depth[4], ALPH[5].n, depth[5]);
        g_vbi = vbi_decoder_new();            /* one real decoder per process, inherited by the workers */
        if (!g_vbi) { fprintf(stderr, "C10: vbi_decoder_new failed\n"); return 2; }
        g_ca0 = g_vbi->ca; g_cn0 = g_vbi->cn;
        mc_pool("functions", 22 * 2 * 6 * 2, functions_case, NULL, 30);
        const char *only = getenv("C10_ONLY");
        static const int order[NALPH] = { 5, 3, 4, 1, 0, 2 };        /* cheapest phases first: a deadline truncates the largest only */
        for (int k = 0; k < NALPH; k++) {
                int a = order[k];
                if (only && strcmp(only, ALPH[a].name)) continue;
                mc_bfs_spec spec = { ALPH[a].n, depth[a], 0, 30, run, &ALPH[a], letter_name };
                mc_bfs_result res;
                mc_bfs(ALPH[a].name, &spec, &res);
                if (!mc_replaying) mc_note("%s: %llu states, %llu transitions, depth %d%s", ALPH[a].name,
                        (unsigned long long) res.states, (unsigned long long) res.transitions, res.depth_completed, res.fixpoint ? " (fixpoint)" : "");
        }
        return mc_finish();
}
