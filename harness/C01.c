/* C01 - the service decoder survives every input: no crash, abort, hang, bad access,
 * undefined shift/overflow/division, unbounded growth; everything is released at delete.
 *
 * Real code, real vbi_decoder (vbi_decoder_new ... vbi_decode / read side API ...
 * vbi_decoder_delete), layered event alphabet (DESIGN.md section C01):
 *
 *   E2 (mc_bfs) over histories of LETTERS, one letter per shortcut in the code:
 *     Teletext packets (one vbi_decode() of one sliced line each): page headers of every
 *       class packet.c distinguishes (100 erase/no erase/serial/subpages/newsflash..., 1F0 BTT,
 *       1FD MIP, 1FE MOT, 1E7 trigger, hex data pages 16A/16B/17A..17E whose function the MIP/BTT
 *       letters set, hex DISPLAYABLE pages 10A/12F/18A/18B which MIP rows 9/11 list as normal /
 *       subtitle pages, 1FF/8FF filler, other magazines, Hamming damaged header fields), rows of
 *       every page function (LOP text/attributes/bad parity, MIP rows 1/9/11/15, MOT, BTT page
 *       tables with block pages / with groups but no block page / subtitles, AIT, MPT, MPT-EX,
 *       POP pointer and triplet rows, DRCS, EACEM trigger strings), X/26 designations 0,1,2,15,
 *       X/27/0,4, X/28/0,1,3,4, M/29/0,1,4, 8/30 format 1 and 2, IDL;
 *     Caption: every control code class of caption_command() on both fields and channels, PACs,
 *       text, NUL and bad parity pairs, XDS start/continue/payload/end (in and out of range
 *       class/type, c2 = 0, checksum good/bad), complete XDS packets of every class xds_decoder()
 *       knows, ITV trigger strings in T2 (with '<', CR, checksum, > 255 characters);
 *     VPS / WSS / CPR-1204 lines, time stamps (+0, -1 s, +10 s, regular, 40 regular frames),
 *       lines = 0, unknown service ids, vbi_channel_switched, handler (un)registration,
 *       brightness/contrast/default region/level;
 *     Read side: vbi_fetch_vt_page of every cached page (levels 1, 1.5, 2.5, 3.5; rows 1, 2, 25;
 *       navigation), pages 0x900 (TOP index), uncached and invalid numbers, vbi_resolve_link on
 *       every link cell, vbi_resolve_home, vbi_print_page_region, export text/html/vtx/ppm/xpm/png,
 *       vbi_draw_vt/cc_page_region into exactly sized canvases, a page held across later input
 *       and rendered afterwards, vbi_classify_page, vbi_page_title, vbi_cache_hi_subno,
 *       vbi_is_cached, vbi_fetch_cc_page 1..8 and out of range, vbi_search_new/next forward and
 *       backward (visit counting progress callback).
 *   The layers are explored separately to depth D with canonical state de-duplication, then a
 *   cross layer alphabet (a selection of every layer) and "read" layers which start from
 *   populated decoders (Level 2.5 page with MOT/POP/DRCS, TOP, TOP recognised without any
 *   block page + a page with a hexadecimal number, caption).
 *
 *   Byte exhaustive single steps (pool): every STORYLINE is a well formed transmission (the
 *   Level 2.5 page, TOP, MIP classification + DRCS store path, trigger page, subpages, 8/30 ...;
 *   seed C01 round 5 added three TOP storylines whose displayable pages have hexadecimal numbers:
 *   BTT packet 21 only / page table without block page / complete table - the page walks of the
 *   formatter start from a number no table of decimal pages contains).  Every storyline is also
 *   run in every order of its page transmissions (phase storyline-orders).
 *   Seed C01 round 6 (TOP index page 900 writing title rows past vbi_page.text[]) added phase
 *   top-index-titles: the storylines carry two titles per AIT page, but a broadcaster sends up to 46;
 *   complete TOP services with every pair of title counts 0..46 x 0..46 of the two AIT pages the BTT
 *   links x 3 title numberings x BTT before / after the tables, then page 900 is fetched with
 *   sub-page ANY, 0..6 into an exactly sized heap vbi_page (ASan red zone + text[1025..1055] check).
 *   For every packet of every storyline - i.e. for every base packet in the reachable state its
 *   prefix produces - each of the 42 bytes is replaced by each of the 256 values; the rest of
 *   the storyline follows, then every cached page is fetched at Level 3.5 and 1.5, links
 *   resolved, text printed, TOP index / title / classification queried.  All 65536 caption byte
 *   pairs (raw, any parity) are fed on line 21 and on line 284 from a set of caption states,
 *   followed by text, CR, an XDS terminator and fetches.
 *
 * Oracle (exactly what the property names):
 *   - AddressSanitizer, assert(), signals: the worker dies, the engine attributes the crash to
 *     the API entry point being executed (mc_case key = "vbi_decode", "vbi_fetch_vt_page" ...);
 *   - UBSan shift / signed overflow / division / float cast, built RECOVERABLE (harness/C01.mk):
 *     every report arrives in __ubsan_on_report() and becomes one violation per source location
 *     "ubsan <kind> at src/<file>:<line>"; execution continues, so a known UB site masks nothing;
 *   - hang: per case watchdog (>= 20 s, the first one re-run alone x5 by the engine): key
 *     "<API entry point> crash=hang>100s", e.g. vbi_fetch_vt_page for the navigation bar walk;
 *   - release at delete: malloc/calloc/realloc/free of the library are wrapped; every block the
 *     library allocated between vbi_decoder_new() and the end of vbi_decoder_delete() (+ deletion
 *     of export/search objects) must be free again: "leak: block allocated in <function> ...";
 *     LeakSanitizer (mc_leak_check) runs as a backstop for blocks libc allocated (strdup ...);
 *   - growth bound: a history is repeated 9 times on one decoder; live heap bytes measured after
 *     repetition 3, 6 and 9 must not grow by the same positive amount twice (linear growth);
 *   - what ASan cannot see inside one heap block or on the stack:
 *       audit(): every write index the decoder keeps between calls is inside its array (X/26 triplet
 *         count, caption cursor/window/line pointer, XDS sub-packet counts and current pointer, ITV fill,
 *         vt.current, have_top, magazine character sets and MOT look-up tables);
 *       a fetched vbi_page is pre-filled: text[1025..1055] must stay untouched, and the palette of a 25 row
 *         fetch must equal the palette of the header-only fetch (color_map[] is the member behind text[]);
 *       strings handed to the application (events, vbi_link) must be terminated inside their arrays;
 *       the stack below every fetch is painted with '7' so that uninitialised automatic buffers of the
 *         library behave deterministically (a digit run, no terminator);
 *   - a vbi_page the application still holds (no vbi_unref_page() yet) must stay usable after any later
 *     input: before it is rendered ASan is asked whether pg->drcs[] / pg->drcs_clut address freed memory
 *     ("held page: vbi_page.<pointer> points into freed memory after <what freed it>"), phases
 *     held-page-draw / held-page-export and the "hold" / "held page" letters of the read layers.
 *
 * Deviations from DESIGN.md, forced by the code / budget:
 *   - forward vbi_search_next() from a start page above all cached pages never returns (defect
 *     owned by C17): searches start at page 100 or at a cached page (always terminates), and
 *     the progress callback cancels after 2*(cached pages)+2 visits; a cut is counted, not reported;
 *   - the growth oracle uses 3/6/9 repetitions (three equally spaced points) instead of 1/2/4:
 *     decides "linear" without assuming that the first repetition is already steady state;
 *   - letters are bytes, so the alphabet has <= 256 letters; multi packet actions (complete XDS
 *     packets, ITV strings, 40 frames) are macro letters;
 *   - an XDS terminator letter computes the checksum that makes the packet valid from the
 *     decoder's running sum (adaptive transmitter; still a pure function of the history);
 *   - an auxiliary phase feeds the same byte exhaustive packets to the IDL and PFC packet
 *     demultiplexers (same Hamming helpers, same UB class; src/idl_demux.c);
 *   - the event handler reads every event payload with bounded string functions; an
 *     unterminated string is counted as an outcome, not reported (not named by the property).
 */
#ifndef _GNU_SOURCE
#define _GNU_SOURCE
#endif
#include <stdio.h>
#include <stdlib.h>
#include <string.h>
#include <stdint.h>
#include <stddef.h>
#include <stdarg.h>
#include <unistd.h>
#include <errno.h>
#include "mc.h"
#include "src/vbi.h"
#include "src/hamm.h"
#include "src/format.h"
#include "src/sliced.h"
#include "src/event.h"
#include "src/export.h"
#include "src/exp-gfx.h"
#include "src/exp-txt.h"
#include "src/search.h"
#include "src/tables.h"
#include "src/lang.h"
#include "src/vps.h"
#include "src/idl_demux.h"
#include "src/pfc_demux.h"

#if defined(__has_feature)
#  if __has_feature(address_sanitizer)
#    include <sanitizer/asan_interface.h>
#    define HAVE_ASAN 1
#    define POISON(p, n)   ASAN_POISON_MEMORY_REGION(p, n)
#    define UNPOISON(p, n) ASAN_UNPOISON_MEMORY_REGION(p, n)
#  endif
#endif
#ifndef POISON
#  define POISON(p, n)   ((void) 0)
#  define UNPOISON(p, n) ((void) 0)
#endif
#define NOASAN __attribute__((no_sanitize("address")))

static void harness_die(const char *fmt, ...) __attribute__((noreturn, format(printf, 1, 2)));
static void harness_die(const char *fmt, ...)
{
        va_list ap; va_start(ap, fmt);
        fprintf(stderr, "C01: HARNESS ERROR: "); vfprintf(stderr, fmt, ap); fputc('\n', stderr);
        va_end(ap);
        fflush(NULL);
        _exit(42);
}

/* ======================================================================== */
/* current operation (crash / UB attribution)                               */
/* ======================================================================== */

static char cur_op[48] = "startup";
static char cur_ctx[700] = "";
static int  ub_printed;              /* a UBSan report was written to stderr since the last op() */

static const char *op_prefix = "";    /* e.g. "held page after later input: " */

static void op(const char *api_)
{
        char api[96];
        snprintf(api, sizeof api, "%s%s", op_prefix, api_);
        if (ub_printed && !mc_replaying) {
                /* the engine classifies a dead worker by the first sanitizer line in its stderr file:
                 * drop the (already recorded) recoverable UBSan text so that it cannot mislabel a
                 * later ASan / assert death */
                ub_printed = 0;
                fflush(stderr);
                if (ftruncate(2, 0) == 0) lseek(2, 0, SEEK_SET);
        }
        snprintf(cur_op, sizeof cur_op, "%s", api);
        mc_case(api, "%s", cur_ctx);
}

static void viol(const char *key, const char *fmt, ...) __attribute__((format(printf, 2, 3)));
void __ubsan_get_current_report_data(const char **kind, const char **msg, const char **file,
                                     unsigned *line, unsigned *col, char **addr);
void __ubsan_on_report(void)
{
        const char *kind = "?", *msg = "?", *file = "?"; unsigned line = 0, col = 0; char *addr = NULL;
        __ubsan_get_current_report_data(&kind, &msg, &file, &line, &col, &addr);
        const char *f = file ? strstr(file, "/src/") : NULL;
        f = f ? f + 1 : (file ? file : "?");
        char key[200];
        snprintf(key, sizeof key, "ubsan %s at %s:%u", kind, f, line);
        viol(key, "%s (column %u) | during %s | %s", msg, col, cur_op, cur_ctx);
        mc_count("ubsan_reports", 1);
        ub_printed = 1;
}

/* ======================================================================== */
/* allocator accounting + recycling of the two big per decoder blocks       */
/* ======================================================================== */

void *__real_malloc(size_t);
void *__real_calloc(size_t, size_t);
void *__real_realloc(void *, size_t);
void  __real_free(void *);
void  __sanitizer_symbolize_pc(void *pc, const char *fmt, char *out, size_t out_size) __attribute__((weak));

#define ATAB 8192
#define TOMB ((void *) 1)
struct ablk { void *p; size_t n; void *pc; int epoch; };
static struct ablk atab[ATAB];
static int      acct_on, acct_nlive, acct_used, acct_epoch;
static size_t   acct_bytes, acct_peak;
static uint64_t acct_nalloc;

static unsigned aslot(const void *p) { return (unsigned)((((uintptr_t) p) >> 4) * 2654435761u) & (ATAB - 1); }

static void acct_add(void *p, size_t n, void *pc)
{
        if (!p || !acct_on) return;
        if (acct_used >= ATAB / 2) harness_die("allocation table full (%d live blocks)", acct_nlive);
        unsigned i = aslot(p);
        while (atab[i].p && atab[i].p != TOMB) i = (i + 1) & (ATAB - 1);
        if (!atab[i].p) acct_used++;
        atab[i].p = p; atab[i].n = n; atab[i].pc = pc; atab[i].epoch = acct_epoch;
        acct_nlive++; acct_nalloc++;
        acct_bytes += n; if (acct_bytes > acct_peak) acct_peak = acct_bytes;
}
static struct ablk *acct_find(const void *p)
{
        if (!p || !acct_nlive) return NULL;
        for (unsigned i = aslot(p); atab[i].p; i = (i + 1) & (ATAB - 1))
                if (atab[i].p == p) return &atab[i];
        return NULL;
}
static int acct_del(void *p)
{
        struct ablk *b = acct_find(p);
        if (!b) return 0;
        acct_bytes -= b->n; acct_nlive--;
        b->p = TOMB;
        return 1;
}

#define NPOOL 6
struct bigpool { size_t size; void *owned[NPOOL]; int nowned; void *idle[NPOOL]; int nidle; };
static struct bigpool pools[2] = { { sizeof(struct vbi_decoder) }, { sizeof(cache_network) } };

/* The decoder block is reused at once (one decoder per execution, nothing can point to the old one).
 * A cache_network is replaced at every channel switch while pages, vbi_page structures ... may still point
 * into the old one: an idle network block is reused only when two younger ones are idle as well (FIFO), so a
 * stale pointer still hits poisoned memory. */
static void *pool_take(struct bigpool *b, int zero)
{
        int need = (b == &pools[1]) ? 3 : 1;
        if (b->nidle >= need || (b->nidle && b->nowned >= NPOOL)) {
                void *p = b->idle[0];
                memmove(&b->idle[0], &b->idle[1], (--b->nidle) * sizeof b->idle[0]);
                UNPOISON(p, b->size);
                if (zero) memset(p, 0, b->size);
                else memset(p, 0xBE, b->size);      /* what a fresh ASan block contains */
                return p;
        }
        void *p = zero ? __real_calloc(1, b->size) : __real_malloc(b->size);
        if (p && b->nowned < NPOOL) b->owned[b->nowned++] = p;
        return p;
}
static struct bigpool *pool_of(size_t n) { for (int i = 0; i < 2; i++) if (n == pools[i].size) return &pools[i]; return NULL; }

void *__wrap_malloc(size_t n)
{
        struct bigpool *b = pool_of(n);
        void *p = b ? pool_take(b, 0) : __real_malloc(n);
        acct_add(p, n, __builtin_return_address(0));
        return p;
}
void *__wrap_calloc(size_t a, size_t c)
{
        struct bigpool *b = (a && c) ? pool_of(a * c) : NULL;
        void *p = b ? pool_take(b, 1) : __real_calloc(a, c);
        acct_add(p, a * c, __builtin_return_address(0));
        return p;
}
void __wrap_free(void *p)
{
        if (!p) return;
        acct_del(p);
        for (int k = 0; k < 2; k++) for (int i = 0; i < pools[k].nowned; i++) if (pools[k].owned[i] == p) {
                for (int j = 0; j < pools[k].nidle; j++) if (pools[k].idle[j] == p) {
                        /* double free of a recycled block: let ASan say so */
                        UNPOISON(p, 1); __real_free(p); __real_free(p);
                }
                POISON(p, pools[k].size);
                pools[k].idle[pools[k].nidle++] = p;
                return;
        }
        __real_free(p);
}
void *__wrap_realloc(void *o, size_t n)
{
        struct ablk *b = acct_find(o);
        void *pc = b ? b->pc : __builtin_return_address(0);
        int was = acct_del(o);
        void *p = __real_realloc(o, n);
        if (p || n == 0) { if (p && (was || !o)) acct_add(p, n, pc); }
        else if (was) acct_add(o, 0, pc);
        return p;
}

static void acct_begin(void)
{
        if (acct_nlive) harness_die("acct_begin with %d live blocks", acct_nlive);
        memset(atab, 0, sizeof atab); acct_used = 0;
        acct_bytes = acct_peak = 0; acct_epoch = 0; acct_nalloc = 0;
        acct_on = 1;
}
/* A defect that is reached by thousands of executions would flood the engine with identical
 * records: every distinct key is reported at most 3 times per worker process, the rest is counted. */
static int viol_muted;               /* warm up in the parent: nothing is a verdict there */
static void viol(const char *key, const char *fmt, ...)
{
        static struct { uint64_t h; int n; } seen[64]; static int nseen;
        if (viol_muted) return;
        uint64_t h = mc_hash64(key, strlen(key)); int i;
        for (i = 0; i < nseen; i++) if (seen[i].h == h) break;
        if (i == nseen) { if (nseen < 64) { seen[nseen].h = h; seen[nseen].n = 0; nseen++; } else i = 63; }
        if (!mc_replaying && seen[i].n++ >= 3) { mc_count("violation_repeats_not_recorded", 1); return; }
        char detail[760]; va_list ap; va_start(ap, fmt); vsnprintf(detail, sizeof detail, fmt, ap); va_end(ap);
        mc_violation(key, "%s", detail);
}

static const char *pc_function(void *pc, char *buf, size_t len)
{
        static struct { void *pc; char fn[96]; } cache[32]; static int ncache;
        for (int i = 0; i < ncache; i++) if (cache[i].pc == pc) { snprintf(buf, len, "%s", cache[i].fn); return buf; }
        buf[0] = 0;
        if (__sanitizer_symbolize_pc) __sanitizer_symbolize_pc((char *) pc - 1, "%f", buf, len);
        if (!buf[0] || buf[0] == '?' || buf[0] == '<') snprintf(buf, len, "unknown_function");
        if (ncache < 32) { cache[ncache].pc = pc; snprintf(cache[ncache].fn, sizeof cache[ncache].fn, "%s", buf); ncache++; }
        return buf;
}
/* optional: the harness may append what the leaked block is (defined after the library headers are known) */
static void (*leak_describe)(const void *p, size_t n, const char *fn, char *out, size_t len);

/* is block x referenced from inside another leaked block? (LeakSanitizer's "indirect leak") */
NOASAN static int leaked_indirectly(const struct ablk *x)
{
        for (int i = 0; i < ATAB; i++) {
                const struct ablk *b = &atab[i];
                if (!b->p || b->p == TOMB || b == x) continue;
                const uintptr_t *w = (const uintptr_t *) b->p;
                for (size_t k = 0; k + sizeof *w <= b->n; k += sizeof *w, w++)
                        if (*w >= (uintptr_t) x->p && *w < (uintptr_t) x->p + x->n) return 1;
        }
        return 0;
}
/* every block must be free again; reports and releases what is left */
static int acct_end(const char *when)
{
        acct_on = 0;
        int leaks = 0;
        if (acct_nlive) {
                /* pool blocks are poisoned only when idle; leaked ones are live, readable */
                int indirect[ATAB]; memset(indirect, 0, sizeof indirect);
                for (int i = 0; i < ATAB; i++) if (atab[i].p && atab[i].p != TOMB) indirect[i] = leaked_indirectly(&atab[i]);
                int ndirect = 0; for (int i = 0; i < ATAB; i++) if (atab[i].p && atab[i].p != TOMB && !indirect[i]) ndirect++;
                for (int i = 0; i < ATAB; i++) if (atab[i].p && atab[i].p != TOMB && (!indirect[i] || !ndirect)) {
                        char fn[128], key[200];
                        pc_function(atab[i].pc, fn, sizeof fn);
                        snprintf(key, sizeof key, "leak: block allocated in %s still allocated after %s", fn, when);
                        if (leak_describe) leak_describe(atab[i].p, atab[i].n, fn, key + strlen(key), sizeof key - strlen(key));
                        viol(key, "%zu bytes (+ %d block(s) reachable only from leaked blocks) | %s", atab[i].n, acct_nlive - ndirect, cur_ctx);
                        leaks++;
                }
                for (int i = 0; i < ATAB; i++) if (atab[i].p && atab[i].p != TOMB) { void *p = atab[i].p; atab[i].p = TOMB; __wrap_free(p); }
                acct_nlive = 0; acct_bytes = 0;
        }
        return leaks;
}

/* ======================================================================== */
/* fast 128 bit hash for the canonical state                                */
/* ======================================================================== */

typedef struct { uint64_t a, b; } fh;
static void fh_init(fh *h) { h->a = 0x9E3779B97F4A7C15ull; h->b = 0xC2B2AE3D27D4EB4Full; }
static inline uint64_t rotl64(uint64_t x, int r) { return (x << r) | (x >> (64 - r)); }
NOASAN static void fh_add(fh *h, const void *p, size_t n)
{
        const uint8_t *s = p; uint64_t a = h->a, b = h->b;
        while (n >= 8) {
                uint64_t v; __builtin_memcpy(&v, s, 8);
                a = (a ^ v) * 0xFF51AFD7ED558CCDull; a ^= a >> 32;
                b = rotl64(b + v, 29) * 0xC4CEB9FE1A85EC53ull;
                s += 8; n -= 8;
        }
        uint64_t v = 0x80 | ((uint64_t) n << 8);
        for (size_t i = 0; i < n; i++) v = (v << 8) ^ s[i] ^ (v >> 56);
        a = (a ^ v) * 0xFF51AFD7ED558CCDull; a ^= a >> 32;
        b = rotl64(b + v, 29) * 0xC4CEB9FE1A85EC53ull;
        h->a = a; h->b = b;
}
static void fh_i(fh *h, int64_t v) { fh_add(h, &v, 8); }
static uint64_t fh_fold(const fh *h) { return h->a ^ rotl64(h->b, 17); }

/* ======================================================================== */
/* sliced line builders                                                     */
/* ======================================================================== */

static unsigned rev8(unsigned c) { unsigned r = 0; for (int i = 0; i < 8; i++) if (c & (1u << i)) r |= 0x80u >> i; return r; }

static void pk_addr(uint8_t *d, int mag, int packet)
{
        unsigned pmag = (mag & 7) | (packet << 3);
        d[0] = vbi_ham8(pmag & 15); d[1] = vbi_ham8(pmag >> 4);
        for (int i = 2; i < 42; i++) d[i] = vbi_par8(' ');
}
static void pk_text(uint8_t *d, int off, const char *s)
{
        for (int i = 0; s[i] && off + i < 42; i++) d[off + i] = vbi_par8((unsigned char) s[i] & 0x7F);
}
/* sub16: S1..S4 with C4 = 0x0080, C5 = 0x4000, C6 = 0x8000; fl8: C7 = 0x01 ... C10 = 0x08, C11 = 0x10, C12..14 = 0xE0 */
static void pk_hdr(uint8_t *d, int mag, int page, unsigned sub16, unsigned fl8)
{
        pk_addr(d, mag, 0);
        d[2] = vbi_ham8(page & 15); d[3] = vbi_ham8(page >> 4);
        d[4] = vbi_ham8(sub16 & 15); d[5] = vbi_ham8((sub16 >> 4) & 15);
        d[6] = vbi_ham8((sub16 >> 8) & 15); d[7] = vbi_ham8((sub16 >> 12) & 15);
        d[8] = vbi_ham8(fl8 & 15); d[9] = vbi_ham8(fl8 >> 4);
        char t[40];
        snprintf(t, sizeof t, "C01 TELETEXT  %x%02x Jan 01 ", mag ? mag : 8, page);
        pk_text(d, 10, t);
        pk_text(d, 34, "12:34:56");
}
static void pk_row(uint8_t *d, int mag, int row, const char *text) { pk_addr(d, mag, row); pk_text(d, 2, text); }
static void pk_nib(uint8_t *d, int off, const int *nib, int n) { for (int i = 0; i < n && off + i < 42; i++) d[off + i] = vbi_ham8(nib[i] & 15); }
static void pk_h16(uint8_t *d, int off, unsigned v) { d[off] = vbi_ham8(v & 15); d[off + 1] = vbi_ham8((v >> 4) & 15); }
static void pk_trip(uint8_t *d, int idx, unsigned addr, unsigned mode, unsigned data)
{
        vbi_ham24p(d + 3 + idx * 3, (addr & 0x3F) | ((mode & 0x1F) << 6) | ((data & 0x7F) << 11));
}
/* packets 26..29: designation + 13 triplets, pre-filled with termination markers */
static void pk_enh(uint8_t *d, int mag, int packet, int desig)
{
        pk_addr(d, mag, packet);
        d[2] = vbi_ham8(desig);
        for (int i = 0; i < 13; i++) pk_trip(d, i, 63, 0x1F, 0x7F);
}
struct bitw { unsigned t[13]; int pos; };
static void bw_put(struct bitw *w, unsigned v, int count)
{
        for (int i = 0; i < count; i++, w->pos++)
                if (w->pos < 13 * 18 && ((v >> i) & 1)) w->t[w->pos / 18] |= 1u << (w->pos % 18);
}
static void bw_store(const struct bitw *w, uint8_t *d) { for (int i = 0; i < 13; i++) vbi_ham24p(d + 3 + i * 3, w->t[i]); }

/* 8/30 format 2 reference encoder (same layout as harness/C12.c) */
static void enc_8302(uint8_t *buf, unsigned lci, unsigned luf, unsigned prf, unsigned pcs, unsigned mi, unsigned cni, unsigned pil, unsigned pty)
{
        unsigned B[13];
        B[6]  = (lci << 2) | (luf << 1) | prf;
        B[7]  = (pcs << 6) | (mi << 5) | ((cni >> 12) & 15);
        B[8]  = (((cni >> 6) & 3) << 6) | ((pil >> 14) & 0x3F);
        B[9]  = (pil >> 6) & 0xFF;
        B[10] = ((pil & 0x3F) << 2) | ((cni >> 10) & 3);
        B[11] = (((cni >> 8) & 3) << 6) | (cni & 0x3F);
        B[12] = pty;
        buf[9] = vbi_ham8(rev8(B[6] << 4) & 15);
        for (int i = 7; i <= 12; i++) { unsigned r = rev8(B[i]); buf[2 * i - 4] = vbi_ham8(r & 15); buf[2 * i - 3] = vbi_ham8(r >> 4); }
}
static unsigned enc_digits(unsigned v, int n) { unsigned r = 0; for (int i = 0; i < n; i++) { r |= ((v % 10) + 1) << (4 * i); v /= 10; } return r; }

/* EACEM / ATVEF checksum bracket making verify_checksum() of trigger.c pass */
static void trigger_with_checksum(char *out, size_t len, const char *body)
{
        unsigned long sum = 0; size_t n = strlen(body), i = 0;
        for (; i + 1 < n; i += 2) sum += ((unsigned long)(unsigned char) body[i] << 8) + (unsigned char) body[i + 1];
        if (i < n) sum += (unsigned long)(unsigned char) body[i] << 8;
        while (sum >= (1 << 16)) sum = (sum & 0xFFFF) + (sum >> 16);
        snprintf(out, len, "%s[%04lX]", body, 0xFFFF - sum);
}

/* Cache pages are allocated with exactly the size their content needs and read through a union: a read of a member the
 * allocation does not hold lands several hundred bytes behind the block, beyond ASan's default red zone and possibly inside
 * the page cached next.  1 KiB red zones keep such reads visible; the quarantine is counted in user bytes, so it is kept
 * small (2 MiB of user bytes are still more than a thousand freed cache pages) or 16 workers with 2 KiB per 40 byte
 * block run the machine out of memory.  bin/check's ASAN_OPTIONS are applied on top. */
const char *__asan_default_options(void) { return "redzone=1024:quarantine_size_mb=2"; }

#include "C01_alphabet.h"
#include "C01_phases.h"
