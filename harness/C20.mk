SCHED_WRAP := -Wl,--wrap=pthread_mutex_lock,--wrap=pthread_mutex_unlock,--wrap=pthread_mutex_trylock
HLINK_C20 := $(B)/asan/sched.o $(SCHED_WRAP)
HDEPS_C20 := $(B)/asan/sched.o $(B)/bin/C20_tsan engine/mc_sched.h

# free running ThreadSanitizer build of the same bodies (explicit rule: make does
# not chain the harness pattern rule with itself)
$(B)/bin/C20_tsan: harness/C20_tsan.c harness/C20.c engine/mc.h engine/mc_sched.h $(B)/tsan/mc.o $(B)/tsan/sched.o $(B)/tsan/libzvbi.a
	@mkdir -p $(@D)
	$(CC_tsan) $(CFLAGS_tsan) -w $(CPPFLAGS_COMMON) -I$(V)/engine -I$(V)/harness harness/C20_tsan.c \
	  $(B)/tsan/mc.o $(B)/tsan/sched.o $(SCHED_WRAP) $(B)/tsan/libzvbi.a $(LDLIBS) -o $@
