/* C11 - event handlers run exactly once, in order, and may re-register from
 * callbacks; Teletext pages are acquired exactly while a handler asks for them.
 *
 * E2 (mc_bfs) over histories of calls on the real vbi_decoder event registry
 * (src/vbi.c vbi_event_handler_register/unregister/add/remove, vbi_send_event,
 * and vbi_decode of a real Teletext page for the gating clause).
 *
 * Alphabet (79 letters), handlers = 3 callback functions x 2 user pointers:
 *   reg(f,u,m)  30   vbi_event_handler_register, m in {TTX, CC, TTX|CC, -1, TRIGGER|NETWORK}
 *   unreg(f,u)   6   vbi_event_handler_unregister   (== register with mask 0)
 *   add(f,u,m)  30   legacy vbi_event_handler_add (matches on function only)
 *   remove(f)    3   legacy vbi_event_handler_remove (== add with mask 0)
 *   raise(T)     3   vbi_send_event, T in {TTX_PAGE, CAPTION, NETWORK}
 *   transmit     1   vbi_decode of page 2xx (header, one row, terminating
 *                    header 2FF) -> real TTX_PAGE event, vbi_is_cached oracle
 *   in(f,u):     6   prefix: the NEXT letter (one of the 69 calls above) is not
 *                    executed now but scripted into handler (f,u): it runs
 *                    inside that handler's next invocation (at most 2 scripted
 *                    actions per history, both may sit on the same handler)
 * A history is a program in the sense of DESIGN.md C11: top level steps plus
 * scripted callback actions bound to (handler, next invocation).
 *
 * Oracle = list model driven in lock step by the real callbacks (it audits the
 * delivery, it does not predict it):
 *   - a call must name a live registration (function, own user pointer) whose
 *     current mask contains the event type (removed => never again);
 *   - per delivery a registration is called at most once and calls follow
 *     registration order;
 *   - a registration that wanted the type when the event was raised and kept
 *     wanting it until its turn must be called (checked when a later one is
 *     called and at the end of the delivery);
 *   - a registration created during the delivery, or whose mask gained the
 *     type during the delivery, may be called 0 or 1 times (both accepted);
 *     un-registering followed by registering the same (function,user pointer)
 *     creates a NEW registration in this sense;
 *   - ASan: no freed record is touched (crash => violation by the engine);
 *   - transmit: vbi_is_cached(page) <=> some registration's mask had TTX_PAGE.
 * After every history the real list is compared with the model (any difference
 * in (function, user pointer, mask) order is observable by some later raise, so
 * this only saves depth), then PROBES run on the object that is thrown away
 * anyway: raise of each type (pending scripts do fire) and one transmit.  The
 * probes make a history of n letters cover what would need n+1.
 *
 * Deviations from DESIGN.md C11, forced by the engine / the budget:
 *   - letters are bytes (<= 256): scripted actions use the two letter "in(h):"
 *     encoding with ABSOLUTE targets instead of self/previous/next relative
 *     ones (all relative positions occur because all lists are enumerated);
 *   - mask 0 is reached through unregister/remove only (the very same call);
 *   - states are canonical modulo renaming of the 3 functions and 2 user
 *     pointers (the registry only compares them for equality);
 *   - a second family of BFS phases starts from a populated list so that two
 *     scripted actions + raises are reached within the budget;
 *   - harness/C11.mk wraps malloc/calloc/free only to recycle the two big
 *     blocks of a decoder (struct vbi_decoder 220 KB, cache_network 35 KB);
 *     under ASan each of them is a fresh mmap (300 us of page faults per fresh
 *     object otherwise).  Handler records are untouched by this: they stay
 *     ordinary ASan allocations with quarantine.
 *   - harness/C11.mk links the ASan+UBSan object of src/vbi.c (the only code
 *     that allocates, frees and walks handler records) with the uninstrumented
 *     `fast' variant of the rest of the library: a fresh decoder per transition
 *     costs 55 us instead of 100 us; C11 claims nothing about memory safety
 *     outside the registry.
 * Keys: oracle violations are "<class> [no callback action | after callback
 * removal | after other callback action]" (context only inside a delivery);
 * crashes are "<callback <call>(<position of its target relative to the
 * running handler>) | event registry, top level> crash=<class>@<function>".
 */
#include <stdio.h>
#include <stdlib.h>
#include <string.h>
#include <sys/wait.h>
#include <unistd.h>
#include "mc.h"
#include "src/vbi.h"
#include "src/hamm.h"

#if defined(__has_feature)
#  if __has_feature(address_sanitizer)
#    include <sanitizer/asan_interface.h>
#    define POISON(p, n)   ASAN_POISON_MEMORY_REGION(p, n)
#    define UNPOISON(p, n) ASAN_UNPOISON_MEMORY_REGION(p, n)
#  endif
#endif
#ifndef POISON
#  define POISON(p, n)   ((void) 0)
#  define UNPOISON(p, n) ((void) 0)
#endif

/* ---- big block recycling (see header comment) --------------------------- */

void *__real_malloc(size_t);
void *__real_calloc(size_t, size_t);
void  __real_free(void *);

#define NPOOL 8
struct bigpool { size_t size; void *owned[NPOOL]; int nowned; void *idle[NPOOL]; int nidle; };
static struct bigpool pools[2] = { { sizeof(struct vbi_decoder) }, { sizeof(cache_network) } };

static void *pool_take(struct bigpool *b, int zero)
{
        if (b->nidle) {
                void *p = b->idle[--b->nidle];
                UNPOISON(p, b->size);
                if (zero) memset(p, 0, b->size);
                return p;
        }
        void *p = zero ? __real_calloc(1, b->size) : __real_malloc(b->size);
        if (p && b->nowned < NPOOL) b->owned[b->nowned++] = p;
        return p;
}
void *__wrap_malloc(size_t n)
{
        for (int i = 0; i < 2; i++) if (n == pools[i].size) return pool_take(&pools[i], 0);
        return __real_malloc(n);
}
void *__wrap_calloc(size_t a, size_t b)
{
        for (int i = 0; i < 2; i++) if (a * b == pools[i].size && a && b) return pool_take(&pools[i], 1);
        return __real_calloc(a, b);
}
void __wrap_free(void *p)
{
        if (p) for (int k = 0; k < 2; k++) for (int i = 0; i < pools[k].nowned; i++) if (pools[k].owned[i] == p) {
                POISON(p, pools[k].size);
                pools[k].idle[pools[k].nidle++] = p;
                return;
        }
        __real_free(p);
}

/* ---- alphabet ----------------------------------------------------------- */

#define NF 3
#define NU 2
#define NH (NF * NU)
#define NM 5
#define FS (NU * NM)    /* letters per function in the reg/add blocks */
static const int   MASKS[NM] = { VBI_EVENT_TTX_PAGE, VBI_EVENT_CAPTION, VBI_EVENT_TTX_PAGE | VBI_EVENT_CAPTION, -1, VBI_EVENT_TRIGGER | VBI_EVENT_NETWORK };
static const char *MASKN[NM] = { "TTX", "CC", "TTX|CC", "ALL", "TRIGGER|NETWORK" };
static const int   TYPES[3]  = { VBI_EVENT_TTX_PAGE, VBI_EVENT_CAPTION, VBI_EVENT_NETWORK };
static const char *TYPEN[3]  = { "TTX_PAGE", "CAPTION", "NETWORK" };

enum { K_REG, K_UNREG, K_ADD, K_REMOVE };
static const char *KINDN[4] = { "register", "unregister", "add", "remove" };
enum { L_REG = 0, L_UNREG = NF * FS, L_ADD = L_UNREG + NH, L_REMOVE = L_ADD + NF * FS, NOPS = L_REMOVE + NF, L_RAISE = NOPS, L_TX = L_RAISE + 3, L_IN = L_TX + 1, NLETTERS = L_IN + NH };

struct op { int kind, f, u, mi; };   /* mi: index into MASKS, -1 for mask 0 */

static struct op decode_op(int l)
{
        struct op o = { 0, 0, 0, -1 };
        if (l < L_UNREG)       { o.kind = K_REG;   o.f = l / FS; o.u = (l / NM) % NU; o.mi = l % NM; }
        else if (l < L_ADD)    { o.kind = K_UNREG; l -= L_UNREG; o.f = l / 2; o.u = l % 2; }
        else if (l < L_REMOVE) { o.kind = K_ADD;   l -= L_ADD; o.f = l / FS; o.u = (l / NM) % NU; o.mi = l % NM; }
        else                   { o.kind = K_REMOVE; o.f = l - L_REMOVE; }
        return o;
}

static const char *letter_name(int l, void *arg)
{
        static char b[4][48]; static int k; char *s = b[k++ & 3];
        if (l < NOPS) {
                struct op o = decode_op(l);
                if (o.kind == K_REMOVE) snprintf(s, 48, "remove(f%d)", o.f);
                else if (o.kind == K_UNREG) snprintf(s, 48, "unreg(f%d,u%d)", o.f, o.u);
                else snprintf(s, 48, "%s(f%d,u%d,%s)", o.kind == K_REG ? "reg" : "add", o.f, o.u, MASKN[o.mi]);
        } else if (l < L_TX) snprintf(s, 48, "raise(%s)", TYPEN[l - L_RAISE]);
        else if (l == L_TX) snprintf(s, 48, "transmit");
        else if (l < NLETTERS) snprintf(s, 48, "in(f%d,u%d):", (l - L_IN) / 2, (l - L_IN) % 2);
        else snprintf(s, 48, "?%d", l);
        return s;
}

/* ---- phase configuration ------------------------------------------------ */

struct cfg {
        const char *name;
        int ninit; struct { int f, u, mi; } init[4];     /* registrations made before the history */
        int depth[2];                                      /* quick, thorough */
        int max_scripts;
};

/* ---- model + audit state (one history) ---------------------------------- */

struct rec { int f, u, mask, seq; int must, called, fresh; };
struct script { int h, letter; };

static int udtag[NU];                       /* user pointers are &udtag[u] */
static void cb0(vbi_event *ev, void *ud);
static void cb1(vbi_event *ev, void *ud);
static void cb2(vbi_event *ev, void *ud);
static vbi_event_handler FN[NF] = { cb0, cb1, cb2 };

static struct {
        vbi_decoder *vbi;
        const uint8_t *hist; int n; const struct cfg *cfg;
        struct rec r[NH + 2]; int nr, seq;
        unsigned ever;                      /* bit f*2+u: (f,u) was registered at some time */
        struct script sc[2]; int nsc, arms_used;
        /* delivery in progress */
        int in_delivery, type, ncalls_this, running_seq, depth;
        char last_action[64];               /* last scripted action run in this delivery */
        int action_class;                   /* 0 none yet, 1 some action removed a record, 2 other actions only */
        int bad;                            /* a violation was reported: stop auditing this history */
        int ncalls, nscripts_run, fixups, frame, ntx;
        unsigned char log[48]; int nlog;    /* handlers called, in order (samples / self check) */
        unsigned outcomes;
} G;

enum {
        O_PLAIN_MULTI, O_NO_TAKER, O_RM_SELF, O_RM_NEXT, O_RM_LATER, O_RM_EARLIER, O_FRESH_CALLED, O_FRESH_NOT_CALLED,
        O_DROP_NOT_CALLED, O_GAIN_CALLED, O_GAIN_NOT_CALLED, O_TX_ACQ, O_TX_NOT_ACQ, O_REREG_SAME_DELIVERY, O_MASK_CHANGE_IN_CB,
        O_LEGACY_MULTI_REMOVE, O_REAL_EVENT_SCRIPT, O_N
};
static const char *OUTN[O_N] = {
        "delivery without callback action: >=2 handlers called once each in registration order",
        "delivery with no handler for the type",
        "callback removed the running handler",
        "callback removed the next handler (traversal cursor)",
        "callback removed a later handler: not called",
        "callback removed an earlier handler",
        "registration created during delivery: called once",
        "registration created during delivery: not called",
        "type dropped from a later handler's mask during delivery: not called",
        "type added to a later handler's mask during delivery: called",
        "type added to a handler's mask during delivery: not called",
        "transmit with TTX_PAGE handler: page cached, event delivered",
        "transmit without TTX_PAGE handler: page not cached",
        "handler unregistered and registered again inside one delivery: new registration called",
        "callback changed a mask only",
        "legacy remove deleted >=2 records in one call from a callback",
        "scripted action ran inside a TTX_PAGE event raised by the real decoder"
};
static void outcome(int o)
{
        static unsigned emitted;            /* per process */
        if (emitted & (1u << o)) return;
        emitted |= 1u << o;
        mc_outcome("%s", OUTN[o]);
}

static const char *hist_str(void)
{
        static char b[700]; size_t o = 0; b[0] = 0;
        if (G.cfg->ninit) {
                o += snprintf(b + o, sizeof b - o, "{init");
                for (int i = 0; i < G.cfg->ninit; i++)
                        o += snprintf(b + o, sizeof b - o, " reg(f%d,u%d,%s)", G.cfg->init[i].f, G.cfg->init[i].u, MASKN[G.cfg->init[i].mi]);
                o += snprintf(b + o, sizeof b - o, "} ");
        }
        for (int i = 0; i < G.n && o + 60 < sizeof b; i++)
                o += snprintf(b + o, sizeof b - o, "%s%s", i ? " ; " : "", letter_name(G.hist[i], NULL));
        return b;
}

static const char *model_str(void)
{
        static char b[300]; size_t o = 0; b[0] = 0;
        for (int i = 0; i < G.nr && o + 40 < sizeof b; i++)
                o += snprintf(b + o, sizeof b - o, "%s(f%d,u%d,%x%s)", i ? " " : "", G.r[i].f, G.r[i].u, (unsigned) G.r[i].mask,
                              G.r[i].called ? ",called" : "");
        return b;
}

/* violation: class + what the callbacks of this delivery did last */
static void fail(const char *cls, const char *extra)
{
        if (G.bad) return;
        G.bad = 1;
        char key[200];
        /* key = class + coarse context (was a scripted callback action run in this delivery, and did
         * it remove a record); the exact action goes into the detail */
        if (G.in_delivery) snprintf(key, sizeof key, "%s [%s]", cls, G.action_class == 0 ? "no callback action" :
                                    G.action_class == 1 ? "after callback removal" : "after other callback action");
        else snprintf(key, sizeof key, "%s", cls);
        mc_violation(key, "%s | history: %s | model list: %s | event %s | last action: %s", extra ? extra : "", hist_str(), model_str(),
                     G.in_delivery ? (G.type == TYPES[0] ? TYPEN[0] : G.type == TYPES[1] ? TYPEN[1] : TYPEN[2]) : "-",
                     G.last_action[0] ? G.last_action : "-");
}

static int find_rec(int f, int u) { for (int i = 0; i < G.nr; i++) if (G.r[i].f == f && G.r[i].u == u) return i; return -1; }
static int find_seq(int seq) { for (int i = 0; i < G.nr; i++) if (G.r[i].seq == seq) return i; return -1; }
static int model_union(void) { int m = 0; for (int i = 0; i < G.nr; i++) m |= G.r[i].mask; return m; }

/* record i stops being owed the current event (removed / type dropped): fine before its turn,
 * a skip if a later registration has already been called */
static void leaving_must_set(int i)
{
        if (!G.in_delivery || !G.r[i].must || G.r[i].called) return;
        for (int k = i + 1; k < G.nr; k++) if (G.r[k].called) {
                char d[100]; snprintf(d, sizeof d, "(f%d,u%d) at position %d passed over before it was removed", G.r[i].f, G.r[i].u, i);
                fail("registered handler skipped", d); return;
        }
}
static void model_delete(int i)
{
        leaving_must_set(i);
        memmove(&G.r[i], &G.r[i + 1], (G.nr - i - 1) * sizeof G.r[0]); G.nr--;
}
static void model_set_mask(int i, int mask)
{
        int old = G.r[i].mask;
        G.r[i].mask = mask;
        if (G.in_delivery) {
                if ((old & G.type) && !(mask & G.type)) { leaving_must_set(i); G.r[i].must = 0; if (!G.r[i].called) G.r[i].fresh |= 8; }   /* no longer registered for the type */
                if (!(old & G.type) && (mask & G.type) && !G.r[i].called) G.r[i].fresh |= 2;   /* gained the type: 0 or 1 calls */
        }
}
static void model_append(int f, int u, int mask)
{
        if (G.nr >= NH + 2) { fprintf(stderr, "C11: model overflow\n"); exit(42); }
        struct rec *r = &G.r[G.nr++];
        memset(r, 0, sizeof *r);
        r->f = f; r->u = u; r->mask = mask; r->seq = ++G.seq;
        r->fresh = G.in_delivery ? 1 : 0;
        if (G.in_delivery && (G.ever & (1u << (f * 2 + u)))) r->fresh |= 4;
        G.ever |= 1u << (f * 2 + u);
}

/* one registry call on the real object and on the model.  running = seq of the
 * registration whose callback performs it, 0 at top level. */
static void exec_op(int letter, int running)
{
        struct op o = decode_op(letter);
        int mask = o.mi >= 0 ? MASKS[o.mi] : 0;
        int ri = running ? find_seq(running) : -1;

        if (running) {
                /* describe the action relative to the running handler (violation / crash keys) */
                char rel[40] = ""; int nmatch = 0, rm = (mask == 0), best = 0;
                for (int i = 0; i < G.nr; i++) {
                        int match = (o.kind == K_REG || o.kind == K_UNREG) ? (G.r[i].f == o.f && G.r[i].u == o.u) : (G.r[i].f == o.f);
                        if (!match) continue;
                        nmatch++;
                        /* one label per action, the position that matters most for the traversal first */
                        int rank = ri < 0 ? 1 : i == ri + 1 ? 5 : i == ri ? 4 : i > ri ? 3 : 2;
                        if (rank > best) { best = rank; strcpy(rel, rank == 5 ? "next" : rank == 4 ? "self" : rank == 3 ? "later" : rank == 2 ? "earlier" : "other"); }
                        if (rm) {
                                if (i == ri) outcome(O_RM_SELF);
                                else if (ri >= 0 && i == ri + 1) { outcome(O_RM_NEXT); G.fixups++; }
                                else if (ri >= 0 && i > ri) outcome(O_RM_LATER);
                                else if (ri >= 0) outcome(O_RM_EARLIER);
                        } else outcome(O_MASK_CHANGE_IN_CB);
                }
                if (!nmatch) strcpy(rel, "absent");
                if (rm && nmatch >= 2) outcome(O_LEGACY_MULTI_REMOVE);
                snprintf(G.last_action, sizeof G.last_action, "callback %s(%s)", KINDN[o.kind], rel);
                if (rm && nmatch) G.action_class = 1; else if (G.action_class == 0) G.action_class = 2;
                mc_case(G.last_action, "n=%d", G.n);
                G.nscripts_run++;
        }

        switch (o.kind) {
        case K_REG:    vbi_event_handler_register(G.vbi, mask, FN[o.f], &udtag[o.u]); break;
        case K_UNREG:  vbi_event_handler_unregister(G.vbi, FN[o.f], &udtag[o.u]); break;
        case K_ADD:    vbi_event_handler_add(G.vbi, mask, FN[o.f], &udtag[o.u]); break;
        case K_REMOVE: vbi_event_handler_remove(G.vbi, FN[o.f]); break;
        }

        if (o.kind == K_REG || o.kind == K_UNREG) {
                int i = find_rec(o.f, o.u);
                if (i >= 0) { if (mask) model_set_mask(i, mask); else model_delete(i); }
                else if (mask) model_append(o.f, o.u, mask);
        } else {
                /* legacy: matches on the function only, user pointer ignored for existing records */
                int found = 0;
                for (int i = 0; i < G.nr; ) {
                        if (G.r[i].f != o.f) { i++; continue; }
                        found = 1;
                        if (mask) model_set_mask(i++, mask); else model_delete(i);
                }
                if (!found && mask) model_append(o.f, o.u, mask);
        }
}

/* ---- the callbacks (audit) ---------------------------------------------- */

static void on_call(int f, vbi_event *ev, void *ud)
{
        G.ncalls++;
        if (G.nlog < (int) sizeof G.log) G.log[G.nlog++] = (unsigned char)(f * 2 + (ud == &udtag[1]));
        if (G.bad) return;
        if (!G.in_delivery) { fail("handler called while no event is being delivered", NULL); return; }
        if (G.depth) { fail("handler called from inside another handler", NULL); return; }
        if (!ev || ev->type != G.type) { fail("handler called with a different event than the one raised", NULL); return; }
        int u = ud == &udtag[0] ? 0 : ud == &udtag[1] ? 1 : -1;
        int i = u < 0 ? -1 : find_rec(f, u);
        if (i < 0) {
                char d[80]; snprintf(d, sizeof d, "called f%d with user pointer u%d", f, u);
                int fn_live = 0; for (int k = 0; k < G.nr; k++) if (G.r[k].f == f) fn_live = 1;
                if (u >= 0 && (G.ever & (1u << (f * 2 + u)))) fail("removed handler called", d);
                else if (fn_live) fail("handler called with a user pointer it was not registered with", d);
                else fail("never registered handler called", d);
                return;
        }
        struct rec *r = &G.r[i];
        char d[80]; snprintf(d, sizeof d, "called (f%d,u%d) at list position %d", f, u, i);
        if (!(r->mask & G.type)) { fail("handler called for an event type outside its mask", d); return; }
        if (r->called) { fail("handler called twice for one event", d); return; }
        for (int k = i + 1; k < G.nr; k++) if (G.r[k].called) { fail("handlers called out of registration order", d); return; }
        r->called = 1; G.ncalls_this++;
        if (r->fresh & 4) outcome(O_REREG_SAME_DELIVERY);

        /* scripted actions bound to this handler, in arming order */
        int seq = r->seq, h = f * 2 + u;
        G.depth++;
        for (int k = 0; k < G.nsc; ) {
                if (G.sc[k].h != h) { k++; continue; }
                int letter = G.sc[k].letter;
                memmove(&G.sc[k], &G.sc[k + 1], (G.nsc - k - 1) * sizeof G.sc[0]); G.nsc--;
                if (ev->type == VBI_EVENT_TTX_PAGE && G.ntx < 0) outcome(O_REAL_EVENT_SCRIPT);
                exec_op(letter, seq);
        }
        G.depth--;
}
static void cb0(vbi_event *ev, void *ud) { on_call(0, ev, ud); }
static void cb1(vbi_event *ev, void *ud) { on_call(1, ev, ud); }
static void cb2(vbi_event *ev, void *ud) { on_call(2, ev, ud); }

static int begin_delivery(int type)
{
        int takers = 0;
        G.in_delivery = 1; G.type = type; G.ncalls_this = 0; G.last_action[0] = 0; G.action_class = 0;
        for (int i = 0; i < G.nr; i++) {
                G.r[i].must = (G.r[i].mask & type) != 0; G.r[i].called = 0; G.r[i].fresh = 0;
                takers += G.r[i].must;
        }
        return takers;
}
static void end_delivery(int takers, int expect_raise)
{
        if (!G.bad && expect_raise)
                for (int i = 0; i < G.nr; i++) if (G.r[i].must && !G.r[i].called) {
                        char d[80]; snprintf(d, sizeof d, "(f%d,u%d) at position %d never called", G.r[i].f, G.r[i].u, i);
                        fail("registered handler skipped", d); break;
                }
        if (!G.bad) {
                if (!takers) outcome(O_NO_TAKER);
                if (!G.last_action[0] && G.ncalls_this >= 2) outcome(O_PLAIN_MULTI);
                for (int i = 0; i < G.nr; i++) {
                        struct rec *r = &G.r[i];
                        if ((r->fresh & 1) && (r->mask & G.type)) outcome(r->called ? O_FRESH_CALLED : O_FRESH_NOT_CALLED);
                        if ((r->fresh & 2) && (r->mask & G.type)) outcome(r->called ? O_GAIN_CALLED : O_GAIN_NOT_CALLED);
                        if ((r->fresh & 8) && !(r->mask & G.type) && !r->called) outcome(O_DROP_NOT_CALLED);
                }
        }
        G.in_delivery = 0;
        if (G.last_action[0]) mc_case("event registry, top level", "n=%d", G.n);
        G.last_action[0] = 0;
}

static void do_raise(int type)
{
        vbi_event ev; memset(&ev, 0, sizeof ev); ev.type = type;
        int takers = begin_delivery(type);
        vbi_send_event(G.vbi, &ev);
        end_delivery(takers, 1);
}

/* ---- real Teletext transmission ------------------------------------------ */

static void ttx_packet(vbi_sliced *s, int mag, int packet)
{
        memset(s, 0, sizeof *s);
        s->id = VBI_SLICED_TELETEXT_B; s->line = 7 + packet;
        unsigned pmag = (mag & 7) | (packet << 3);
        s->data[0] = vbi_ham8(pmag & 15); s->data[1] = vbi_ham8(pmag >> 4);
        for (int i = 2; i < 42; i++) s->data[i] = vbi_par8(' ');
}
static void ttx_header(vbi_sliced *s, int mag, int page)
{
        ttx_packet(s, mag, 0);
        s->data[2] = vbi_ham8(page & 15); s->data[3] = vbi_ham8(page >> 4);
        for (int i = 4; i < 10; i++) s->data[i] = vbi_ham8(0);    /* subcode 0, no control bits: parallel mode, no erase */
        const char *t = "C11 PAGE";
        for (int i = 0; t[i]; i++) s->data[10 + i] = vbi_par8(t[i]);
}

/* One complete page 2xx (xx = BCD counter, fresh for every transmission) in
 * magazine 2: header, row 1, then the time filling header 2FF which terminates
 * the page and leaves the magazine idle.  Pages above 199 in parallel mode are
 * no rolling header candidates, so store_lop() stores and raises directly. */
static void do_transmit(void)
{
        static const int bcd[10] = { 0x01, 0x02, 0x03, 0x04, 0x05, 0x06, 0x07, 0x08, 0x09, 0x10 };
        int page = bcd[G.frame % 10], pgno = 0x200 + page;
        vbi_sliced s[3];
        ttx_header(&s[0], 2, page);
        ttx_packet(&s[1], 2, 1);
        for (int i = 0; i < 5; i++) s[1].data[2 + i] = vbi_par8("HELLO"[i]);
        ttx_header(&s[2], 2, 0xFF);
        int wanted = (model_union() & VBI_EVENT_TTX_PAGE) != 0;
        int takers = begin_delivery(VBI_EVENT_TTX_PAGE);
        G.ntx = -1;                                     /* marks "real event" for the outcome label */
        vbi_decode(G.vbi, s, 3, 1.0 + 0.04 * G.frame);
        G.ntx = 0; G.frame++;
        int cached = vbi_is_cached(G.vbi, pgno, VBI_ANY_SUBNO);
        char d[80]; snprintf(d, sizeof d, "page %x cached=%d, handler wanting TTX_PAGE registered=%d", pgno, cached, wanted);
        if (!G.bad && wanted && !cached) { G.in_delivery = 0; fail("teletext page not acquired although a TTX_PAGE handler is registered", d); }
        if (!G.bad && !wanted && cached) { G.in_delivery = 0; fail("teletext page acquired although no handler requests TTX_PAGE", d); }
        if (!G.bad) outcome(wanted ? O_TX_ACQ : O_TX_NOT_ACQ);
        end_delivery(takers, wanted);
}

/* ---- canonical state ------------------------------------------------------ */

static int fn_index(vbi_event_handler h) { for (int f = 0; f < NF; f++) if (h == FN[f]) return f; return 7; }
static int ud_index(void *p) { for (int u = 0; u < NU; u++) if (p == &udtag[u]) return u; return 7; }

static const int PERM3[6][3] = { {0,1,2},{0,2,1},{1,0,2},{1,2,0},{2,0,1},{2,1,0} };

static void canonical_hash(int prefix, uint64_t out[2])
{
        struct { int f, u, mask; } rl[NH + 4]; int n = 0;
        for (struct event_handler *eh = G.vbi->handlers; eh && n < NH + 4; eh = eh->next, n++) {
                rl[n].f = fn_index(eh->handler); rl[n].u = ud_index(eh->user_data); rl[n].mask = eh->event_mask;
        }
        uint64_t best[2] = { ~0ull, ~0ull };
        for (int p = 0; p < 12; p++) {
                const int *pf = PERM3[p % 6]; int sw = p / 6;
#define PF(f) ((f) < NF ? pf[f] : (f))
#define PU(u) ((u) < NU ? ((u) ^ sw) : (u))
                int v[96], k = 0;
                v[k++] = n;
                for (int i = 0; i < n; i++) { v[k++] = PF(rl[i].f); v[k++] = PU(rl[i].u); v[k++] = rl[i].mask; }
                v[k++] = G.vbi->event_mask;
                v[k++] = G.vbi->next_handler != NULL;
                v[k++] = G.nsc;
                for (int i = 0; i < G.nsc; i++) {
                        struct op o = decode_op(G.sc[i].letter);
                        v[k++] = PF(G.sc[i].h / 2); v[k++] = PU(G.sc[i].h % 2);
                        v[k++] = o.kind; v[k++] = PF(o.f); v[k++] = o.kind == K_REMOVE ? 0 : PU(o.u); v[k++] = o.mi;
                }
                v[k++] = G.arms_used >= G.cfg->max_scripts;        /* only "may another action be scripted" matters */
                v[k++] = prefix < 0 ? -1 : PF(prefix / 2) * 2 + PU(prefix % 2);
#undef PF
#undef PU
                mc_hash h; mc_hash_init(&h); mc_hash_add(&h, v, k * sizeof v[0]);
                if (h.a < best[0] || (h.a == best[0] && h.b < best[1])) { best[0] = h.a; best[1] = h.b; }
        }
        out[0] = best[0]; out[1] = best[1];
}

static void compare_list_with_model(void)
{
        int i = 0; struct event_handler *eh;
        for (eh = G.vbi->handlers; eh && i < G.nr; eh = eh->next, i++)
                if (fn_index(eh->handler) != G.r[i].f || ud_index(eh->user_data) != G.r[i].u || eh->event_mask != G.r[i].mask) break;
        if (eh || i != G.nr) {
                char d[300]; size_t o = 0; o += snprintf(d, sizeof d, "real list:"); int k = 0;
                for (eh = G.vbi->handlers; eh && k < NH + 4 && o + 40 < sizeof d; eh = eh->next, k++)
                        o += snprintf(d + o, sizeof d - o, " (f%d,u%d,%x)", fn_index(eh->handler), ud_index(eh->user_data), (unsigned) eh->event_mask);
                fail("handler list differs from the registration history", d);
        }
}

/* ---- one history ------------------------------------------------------------ */

static int pruned(uint64_t hash[2], int why)
{
        hash[0] = 0xC11DEAD; hash[1] = 1;        /* one shared pseudo state for all pruned letters */
        mc_count("letters_pruned", 1);
        return 1;
}

static int run(const uint8_t *hist, int n, uint64_t hash[2], void *arg)
{
        const struct cfg *cfg = arg;
        /* syntax: in(h): must be followed by a call letter; at most max_scripts of them */
        int nin = 0;
        for (int i = 0; i < n; i++) {
                if (hist[i] >= NLETTERS) return pruned(hash, 0);
                if (hist[i] >= L_IN) {
                        if (++nin > cfg->max_scripts) return pruned(hash, 1);
                        if (i + 1 < n && hist[i + 1] >= NOPS) return pruned(hash, 2);
                        i++;
                }
        }

        memset(&G, 0, sizeof G);
        G.hist = hist; G.n = n; G.cfg = cfg;
        mc_case("event registry, top level", "n=%d", n);
        G.vbi = vbi_decoder_new();
        if (!G.vbi) { fprintf(stderr, "C11: vbi_decoder_new failed\n"); exit(42); }
        for (int i = 0; i < cfg->ninit; i++)
                exec_op(L_REG + cfg->init[i].f * FS + cfg->init[i].u * NM + cfg->init[i].mi, 0);

        int prefix = -1, dead = 0;
        for (int i = 0; i < n && !G.bad; i++) {
                int l = hist[i];
                if (l >= L_IN) {
                        int h = l - L_IN;
                        if (find_rec(h / 2, h % 2) < 0) { dead = 1; break; }      /* only a registered handler can be scripted */
                        if (i + 1 == n) { prefix = h; break; }
                        G.sc[G.nsc].h = h; G.sc[G.nsc].letter = hist[++i]; G.nsc++; G.arms_used++;
                } else if (l < NOPS) exec_op(l, 0);
                else if (l < L_TX) do_raise(TYPES[l - L_RAISE]);
                else do_transmit();
        }
        if (dead) { vbi_decoder_delete(G.vbi); return pruned(hash, 3); }

        if (!G.bad) compare_list_with_model();
        canonical_hash(prefix, hash);
        int calls_in_history = G.ncalls;

        /* probes on the object that is discarded anyway (pending scripts fire) */
        if (!G.bad) for (int t = 0; t < 3 && !G.bad; t++) do_raise(TYPES[t]);
        if (!G.bad) do_transmit();
        if (!G.bad) compare_list_with_model();

        vbi_decoder_delete(G.vbi); G.vbi = NULL;

        mc_count("evaluations", 1);
        if (G.ncalls) mc_count("callbacks_audited", G.ncalls);
        if (G.nscripts_run) mc_count("callback_actions_run", G.nscripts_run);
        if (G.fixups) mc_count("cursor_fixup_reached", G.fixups);
        if (calls_in_history || G.nscripts_run) mc_distinct(hash[0] ^ (hash[1] * 0x9E3779B97F4A7C15ull));
        if (G.nscripts_run == 2 && n >= 4) mc_sample("two callback actions: %s", hist_str());
        return G.bad ? 1 : 0;
}

/* ---- main --------------------------------------------------------------------- */

static const struct cfg CFGS[] = {
        /* everything from the empty registry */
        { "empty",         0, { {0} },                                 { 5, 6 }, 2 },
        /* populated lists (so that two scripted actions + raises fit into the depth):
         * two records sharing a function + a third (legacy add/remove collide with register) */
        { "list-f0f0f1",   3, { {0,0,3}, {0,1,3}, {1,0,3} },           { 4, 5 }, 2 },
        /* three different functions */
        { "list-f0f1f2",   3, { {0,0,3}, {1,0,3}, {2,0,3} },           { 3, 4 }, 2 },
        /* different masks: TTX only / everything / CC only */
        { "list-mixed",    3, { {0,0,0}, {1,0,3}, {0,1,1} },           { 3, 4 }, 2 },
        /* four records, two pairs sharing a function */
        { "list-f0f0f1f1", 4, { {0,0,3}, {0,1,3}, {1,0,3}, {1,1,3} }, { 3, 4 }, 2 },
};

/* One written-out scenario, run in the parent: shows that scripted actions really run inside the
 * library's traversal and reach the cursor fix-up, and gives the evidence file a readable sample. */
static void self_check(void)
{
        static const uint8_t h[] = { 0 * FS + 0 * NM + 3, 1 * FS + 0 * NM + 3, 0 * FS + 1 * NM + 3,      /* reg(f0,u0,ALL) reg(f1,u0,ALL) reg(f0,u1,ALL) */
                                     L_IN + 0, L_UNREG + 1 * 2 + 0,                                /* in(f0,u0): unreg(f1,u0) */
                                     L_RAISE + 1 };                                                /* raise(CAPTION) */
        uint64_t hash[2];
        /* first in a child: on a tree that breaks the property this very scenario may trip the audit or ASan - that is a
         * verdict for the exploration below to find and key, not a machinery error */
        fflush(NULL);
        pid_t pid = fork();
        if (pid == 0) {
                int rc0 = run(h, sizeof h, hash, (void *) &CFGS[0]);
                static const unsigned char want0[10] = { 0, 1, 0, 1, 0, 1, 0, 1, 0, 1 };
                if (rc0 || G.bad) _exit(3);
                _exit((G.fixups != 1 || G.nscripts_run != 1 || G.nlog != 10 || memcmp(G.log, want0, 10)) ? 4 : 0);
        }
        int st = 0; waitpid(pid, &st, 0);
        if (!(WIFEXITED(st) && (WEXITSTATUS(st) == 0 || WEXITSTATUS(st) == 4))) {
                mc_note("self check scenario (a callback unregisters the next handler) fails on this tree: left to the exploration");
                return;
        }
        int rc = run(h, sizeof h, hash, (void *) &CFGS[0]);
        /* history: (f0,u0) [removes next] (f0,u1); probes: 3 raises + 1 transmission x 2 handlers */
        static const unsigned char want[10] = { 0, 1, 0, 1, 0, 1, 0, 1, 0, 1 };
        if (rc || G.bad || G.fixups != 1 || G.nscripts_run != 1 || G.nlog != 10 || memcmp(G.log, want, 10)) {
                fprintf(stderr, "C11: harness self check failed (rc=%d bad=%d fixups=%d scripts=%d calls=%d)\n", rc, G.bad, G.fixups, G.nscripts_run, G.nlog);
                exit(2);
        }
        mc_sample("self check: %s => calls (f0,u0)[unregisters the next handler (f1,u0) from inside the callback] (f0,u1); (f1,u0) never called again in the 4 probe deliveries", hist_str());
}

int main(int argc, char **argv)
{
        mc_init(argc, argv, "C11");
        mc_set_budget(120, 1500);
        mc_meta("level", "model_checking");
        mc_meta("technique", "explicit-state BFS over call histories on the real vbi_decoder event registry, list model oracle driven by the real callbacks, AddressSanitizer for freed records");
        mc_meta("rule", "a case is a history over 79 letters (30 register = 3 functions x 2 user pointers x masks {TTX, CC, TTX|CC, -1, TRIGGER|NETWORK}, 6 unregister, 30 legacy add, 3 legacy remove, 3 raise, 1 real Teletext transmission, 6 'in handler h:' prefixes that script the following call into h's next invocation; <=2 scripted calls); every history within the depth is replayed on a fresh decoder, audited call by call, then probed with a raise of each type and a transmission; states are canonical (ordered (function,user pointer,mask) list, event_mask, pending scripts) modulo renaming of functions and user pointers; non-trivial = at least one callback was delivered or a scripted action ran");
        mc_meta("assume", "the registry compares handler functions and user pointers for equality only (justifies the symmetry reduction over the 3 functions x 2 user pointers)");
        mc_meta("assume", "unregister+register of the same (function,user pointer) inside one delivery creates a new registration, which 'may be called at most once for that event' like any handler added during delivery");
        mc_meta("assume", "a mask change that drops the event type before the handler's turn counts as removal for that type; one that adds it counts as added during delivery (0 or 1 calls accepted)");
        mc_meta("assume", "vbi_send_event / vbi_decode are not called from inside a handler (documented as not allowed), so callback nesting depth is 1; the event mutex is not recursive");
        int tier = mc_tier == MC_THOROUGH;
        char bound[600]; size_t o = 0;
        for (unsigned i = 0; i < sizeof CFGS / sizeof *CFGS; i++)
                o += snprintf(bound + o, sizeof bound - o, "%s%s: <=%d letters", i ? "; " : "", CFGS[i].name, CFGS[i].depth[tier]);
        mc_meta("bound", "%s; <=2 scripted callback actions; every history followed by 3 probe raises + 1 probe transmission", bound);

        if (!mc_replaying) self_check();
        for (unsigned i = 0; i < sizeof CFGS / sizeof *CFGS; i++) {
                mc_bfs_spec spec; memset(&spec, 0, sizeof spec);
                spec.nletters = NLETTERS; spec.max_depth = CFGS[i].depth[tier]; spec.timeout_s = 6;
                spec.run = run; spec.arg = (void *) &CFGS[i]; spec.letter_name = letter_name;
                mc_bfs_result res;
                char phase[64]; snprintf(phase, sizeof phase, "registry-%s", CFGS[i].name);
                mc_bfs(phase, &spec, &res);
        }
        return mc_finish();
}
