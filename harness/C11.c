/* C11 - event handlers run exactly once, in order, and may re-register from
 * callbacks; Teletext pages are acquired exactly while a handler asks for them.
 *
 * E2 (mc_bfs) over histories of calls on the real vbi_decoder event registry
 * (src/vbi.c vbi_event_handler_register/unregister/add/remove, vbi_send_event,
 * and vbi_decode of a real Teletext page for the gating clause).
 *
 * Alphabet of the registry-* phases (79 letters), handlers = 3 callback
 * functions x 2 user pointers:
 *   reg(f,u,m)  30   vbi_event_handler_register, m in {TTX, CC, TTX|CC, -1, TRIGGER|NETWORK}
 *   unreg(f,u)   6   vbi_event_handler_unregister   (== register with mask 0)
 *   add(f,u,m)  30   legacy vbi_event_handler_add (matches on function only)
 *   remove(f)    3   legacy vbi_event_handler_remove (== add with mask 0)
 *   raise(T)     3   vbi_send_event, T in {TTX_PAGE, CAPTION, NETWORK}
 *   transmit     1   vbi_decode of page 2xx (header, one row, terminating
 *                    header 2FF) -> real TTX_PAGE event, vbi_is_cached oracle
 *   in(f,u):     6   prefix: the NEXT letter (one of the 69 calls above) is not
 *                    executed now but scripted into handler (f,u): it runs
 *                    inside that handler's next invocation (at most 2 scripted
 *                    actions per history, both may sit on the same handler)
 * A history is a program in the sense of DESIGN.md C11: top level steps plus
 * scripted callback actions bound to (handler, next invocation).
 *
 * Two more phase families with alphabets of their own (struct cfg; the letter
 * kinds are the same, only the handlers / masks / real inputs differ), both
 * motivated by seed C11 round 5 - dimensions no history of the registry-* phases
 * has: a real input which is NOT atomic with respect to the registry history.
 *   gate-*: a Teletext page sent in pieces.  tx-open = vbi_decode(header 2xx +
 *     row 1), tx-close = vbi_decode(terminating header 2FF); registry calls (top
 *     level or scripted into callbacks), raises and complete pages in magazine 3
 *     (`transmit', whose real TTX_PAGE event runs callbacks while the page in
 *     magazine 2 is in flight) come between.  tx-open while a page is in flight
 *     is the header of the next page.  2 functions x 2 user pointers x masks
 *     {TTX, CC, TTX|CC} (gate-callbacks: 1 x 2 x {TTX, CC}, deeper).
 *     Reference for "pages are acquired exactly while a handler requests them":
 *     the page is cached and announced (exactly one TTX_PAGE event carrying its
 *     number, audited like every delivery) iff some registration requested
 *     TTX_PAGE at every moment from the decode call of its header to the decode
 *     call of its terminating header; when the last requesting handler was
 *     removed or re-masked in between - at top level or inside a callback - the
 *     page is neither cached nor announced, also when a handler is registered
 *     again before the terminating header (vbi_event_enable() resets the
 *     Teletext decoder on activation).  Only when the gap lies INSIDE the decode
 *     call of the page's own header (callbacks of the page terminated by that
 *     header) the status of the new page is not compared.
 *   bsd-*: one vbi_decode call which raises several events of different types.
 *     bsd1 = Teletext packet 8/30 format 1 (NETWORK, NETWORK_ID when this packet
 *     identifies the network, then LOCAL_TIME), bsd2 = format 2 (NETWORK,
 *     NETWORK_ID, then PROG_ID).  2 functions x 2 user pointers x masks
 *     {NETWORK|NETWORK_ID, NETWORK_ID, LOCAL_TIME, PROG_ID, -1}.  The audit
 *     splits the call into stages: the registrations which are owed a stage's
 *     event are those present when it is raised, i.e. AFTER the callbacks of the
 *     earlier stages of the same call - a handler registered for LOCAL_TIME
 *     inside the NETWORK callback of a packet is owed the LOCAL_TIME event of
 *     that very packet, one removed there is not called.  LOCAL_TIME / PROG_ID
 *     are due with every packet of their format if anybody is registered for
 *     them; whether NETWORK / NETWORK_ID are raised is network identification,
 *     not C11: a delivery that happens is audited, none is demanded.
 *
 * Oracle = list model driven in lock step by the real callbacks (it audits the
 * delivery, it does not predict it):
 *   - a call must name a live registration (function, own user pointer) whose
 *     current mask contains the event type (removed => never again);
 *   - per delivery a registration is called at most once and calls follow
 *     registration order;
 *   - a registration that wanted the type when the event was raised and kept
 *     wanting it until its turn must be called (checked when a later one is
 *     called and at the end of the delivery);
 *   - a registration created during the delivery, or whose mask gained the
 *     type during the delivery, may be called 0 or 1 times (both accepted);
 *     un-registering followed by registering the same (function,user pointer)
 *     creates a NEW registration in this sense;
 *   - ASan: no freed record is touched (crash => violation by the engine);
 *   - transmit: vbi_is_cached(page) <=> some registration's mask had TTX_PAGE;
 *     real TTX_PAGE events must carry the number of a page that is due.
 * After every history the real list is compared with the model (any difference
 * in (function, user pointer, mask) order is observable by some later raise, so
 * this only saves depth), then PROBES run on the object that is thrown away
 * anyway: raise of each type (pending scripts do fire) and one transmit; gate-*:
 * also the terminating header of a page still in flight; bsd-*: two packets of
 * each format.  The probes make a history of n letters cover what would need n+1.
 *
 * Deviations from DESIGN.md C11, forced by the engine / the budget:
 *   - letters are bytes (<= 256): scripted actions use the two letter "in(h):"
 *     encoding with ABSOLUTE targets instead of self/previous/next relative
 *     ones (all relative positions occur because all lists are enumerated);
 *   - mask 0 is reached through unregister/remove only (the very same call);
 *   - states are canonical modulo renaming of the 3 functions and 2 user
 *     pointers (the registry only compares them for equality);
 *   - a second family of BFS phases starts from a populated list so that two
 *     scripted actions + raises are reached within the budget;
 *   - harness/C11.mk wraps malloc/calloc/free only to recycle the two big
 *     blocks of a decoder (struct vbi_decoder 220 KB, cache_network 35 KB);
 *     under ASan each of them is a fresh mmap (300 us of page faults per fresh
 *     object otherwise).  Handler records are untouched by this: they stay
 *     ordinary ASan allocations with quarantine.
 *   - harness/C11.mk links the ASan+UBSan object of src/vbi.c (the only code
 *     that allocates, frees and walks handler records) with the uninstrumented
 *     `fast' variant of the rest of the library: a fresh decoder per transition
 *     costs 55 us instead of 100 us; C11 claims nothing about memory safety
 *     outside the registry.
 * Keys: oracle violations are "<class> [no callback action | after callback
 * removal | after other callback action]" (context only inside a delivery);
 * "event due in a decode call not delivered to any handler: <TYPE> [...]" when a
 * later stage of a decode call is not raised although somebody is registered;
 * "teletext page acquired although TTX_PAGE was not requested throughout its
 * transmission" / "teletext page in flight lost although ..." for pages in pieces;
 * crashes are "<callback <call>(<position of its target relative to the
 * running handler>) | event registry, top level> crash=<class>@<function>".
 */
#include <stdio.h>
#include <stdlib.h>
#include <string.h>
#include <sys/wait.h>
#include <unistd.h>
#include "mc.h"
#include "src/vbi.h"
#include "src/hamm.h"

#if defined(__has_feature)
#  if __has_feature(address_sanitizer)
#    include <sanitizer/asan_interface.h>
#    define POISON(p, n)   ASAN_POISON_MEMORY_REGION(p, n)
#    define UNPOISON(p, n) ASAN_UNPOISON_MEMORY_REGION(p, n)
#  endif
#endif
#ifndef POISON
#  define POISON(p, n)   ((void) 0)
#  define UNPOISON(p, n) ((void) 0)
#endif

/* ---- big block recycling (see header comment) --------------------------- */

void *__real_malloc(size_t);
void *__real_calloc(size_t, size_t);
void  __real_free(void *);

#define NPOOL 8
struct bigpool { size_t size; void *owned[NPOOL]; int nowned; void *idle[NPOOL]; int nidle; };
static struct bigpool pools[2] = { { sizeof(struct vbi_decoder) }, { sizeof(cache_network) } };

static void *pool_take(struct bigpool *b, int zero)
{
        if (b->nidle) {
                void *p = b->idle[--b->nidle];
                UNPOISON(p, b->size);
                if (zero) memset(p, 0, b->size);
                return p;
        }
        void *p = zero ? __real_calloc(1, b->size) : __real_malloc(b->size);
        if (p && b->nowned < NPOOL) b->owned[b->nowned++] = p;
        return p;
}
void *__wrap_malloc(size_t n)
{
        for (int i = 0; i < 2; i++) if (n == pools[i].size) return pool_take(&pools[i], 0);
        return __real_malloc(n);
}
void *__wrap_calloc(size_t a, size_t b)
{
        for (int i = 0; i < 2; i++) if (a * b == pools[i].size && a && b) return pool_take(&pools[i], 1);
        return __real_calloc(a, b);
}
void __wrap_free(void *p)
{
        if (p) for (int k = 0; k < 2; k++) for (int i = 0; i < pools[k].nowned; i++) if (pools[k].owned[i] == p) {
                POISON(p, pools[k].size);
                pools[k].idle[pools[k].nidle++] = p;
                return;
        }
        __real_free(p);
}

/* ---- alphabet ----------------------------------------------------------- */

#define NF 3
#define NU 2
#define NH (NF * NU)
#define NM 5            /* masks of the registry-* phases */
#define NMX 9           /* all masks */
#define FS (NU * NM)    /* letters per function in the reg/add blocks of the registry-* alphabet */
static const int   MASKS[NMX] = { VBI_EVENT_TTX_PAGE, VBI_EVENT_CAPTION, VBI_EVENT_TTX_PAGE | VBI_EVENT_CAPTION, -1, VBI_EVENT_TRIGGER | VBI_EVENT_NETWORK,
                                  VBI_EVENT_NETWORK | VBI_EVENT_NETWORK_ID, VBI_EVENT_NETWORK_ID, VBI_EVENT_LOCAL_TIME, VBI_EVENT_PROG_ID };
static const char *MASKN[NMX] = { "TTX", "CC", "TTX|CC", "ALL", "TRIGGER|NETWORK", "NETWORK|NETWORK_ID", "NETWORK_ID", "LOCAL_TIME", "PROG_ID" };
#define NT 6
static const int   TYPES[NT]  = { VBI_EVENT_TTX_PAGE, VBI_EVENT_CAPTION, VBI_EVENT_NETWORK, VBI_EVENT_NETWORK_ID, VBI_EVENT_LOCAL_TIME, VBI_EVENT_PROG_ID };
static const char *TYPEN[NT]  = { "TTX_PAGE", "CAPTION", "NETWORK", "NETWORK_ID", "LOCAL_TIME", "PROG_ID" };
static const char *type_name(int type) { for (int t = 0; t < NT; t++) if (TYPES[t] == type) return TYPEN[t]; return "?"; }

enum { K_REG, K_UNREG, K_ADD, K_REMOVE,                 /* registry calls ("ops") */
       K_RAISE, K_TX, K_TXOPEN, K_TXCLOSE, K_BSD1, K_BSD2, K_IN };
static const char *KINDN[4] = { "register", "unregister", "add", "remove" };
/* numbering of the registry-* alphabet (3 functions x 2 user pointers x masks 0..4, 3 raises, transmit): the
 * letters every phase family had before seed C11 round 5; the self check is written in these numbers */
enum { L_REG = 0, L_UNREG = NF * FS, L_ADD = L_UNREG + NH, L_REMOVE = L_ADD + NF * FS, NOPS = L_REMOVE + NF, L_RAISE = NOPS, L_TX = L_RAISE + 3, L_IN = L_TX + 1, NLETTERS = L_IN + NH };

struct letter { int kind, f, u, mi; };   /* mi: index into MASKS (-1 for mask 0) for ops, index into TYPES for raise */
#define IS_OP(l) ((l)->kind <= K_REMOVE)

/* ---- phase configuration ------------------------------------------------ */

enum { F_TX = 1, F_SPLIT = 2, F_BSD = 4 };
#define MAXL 128
struct cfg {
        const char *name;
        int ninit; struct { int f, u, mi; } init[4];     /* registrations made before the history */
        int depth[2];                                      /* quick, thorough */
        int max_scripts;
        /* alphabet of the phase: handlers f < nf, u < nu; masks MASKS[m[0..nm)]; raise of TYPES[0..nraise); features */
        int nf, nu, nm, m[6], nraise, feat;
        int nl; struct letter L[MAXL];                     /* built by build_cfg() */
};

static void build_cfg(struct cfg *c)
{
        int n = 0;
#define PUT(k, f_, u_, mi_) do { if (n >= MAXL) { fprintf(stderr, "C11: alphabet overflow\n"); exit(2); } c->L[n].kind = (k); c->L[n].f = (f_); c->L[n].u = (u_); c->L[n].mi = (mi_); n++; } while (0)
        for (int f = 0; f < c->nf; f++) for (int u = 0; u < c->nu; u++) for (int k = 0; k < c->nm; k++) PUT(K_REG, f, u, c->m[k]);
        for (int f = 0; f < c->nf; f++) for (int u = 0; u < c->nu; u++) PUT(K_UNREG, f, u, -1);
        for (int f = 0; f < c->nf; f++) for (int u = 0; u < c->nu; u++) for (int k = 0; k < c->nm; k++) PUT(K_ADD, f, u, c->m[k]);
        for (int f = 0; f < c->nf; f++) PUT(K_REMOVE, f, 0, -1);
        for (int t = 0; t < c->nraise; t++) PUT(K_RAISE, 0, 0, t);
        if (c->feat & F_TX) PUT(K_TX, 0, 0, -1);
        if (c->feat & F_SPLIT) { PUT(K_TXOPEN, 0, 0, -1); PUT(K_TXCLOSE, 0, 0, -1); }
        if (c->feat & F_BSD) { PUT(K_BSD1, 0, 0, -1); PUT(K_BSD2, 0, 0, -1); }
        for (int f = 0; f < c->nf; f++) for (int u = 0; u < c->nu; u++) PUT(K_IN, f, u, -1);
#undef PUT
        c->nl = n;
}

static const char *op_str(const struct letter *o, char *s, size_t n)
{
        switch (o->kind) {
        case K_REMOVE:  snprintf(s, n, "remove(f%d)", o->f); break;
        case K_UNREG:   snprintf(s, n, "unreg(f%d,u%d)", o->f, o->u); break;
        case K_REG:     snprintf(s, n, "reg(f%d,u%d,%s)", o->f, o->u, MASKN[o->mi]); break;
        case K_ADD:     snprintf(s, n, "add(f%d,u%d,%s)", o->f, o->u, MASKN[o->mi]); break;
        case K_RAISE:   snprintf(s, n, "raise(%s)", TYPEN[o->mi]); break;
        case K_TX:      snprintf(s, n, "transmit"); break;
        case K_TXOPEN:  snprintf(s, n, "tx-open"); break;
        case K_TXCLOSE: snprintf(s, n, "tx-close"); break;
        case K_BSD1:    snprintf(s, n, "bsd1"); break;
        case K_BSD2:    snprintf(s, n, "bsd2"); break;
        case K_IN:      snprintf(s, n, "in(f%d,u%d):", o->f, o->u); break;
        default:        snprintf(s, n, "?"); break;
        }
        return s;
}

static const char *letter_name(int l, void *arg)
{
        static char b[4][48]; static int k; char *s = b[k++ & 3];
        const struct cfg *c = arg;
        if (l < 0 || l >= c->nl) { snprintf(s, 48, "?%d", l); return s; }
        return op_str(&c->L[l], s, 48);
}

/* ---- model + audit state (one history) ---------------------------------- */

struct rec { int f, u, mask, seq; int must, called, fresh; int born_stage; /* 1 + stage of the running decode call in which it was created */ };
struct script { int h; struct letter l; };

/* One vbi_decode() call may raise several events one after the other (seed C11 round 5): the stages it can
 * go through, in order.  MUST: raised when it is reached iff a registration wants the type at that moment
 * (the moment = after the deliveries of the earlier stages); OPTIONAL: whether the decoder raises it is not
 * C11's business (network identification), a delivery that does happen is audited like any other. */
enum { ST_MUST, ST_OPTIONAL };
struct stage { int type, pgno, mode; };
/* the page on air in magazine 2 (tx-open ... tx-close) */
enum { AIR_NONE, AIR_CLEAN /* TTX_PAGE requested ever since its header */, AIR_TAINTED /* not requested at some moment: must not be acquired */,
       AIR_UNDEF /* requested at the start and the end of the decode call of its header but not throughout: not compared */ };

static int udtag[NU];                       /* user pointers are &udtag[u] */
static void cb0(vbi_event *ev, void *ud);
static void cb1(vbi_event *ev, void *ud);
static void cb2(vbi_event *ev, void *ud);
static vbi_event_handler FN[NF] = { cb0, cb1, cb2 };

static struct {
        vbi_decoder *vbi;
        const uint8_t *hist; int n; const struct cfg *cfg;
        struct rec r[NH + 2]; int nr, seq;
        unsigned ever;                      /* bit f*2+u: (f,u) was registered at some time */
        struct script sc[2]; int nsc, arms_used;
        /* delivery in progress */
        int in_delivery, type, ncalls_this, running_seq, depth;
        char last_action[64];               /* last scripted action run in this delivery */
        int action_class;                   /* 0 none yet, 1 some action removed a record, 2 other actions only */
        int bad;                            /* a violation was reported: stop auditing this history */
        int ncalls, nscripts_run, fixups, frame, npage;
        /* real decode call in progress */
        int in_decode, cur, nst, takers_cur, decode_actions, gap_in_decode, forbid_pgno, later_removed, stages_seen, ev_overwritten;
        struct stage st[4];
        const char *forbid_key;
        struct { int pgno; const char *key; } dead[16]; int ndead;
        int air, air_pgno, air_ops, air_taint_cb;
        unsigned char log[48]; int nlog;    /* handlers called, in order (samples / self check) */
        unsigned outcomes;
} G;

enum {
        O_PLAIN_MULTI, O_NO_TAKER, O_RM_SELF, O_RM_NEXT, O_RM_LATER, O_RM_EARLIER, O_FRESH_CALLED, O_FRESH_NOT_CALLED,
        O_DROP_NOT_CALLED, O_GAIN_CALLED, O_GAIN_NOT_CALLED, O_TX_ACQ, O_TX_NOT_ACQ, O_REREG_SAME_DELIVERY, O_MASK_CHANGE_IN_CB,
        O_LEGACY_MULTI_REMOVE, O_REAL_EVENT_SCRIPT,
        O_AIR_KEPT, O_AIR_GAP_TOP, O_AIR_GAP_CB, O_AIR_LEFT, O_AIR_UNDEF, O_BSD1_ALL, O_BSD2_ALL, O_NET_EVENT_SCRIPT, O_LATER_STAGE_CALLED, O_LATER_STAGE_REMOVED, O_N
};
static const char *OUTN[O_N] = {
        "delivery without callback action: >=2 handlers called once each in registration order",
        "delivery with no handler for the type",
        "callback removed the running handler",
        "callback removed the next handler (traversal cursor)",
        "callback removed a later handler: not called",
        "callback removed an earlier handler",
        "registration created during delivery: called once",
        "registration created during delivery: not called",
        "type dropped from a later handler's mask during delivery: not called",
        "type added to a later handler's mask during delivery: called",
        "type added to a handler's mask during delivery: not called",
        "transmit with TTX_PAGE handler: page cached, event delivered",
        "transmit without TTX_PAGE handler: page not cached",
        "handler unregistered and registered again inside one delivery: new registration called",
        "callback changed a mask only",
        "legacy remove deleted >=2 records in one call from a callback",
        "scripted action ran inside a TTX_PAGE event raised by the real decoder",
        "registry calls while a page was in flight, TTX_PAGE requested throughout: page cached, event delivered",
        "last TTX_PAGE handler removed / re-masked at top level while a page was in flight, a handler registered again before the terminating header: page neither cached nor announced",
        "last TTX_PAGE handler removed / re-masked inside a callback while a page was in flight, a handler registered again before the terminating header: page neither cached nor announced",
        "no TTX_PAGE handler at the terminating header of a page in flight: page not cached",
        "TTX_PAGE handlers removed and registered again inside the decode call of a page header (status of that page not compared)",
        "one packet 8/30 format 1 raised NETWORK, NETWORK_ID and LOCAL_TIME",
        "one packet 8/30 format 2 raised NETWORK, NETWORK_ID and PROG_ID",
        "scripted action ran inside a NETWORK / NETWORK_ID event raised by the real decoder",
        "handler registered (or type added) inside the callback of an earlier event of a decode call: called for the later event of the same call",
        "handler removed (or type dropped) inside the callback of an earlier event of a decode call: not called for the later event of the same call"
};
typedef char outcome_bits_fit[O_N <= 32 ? 1 : -1];
static void outcome(int o)
{
        static unsigned emitted;            /* per process */
        if (emitted & (1u << o)) return;
        emitted |= 1u << o;
        mc_outcome("%s", OUTN[o]);
}

static const char *hist_str(void)
{
        static char b[700]; size_t o = 0; b[0] = 0;
        if (G.cfg->ninit) {
                o += snprintf(b + o, sizeof b - o, "{init");
                for (int i = 0; i < G.cfg->ninit; i++)
                        o += snprintf(b + o, sizeof b - o, " reg(f%d,u%d,%s)", G.cfg->init[i].f, G.cfg->init[i].u, MASKN[G.cfg->init[i].mi]);
                o += snprintf(b + o, sizeof b - o, "} ");
        }
        for (int i = 0; i < G.n && o + 60 < sizeof b; i++)
                o += snprintf(b + o, sizeof b - o, "%s%s", i ? " ; " : "", letter_name(G.hist[i], (void *) G.cfg));
        return b;
}

static const char *model_str(void)
{
        static char b[300]; size_t o = 0; b[0] = 0;
        for (int i = 0; i < G.nr && o + 40 < sizeof b; i++)
                o += snprintf(b + o, sizeof b - o, "%s(f%d,u%d,%x%s)", i ? " " : "", G.r[i].f, G.r[i].u, (unsigned) G.r[i].mask,
                              G.r[i].called ? ",called" : "");
        return b;
}

/* violation: class + what the callbacks of this delivery did last */
static void fail(const char *cls, const char *extra)
{
        if (G.bad) return;
        G.bad = 1;
        char key[200];
        /* key = class + coarse context (was a scripted callback action run in this delivery, and did
         * it remove a record); the exact action goes into the detail */
        if (G.in_delivery) snprintf(key, sizeof key, "%s [%s]", cls, G.action_class == 0 ? "no callback action" :
                                    G.action_class == 1 ? "after callback removal" : "after other callback action");
        else snprintf(key, sizeof key, "%s", cls);
        mc_violation(key, "%s | history: %s | model list: %s | event %s | last action: %s", extra ? extra : "", hist_str(), model_str(),
                     G.in_delivery ? type_name(G.type) : "-",
                     G.last_action[0] ? G.last_action : "-");
}

static int find_rec(int f, int u) { for (int i = 0; i < G.nr; i++) if (G.r[i].f == f && G.r[i].u == u) return i; return -1; }
static int find_seq(int seq) { for (int i = 0; i < G.nr; i++) if (G.r[i].seq == seq) return i; return -1; }
static int model_union(void) { int m = 0; for (int i = 0; i < G.nr; i++) m |= G.r[i].mask; return m; }

/* record i stops being owed the current event (removed / type dropped): fine before its turn,
 * a skip if a later registration has already been called */
static void leaving_must_set(int i)
{
        if (!G.in_delivery || !G.r[i].must || G.r[i].called) return;
        for (int k = i + 1; k < G.nr; k++) if (G.r[k].called) {
                char d[100]; snprintf(d, sizeof d, "(f%d,u%d) at position %d passed over before it was removed", G.r[i].f, G.r[i].u, i);
                fail("registered handler skipped", d); return;
        }
}
static void model_delete(int i)
{
        leaving_must_set(i);
        memmove(&G.r[i], &G.r[i + 1], (G.nr - i - 1) * sizeof G.r[0]); G.nr--;
}
static void model_set_mask(int i, int mask)
{
        int old = G.r[i].mask;
        G.r[i].mask = mask;
        if (G.in_delivery) {
                if ((old & G.type) && !(mask & G.type)) { leaving_must_set(i); G.r[i].must = 0; if (!G.r[i].called) G.r[i].fresh |= 8; }   /* no longer registered for the type */
                if (!(old & G.type) && (mask & G.type) && !G.r[i].called) G.r[i].fresh |= 2;   /* gained the type: 0 or 1 calls */
        }
        if (G.in_decode && (mask & ~old)) G.r[i].born_stage = G.cur + 1;
}
static void model_append(int f, int u, int mask)
{
        if (G.nr >= NH + 2) { fprintf(stderr, "C11: model overflow\n"); exit(42); }
        struct rec *r = &G.r[G.nr++];
        memset(r, 0, sizeof *r);
        r->f = f; r->u = u; r->mask = mask; r->seq = ++G.seq;
        r->fresh = G.in_delivery ? 1 : 0;
        r->born_stage = G.in_decode ? G.cur + 1 : 0;
        if (G.in_delivery && (G.ever & (1u << (f * 2 + u)))) r->fresh |= 4;
        G.ever |= 1u << (f * 2 + u);
}

/* one registry call on the real object and on the model.  running = seq of the
 * registration whose callback performs it, 0 at top level. */
static void exec_op(const struct letter *lp, int running)
{
        struct letter o = *lp;
        int mask = o.mi >= 0 ? MASKS[o.mi] : 0;
        int ri = running ? find_seq(running) : -1;

        if (running) {
                /* describe the action relative to the running handler (violation / crash keys) */
                char rel[40] = ""; int nmatch = 0, rm = (mask == 0), best = 0;
                for (int i = 0; i < G.nr; i++) {
                        int match = (o.kind == K_REG || o.kind == K_UNREG) ? (G.r[i].f == o.f && G.r[i].u == o.u) : (G.r[i].f == o.f);
                        if (!match) continue;
                        nmatch++;
                        /* one label per action, the position that matters most for the traversal first */
                        int rank = ri < 0 ? 1 : i == ri + 1 ? 5 : i == ri ? 4 : i > ri ? 3 : 2;
                        if (rank > best) { best = rank; strcpy(rel, rank == 5 ? "next" : rank == 4 ? "self" : rank == 3 ? "later" : rank == 2 ? "earlier" : "other"); }
                        if (rm) {
                                if (i == ri) outcome(O_RM_SELF);
                                else if (ri >= 0 && i == ri + 1) { outcome(O_RM_NEXT); G.fixups++; }
                                else if (ri >= 0 && i > ri) outcome(O_RM_LATER);
                                else if (ri >= 0) outcome(O_RM_EARLIER);
                        } else outcome(O_MASK_CHANGE_IN_CB);
                }
                if (!nmatch) strcpy(rel, "absent");
                if (rm && nmatch >= 2) outcome(O_LEGACY_MULTI_REMOVE);
                snprintf(G.last_action, sizeof G.last_action, "callback %s(%s)", KINDN[o.kind], rel);
                if (rm && nmatch) G.action_class = 1; else if (G.action_class == 0) G.action_class = 2;
                mc_case(G.last_action, "n=%d", G.n);
                G.nscripts_run++;
                if (G.in_decode) {
                        G.decode_actions++;
                        /* a later stage of this decode call is still to come: what this action does to its takers */
                        if (G.cur >= 0 && G.cur + 1 < G.nst && G.st[G.nst - 1].mode == ST_MUST && nmatch && !(mask & G.st[G.nst - 1].type))
                                for (int i = 0; i < G.nr; i++) {
                                        int match = (o.kind == K_REG || o.kind == K_UNREG) ? (G.r[i].f == o.f && G.r[i].u == o.u) : (G.r[i].f == o.f);
                                        if (match && (G.r[i].mask & G.st[G.nst - 1].type)) G.later_removed = 1;
                                }
                }
        }
        int air_before = G.air;

        switch (o.kind) {
        case K_REG:    vbi_event_handler_register(G.vbi, mask, FN[o.f], &udtag[o.u]); break;
        case K_UNREG:  vbi_event_handler_unregister(G.vbi, FN[o.f], &udtag[o.u]); break;
        case K_ADD:    vbi_event_handler_add(G.vbi, mask, FN[o.f], &udtag[o.u]); break;
        case K_REMOVE: vbi_event_handler_remove(G.vbi, FN[o.f]); break;
        }

        if (o.kind == K_REG || o.kind == K_UNREG) {
                int i = find_rec(o.f, o.u);
                if (i >= 0) { if (mask) model_set_mask(i, mask); else model_delete(i); }
                else if (mask) model_append(o.f, o.u, mask);
        } else {
                /* legacy: matches on the function only, user pointer ignored for existing records */
                int found = 0;
                for (int i = 0; i < G.nr; ) {
                        if (G.r[i].f != o.f) { i++; continue; }
                        found = 1;
                        if (mask) model_set_mask(i++, mask); else model_delete(i);
                }
                if (!found && mask) model_append(o.f, o.u, mask);
        }

        /* gating clause, seed C11 round 5: a page in flight whose transmission falls partly into a period in
         * which no registration requests TTX_PAGE must not be acquired */
        if (air_before != AIR_NONE) G.air_ops++;
        if (!(model_union() & VBI_EVENT_TTX_PAGE)) {
                if (G.air != AIR_NONE && G.air != AIR_TAINTED) { G.air = AIR_TAINTED; G.air_taint_cb = running != 0; }
                if (G.in_decode) G.gap_in_decode = 1;
        }
}

/* ---- the callbacks (audit) ---------------------------------------------- */

static int begin_delivery(int type);
static void end_delivery(int takers, int expect_raise);

/* -- stages of a real decode call.  Between two deliveries of one call no registry call can happen (they
 *    only happen inside callbacks), so the registrations seen when the first handler of a stage is called
 *    (or, for a stage nobody was called for, when the next stage starts / the call returns) are exactly the
 *    registrations at the moment the event was (or should have been) raised. */
static int stage_matches(const struct stage *st, const vbi_event *ev)
{
        return ev->type == st->type && (st->type != VBI_EVENT_TTX_PAGE || ev->ev.ttx_page.pgno == st->pgno);
}
/* stage j went by without any handler being called */
static void pass_stage(int j)
{
        const struct stage *st = &G.st[j];
        if (G.bad || st->mode != ST_MUST) return;
        for (int i = 0; i < G.nr; i++) if (G.r[i].mask & st->type) {
                char cls[200], d[160];
                snprintf(cls, sizeof cls, "event due in a decode call not delivered to any handler: %s [%s]", type_name(st->type),
                         G.decode_actions ? "after callback action in an earlier event of the same call" : "no callback action");
                snprintf(d, sizeof d, "(f%d,u%d) at position %d was registered for %s %s", G.r[i].f, G.r[i].u, i, type_name(st->type),
                         G.r[i].born_stage ? "inside a callback of an earlier event of the same decode call, before this event was due" : "before the decode call");
                G.in_delivery = 0;
                fail(cls, d); return;
        }
}
static void close_delivery(void) { if (G.in_delivery) end_delivery(G.takers_cur, 1); }
static int enter_stage(int k)
{
        close_delivery();
        for (int j = G.cur + 1; j < k; j++) pass_stage(j);
        G.cur = k;
        if (G.bad) return 0;
        G.stages_seen |= 1 << k;
        G.takers_cur = begin_delivery(G.st[k].type);
        return 1;
}
static int stage_accept(const vbi_event *ev)
{
        if (G.in_delivery && G.cur >= 0 && G.cur < G.nst && stage_matches(&G.st[G.cur], ev)) return 1;
        for (int k = G.cur + 1; k < G.nst; k++) if (stage_matches(&G.st[k], ev)) return enter_stage(k);
        char d[120];
        if (ev->type == VBI_EVENT_TTX_PAGE) snprintf(d, sizeof d, "TTX_PAGE event for page %x", ev->ev.ttx_page.pgno);
        else snprintf(d, sizeof d, "event type 0x%x (%s) not due at this point of the decode call", ev->type, type_name(ev->type));
        if (ev->type == VBI_EVENT_TTX_PAGE && G.forbid_pgno && ev->ev.ttx_page.pgno == G.forbid_pgno) { G.in_delivery = 0; fail(G.forbid_key, d); return 0; }
        /* a page settled as "not to be acquired" by an earlier decode call turns up later: the same defect, the same key */
        if (ev->type == VBI_EVENT_TTX_PAGE) for (int k = 0; k < G.ndead; k++) if (G.dead[k].pgno == ev->ev.ttx_page.pgno) { G.in_delivery = 0; fail(G.dead[k].key, d); return 0; }
        fail("handler called with a different event than the one raised", d);
        return 0;
}
static void decode_begin(void)
{
        G.in_decode = 1; G.cur = -1; G.nst = 0; G.in_delivery = 0; G.decode_actions = 0; G.gap_in_decode = 0; G.forbid_pgno = 0; G.later_removed = 0; G.stages_seen = 0;
        for (int i = 0; i < G.nr; i++) G.r[i].born_stage = 0;
}
static void add_stage(int type, int pgno, int mode) { G.st[G.nst].type = type; G.st[G.nst].pgno = pgno; G.st[G.nst].mode = mode; G.nst++; }
static void decode_run(vbi_sliced *sl, int n)
{
        vbi_decode(G.vbi, sl, n, 1.0 + 0.04 * G.frame);      /* consecutive frames: no time gap, no resynchronisation */
        G.frame++;
}
static void decode_finish(void)
{
        if (G.forbid_pgno && G.ndead < 16) { G.dead[G.ndead].pgno = G.forbid_pgno; G.dead[G.ndead].key = G.forbid_key; G.ndead++; }
        close_delivery();
        for (int j = G.cur + 1; j < G.nst; j++) pass_stage(j);
        if (!G.bad && G.later_removed) outcome(O_LATER_STAGE_REMOVED);
        G.cur = G.nst; G.in_decode = 0; G.forbid_pgno = 0;
        for (int i = 0; i < G.nr; i++) G.r[i].born_stage = 0;
}

static void on_call(int f, vbi_event *ev, void *ud)
{
        G.ncalls++;
        if (G.nlog < (int) sizeof G.log) G.log[G.nlog++] = (unsigned char)(f * 2 + (ud == &udtag[1]));
        if (G.bad) return;
        if (G.in_decode) {
                if (G.depth) { fail("handler called from inside another handler", NULL); return; }
                if (!ev) { fail("handler called with a different event than the one raised", "no event"); return; }
                if (!stage_accept(ev)) return;
        } else {
                if (!G.in_delivery) { fail("handler called while no event is being delivered", NULL); return; }
                if (G.depth) { fail("handler called from inside another handler", NULL); return; }
                if (!ev || ev->type != G.type) { fail("handler called with a different event than the one raised", NULL); return; }
        }
        int u = ud == &udtag[0] ? 0 : ud == &udtag[1] ? 1 : -1;
        int i = u < 0 ? -1 : find_rec(f, u);
        if (i < 0) {
                char d[80]; snprintf(d, sizeof d, "called f%d with user pointer u%d", f, u);
                int fn_live = 0; for (int k = 0; k < G.nr; k++) if (G.r[k].f == f) fn_live = 1;
                if (u >= 0 && (G.ever & (1u << (f * 2 + u)))) fail("removed handler called", d);
                else if (fn_live) fail("handler called with a user pointer it was not registered with", d);
                else fail("never registered handler called", d);
                return;
        }
        struct rec *r = &G.r[i];
        char d[80]; snprintf(d, sizeof d, "called (f%d,u%d) at list position %d", f, u, i);
        if (!(r->mask & G.type)) { fail("handler called for an event type outside its mask", d); return; }
        if (r->called) { fail("handler called twice for one event", d); return; }
        for (int k = i + 1; k < G.nr; k++) if (G.r[k].called) { fail("handlers called out of registration order", d); return; }
        r->called = 1; G.ncalls_this++;
        if (r->fresh & 4) outcome(O_REREG_SAME_DELIVERY);
        if (G.in_decode && r->born_stage && r->born_stage - 1 < G.cur) {
                outcome(O_LATER_STAGE_CALLED);
                static int sampled; if (!sampled++) mc_sample("several events from one decode call: %s => (f%d,u%d) got the %s type inside a %s callback and is called for the %s event of the same packet", hist_str(), f, u, type_name(G.type), type_name(G.st[r->born_stage - 1].type), type_name(G.type));
        }

        /* scripted actions bound to this handler, in arming order */
        int seq = r->seq, h = f * 2 + u;
        G.depth++;
        for (int k = 0; k < G.nsc; ) {
                if (G.sc[k].h != h) { k++; continue; }
                struct letter letter = G.sc[k].l;
                memmove(&G.sc[k], &G.sc[k + 1], (G.nsc - k - 1) * sizeof G.sc[0]); G.nsc--;
                if (ev->type == VBI_EVENT_TTX_PAGE && G.in_decode) outcome(O_REAL_EVENT_SCRIPT);
                if ((ev->type == VBI_EVENT_NETWORK || ev->type == VBI_EVENT_NETWORK_ID) && G.in_decode) outcome(O_NET_EVENT_SCRIPT);
                exec_op(&letter, seq);
                /* the handlers after this one are still owed the event: it must still be the event that was raised
                 * (vbi_event_enable() resets vbi->network, which IS the NETWORK / NETWORK_ID event of the decoder) */
                if (!G.bad && ev->type != G.type) G.ev_overwritten = 1;    /* a violation only if a later handler loses the event by it: end_delivery() */
        }
        G.depth--;
}
static void cb0(vbi_event *ev, void *ud) { on_call(0, ev, ud); }
static void cb1(vbi_event *ev, void *ud) { on_call(1, ev, ud); }
static void cb2(vbi_event *ev, void *ud) { on_call(2, ev, ud); }

static int begin_delivery(int type)
{
        int takers = 0;
        G.in_delivery = 1; G.type = type; G.ncalls_this = 0; G.last_action[0] = 0; G.action_class = 0; G.ev_overwritten = 0;
        for (int i = 0; i < G.nr; i++) {
                G.r[i].must = (G.r[i].mask & type) != 0; G.r[i].called = 0; G.r[i].fresh = 0;
                takers += G.r[i].must;
        }
        return takers;
}
static void end_delivery(int takers, int expect_raise)
{
        if (!G.bad && expect_raise)
                for (int i = 0; i < G.nr; i++) if (G.r[i].must && !G.r[i].called) {
                        char d[80]; snprintf(d, sizeof d, "(f%d,u%d) at position %d never called", G.r[i].f, G.r[i].u, i);
                        if (G.ev_overwritten) {
                                /* a different defect than a wrong traversal: own key, no context suffix */
                                char dd[200]; snprintf(dd, sizeof dd, "%s; the %s event raised by the decoder had its type field overwritten by a registry call made inside an earlier handler's callback", d, type_name(G.type));
                                G.in_delivery = 0;
                                fail("registered handler skipped: event under delivery overwritten by a registry call made inside its callback", dd);
                                G.in_delivery = 1;
                        } else fail("registered handler skipped", d);
                        break;
                }
        if (!G.bad) {
                if (!takers) outcome(O_NO_TAKER);
                if (!G.last_action[0] && G.ncalls_this >= 2) outcome(O_PLAIN_MULTI);
                for (int i = 0; i < G.nr; i++) {
                        struct rec *r = &G.r[i];
                        if ((r->fresh & 1) && (r->mask & G.type)) outcome(r->called ? O_FRESH_CALLED : O_FRESH_NOT_CALLED);
                        if ((r->fresh & 2) && (r->mask & G.type)) outcome(r->called ? O_GAIN_CALLED : O_GAIN_NOT_CALLED);
                        if ((r->fresh & 8) && !(r->mask & G.type) && !r->called) outcome(O_DROP_NOT_CALLED);
                }
        }
        G.in_delivery = 0;
        if (G.last_action[0]) mc_case("event registry, top level", "n=%d", G.n);
        G.last_action[0] = 0;
}

static void do_raise(int type)
{
        vbi_event ev; memset(&ev, 0, sizeof ev); ev.type = type;
        int takers = begin_delivery(type);
        vbi_send_event(G.vbi, &ev);
        end_delivery(takers, 1);
}

/* ---- real Teletext transmission ------------------------------------------ */

static void ttx_packet(vbi_sliced *s, int mag, int packet)
{
        memset(s, 0, sizeof *s);
        s->id = VBI_SLICED_TELETEXT_B; s->line = 7 + packet;
        unsigned pmag = (mag & 7) | (packet << 3);
        s->data[0] = vbi_ham8(pmag & 15); s->data[1] = vbi_ham8(pmag >> 4);
        for (int i = 2; i < 42; i++) s->data[i] = vbi_par8(' ');
}
static void ttx_header(vbi_sliced *s, int mag, int page)
{
        ttx_packet(s, mag, 0);
        s->data[2] = vbi_ham8(page & 15); s->data[3] = vbi_ham8(page >> 4);
        for (int i = 4; i < 10; i++) s->data[i] = vbi_ham8(0);    /* subcode 0, no control bits: parallel mode, no erase */
        const char *t = "C11 PAGE";
        for (int i = 0; t[i]; i++) s->data[10 + i] = vbi_par8(t[i]);
}

static const char KEY_NOREQ[] = "teletext page acquired although no handler requests TTX_PAGE";
static const char KEY_GAP[]   = "teletext page acquired although TTX_PAGE was not requested throughout its transmission";

/* BCD page number xx of the n-th page sent, fresh for every page: 01..09, 11..19, ... 71..79 */
static int next_page(void) { int n = G.npage++ % 72; return ((n / 9) << 4) | (n % 9 + 1); }

/* One complete page Mxx in one vbi_decode call: header, row 1, then the time filling header MFF which
 * terminates the page and leaves the magazine idle.  Pages above 199 in parallel mode are no rolling header
 * candidates, so store_lop() stores and raises directly.  M = 2, in the phases which also send a page in
 * pieces (tx-open / tx-close, magazine 2) M = 3: parallel mode, the page in flight in magazine 2 is not
 * touched, but callbacks of this page's event can remove the TTX_PAGE handlers under it. */
static void do_transmit(void)
{
        int mag = (G.cfg->feat & F_SPLIT) ? 3 : 2;
        int page = next_page(), pgno = mag * 0x100 + page;
        vbi_sliced s[3];
        ttx_header(&s[0], mag, page);
        ttx_packet(&s[1], mag, 1);
        for (int i = 0; i < 5; i++) s[1].data[2 + i] = vbi_par8("HELLO"[i]);
        ttx_header(&s[2], mag, 0xFF);
        int wanted = (model_union() & VBI_EVENT_TTX_PAGE) != 0;
        decode_begin();
        if (wanted) add_stage(VBI_EVENT_TTX_PAGE, pgno, ST_MUST);
        else { G.forbid_pgno = pgno; G.forbid_key = KEY_NOREQ; }
        decode_run(s, 3);
        int cached = vbi_is_cached(G.vbi, pgno, VBI_ANY_SUBNO);
        char d[80]; snprintf(d, sizeof d, "page %x cached=%d, handler wanting TTX_PAGE registered=%d", pgno, cached, wanted);
        if (!G.bad && wanted && !cached) { G.in_delivery = 0; fail("teletext page not acquired although a TTX_PAGE handler is registered", d); }
        if (!G.bad && !wanted && cached) { G.in_delivery = 0; fail(KEY_NOREQ, d); }
        if (!G.bad) outcome(wanted ? O_TX_ACQ : O_TX_NOT_ACQ);
        decode_finish();
}

/* -- a page sent in pieces (seed C11 round 5): tx-open = header 2xx + row 1 (one decode call), tx-close =
 *    the time filling header 2FF (one decode call); registry calls, raises, transmissions in magazine 3
 *    and 8/30 packets may come between.  tx-open while a page is in flight is the header of the next page:
 *    it terminates the page in flight and opens another.
 *    Reference: the page in flight is acquired (cached + exactly one TTX_PAGE event with its number) iff
 *    some registration requested TTX_PAGE at every moment from the decode call of its header to the decode
 *    call of the terminating header; if TTX_PAGE was not requested at some moment in between it is neither
 *    cached nor announced, also when a handler is registered again before the terminating header. */
static void air_expect(int air, int pgno)
{
        if (air == AIR_CLEAN) add_stage(VBI_EVENT_TTX_PAGE, pgno, ST_MUST);
        else if (air == AIR_UNDEF) add_stage(VBI_EVENT_TTX_PAGE, pgno, ST_OPTIONAL);
        else if (air == AIR_TAINTED) { G.forbid_pgno = pgno; G.forbid_key = KEY_GAP; }
}
static void air_check(int air, int pgno, int ops, int taint_cb)
{
        if (G.bad || air == AIR_NONE) return;
        int cached = vbi_is_cached(G.vbi, pgno, VBI_ANY_SUBNO);
        int wanted = (model_union() & VBI_EVENT_TTX_PAGE) != 0;
        char d[160]; snprintf(d, sizeof d, "page %x (sent in pieces) cached=%d, TTX_PAGE requested throughout=%d, requested at the terminating header=%d, registry calls while in flight=%d",
                              pgno, cached, air == AIR_CLEAN, wanted, ops);
        if (air == AIR_CLEAN && !cached) { G.in_delivery = 0; fail("teletext page in flight lost although a TTX_PAGE handler was registered throughout its transmission", d); return; }
        if (air == AIR_TAINTED && cached) { G.in_delivery = 0; fail(KEY_GAP, d); return; }
        if (air == AIR_CLEAN && ops) outcome(O_AIR_KEPT);
        if (air == AIR_TAINTED && wanted) { static int sampled; if (!sampled++) mc_sample("page sent in pieces: %s => page %x neither cached nor announced (last TTX_PAGE handler gone %s while it was in flight)", hist_str(), pgno, taint_cb ? "inside a callback" : "at top level"); }
        if (air == AIR_TAINTED) outcome(wanted ? (taint_cb ? O_AIR_GAP_CB : O_AIR_GAP_TOP) : O_AIR_LEFT);
        if (air == AIR_UNDEF) outcome(O_AIR_UNDEF);
}
static void do_tx_open(void)
{
        int page = next_page(), pgno = 0x200 + page;
        vbi_sliced s[2];
        ttx_header(&s[0], 2, page);
        ttx_packet(&s[1], 2, 1);
        for (int i = 0; i < 5; i++) s[1].data[2 + i] = vbi_par8("HELLO"[i]);
        int wanted = (model_union() & VBI_EVENT_TTX_PAGE) != 0;
        int air = G.air, apgno = G.air_pgno, ops = G.air_ops, tcb = G.air_taint_cb;
        decode_begin();
        air_expect(air, apgno);
        G.air = AIR_NONE;                               /* the page in flight is settled when this call starts */
        decode_run(s, 2);
        air_check(air, apgno, ops, tcb);
        /* the page opened by this call; a gap inside the call can only come from callbacks of the terminated page's event */
        G.air_pgno = pgno; G.air_ops = 0; G.air_taint_cb = 0;
        if (!wanted) G.air = AIR_TAINTED;               /* header not even looked at */
        else if (!G.gap_in_decode) G.air = AIR_CLEAN;
        else if (model_union() & VBI_EVENT_TTX_PAGE) G.air = AIR_UNDEF;
        else { G.air = AIR_TAINTED; G.air_taint_cb = 1; }
        decode_finish();
}
static void do_tx_close(void)
{
        vbi_sliced s[1];
        ttx_header(&s[0], 2, 0xFF);
        int air = G.air, apgno = G.air_pgno, ops = G.air_ops, tcb = G.air_taint_cb;
        decode_begin();
        air_expect(air, apgno);
        G.air = AIR_NONE; G.air_ops = 0; G.air_taint_cb = 0;
        decode_run(s, 1);
        air_check(air, apgno, ops, tcb);
        decode_finish();
}

/* -- Teletext packet 8/30 (seed C11 round 5): one vbi_decode call which raises up to three events of
 *    different types.  Format 1 (bsd1): NETWORK and NETWORK_ID when the network is identified (the second
 *    packet with the same CNI after the identification state was reset; CNI 3201 / 1601 = id 1 in the
 *    library's table for both formats, so the identification never changes and no channel switch is
 *    assumed), then LOCAL_TIME with every packet.  Format 2 (bsd2): the same, then PROG_ID. */
static void bsd_packet(vbi_sliced *s, int fmt)
{
        memset(s, 0, sizeof *s);
        s->id = VBI_SLICED_TELETEXT_B; s->line = 7;
        uint8_t *p = s->data;
        p[0] = vbi_ham8(((30 << 3) | 0) & 15); p[1] = vbi_ham8(((30 << 3) | 0) >> 4);     /* magazine 8, packet 30 */
        p[2] = vbi_ham8(fmt == 1 ? 0 : 2);                                              /* designation code */
        for (int i = 3; i < 9; i++) p[i] = vbi_ham8(0);                                 /* initial page */
        for (int i = 9; i < 42; i++) p[i] = vbi_par8(' ');
        if (fmt == 1) {
                p[9] = vbi_rev8(0x32); p[10] = vbi_rev8(0x01);                          /* CNI 3201 */
                p[11] = 0;                                                              /* time offset 0 */
                p[12] = 0x06; p[13] = 0x99; p[14] = 0x5A;                               /* MJD 58849 + 0x11111 */
                p[15] = 0x23; p[16] = 0x45; p[17] = 0x67;                               /* 12:34:56 + 0x111111 */
        } else {
                /* EN 300 706 9.8.2: bytes 6..12 as nibbles, Hamming 8/4, bits reversed; LCI 0, PIL 0, CNI 1601 */
                unsigned cni = 0x1601, B[13]; memset(B, 0, sizeof B);
                B[7]  = (cni >> 12) & 15;
                B[8]  = ((cni >> 6) & 3) << 6;
                B[10] = (cni >> 10) & 3;
                B[11] = (((cni >> 8) & 3) << 6) | (cni & 0x3F);
                p[9] = vbi_ham8(vbi_rev8(B[6] << 4) & 15);
                for (int i = 7; i <= 12; i++) { unsigned r = vbi_rev8(B[i]); p[2 * i - 4] = vbi_ham8(r & 15); p[2 * i - 3] = vbi_ham8(r >> 4); }
        }
}
static void do_bsd(int fmt)
{
        vbi_sliced s; bsd_packet(&s, fmt);
        decode_begin();
        add_stage(VBI_EVENT_NETWORK, 0, ST_OPTIONAL);
        add_stage(VBI_EVENT_NETWORK_ID, 0, ST_OPTIONAL);
        add_stage(fmt == 1 ? VBI_EVENT_LOCAL_TIME : VBI_EVENT_PROG_ID, 0, ST_MUST);
        decode_run(&s, 1);
        int seen = G.stages_seen;
        decode_finish();
        if (!G.bad && seen == 7) outcome(fmt == 1 ? O_BSD1_ALL : O_BSD2_ALL);
}

/* ---- canonical state ------------------------------------------------------ */

static int fn_index(vbi_event_handler h) { for (int f = 0; f < NF; f++) if (h == FN[f]) return f; return 7; }
static int ud_index(void *p) { for (int u = 0; u < NU; u++) if (p == &udtag[u]) return u; return 7; }

static const int PERM3[6][3] = { {0,1,2},{0,2,1},{1,0,2},{1,2,0},{2,0,1},{2,1,0} };

static void canonical_hash(int prefix, uint64_t out[2])
{
        struct { int f, u, mask; } rl[NH + 4]; int n = 0;
        for (struct event_handler *eh = G.vbi->handlers; eh && n < NH + 4; eh = eh->next, n++) {
                rl[n].f = fn_index(eh->handler); rl[n].u = ud_index(eh->user_data); rl[n].mask = eh->event_mask;
        }
        uint64_t best[2] = { ~0ull, ~0ull };
        for (int p = 0; p < 12; p++) {
                const int *pf = PERM3[p % 6]; int sw = p / 6;
#define PF(f) ((f) < NF ? pf[f] : (f))
#define PU(u) ((u) < NU ? ((u) ^ sw) : (u))
                int v[128], k = 0;
                v[k++] = n;
                for (int i = 0; i < n; i++) { v[k++] = PF(rl[i].f); v[k++] = PU(rl[i].u); v[k++] = rl[i].mask; }
                v[k++] = G.vbi->event_mask;
                v[k++] = G.vbi->next_handler != NULL;
                v[k++] = G.nsc;
                for (int i = 0; i < G.nsc; i++) {
                        struct letter o = G.sc[i].l;
                        v[k++] = PF(G.sc[i].h / 2); v[k++] = PU(G.sc[i].h % 2);
                        v[k++] = o.kind; v[k++] = PF(o.f); v[k++] = o.kind == K_REMOVE ? 0 : PU(o.u); v[k++] = o.mi;
                }
                v[k++] = G.arms_used >= G.cfg->max_scripts;        /* only "may another action be scripted" matters */
                v[k++] = prefix < 0 ? -1 : PF(prefix / 2) * 2 + PU(prefix % 2);
                /* page in flight (model and decoder), network identification state: what tx-close / bsd do next */
                v[k++] = G.air;
                v[k++] = G.vbi->vt.raw_page[2].page->function;
                const vbi_network *nw = &G.vbi->network.ev.network;
                v[k++] = nw->cycle; v[k++] = nw->cni_8301 != 0; v[k++] = nw->cni_8302 != 0; v[k++] = nw->nuid != 0;
#undef PF
#undef PU
                mc_hash h; mc_hash_init(&h); mc_hash_add(&h, v, k * sizeof v[0]);
                if (h.a < best[0] || (h.a == best[0] && h.b < best[1])) { best[0] = h.a; best[1] = h.b; }
        }
        out[0] = best[0]; out[1] = best[1];
}

static void compare_list_with_model(void)
{
        int i = 0; struct event_handler *eh;
        for (eh = G.vbi->handlers; eh && i < G.nr; eh = eh->next, i++)
                if (fn_index(eh->handler) != G.r[i].f || ud_index(eh->user_data) != G.r[i].u || eh->event_mask != G.r[i].mask) break;
        if (eh || i != G.nr) {
                char d[300]; size_t o = 0; o += snprintf(d, sizeof d, "real list:"); int k = 0;
                for (eh = G.vbi->handlers; eh && k < NH + 4 && o + 40 < sizeof d; eh = eh->next, k++)
                        o += snprintf(d + o, sizeof d - o, " (f%d,u%d,%x)", fn_index(eh->handler), ud_index(eh->user_data), (unsigned) eh->event_mask);
                fail("handler list differs from the registration history", d);
        }
}

/* ---- one history ------------------------------------------------------------ */

static int pruned(uint64_t hash[2], int why)
{
        hash[0] = 0xC11DEAD; hash[1] = 1;        /* one shared pseudo state for all pruned letters */
        mc_count("letters_pruned", 1);
        return 1;
}

static int run(const uint8_t *hist, int n, uint64_t hash[2], void *arg)
{
        const struct cfg *cfg = arg;
        /* syntax: in(h): must be followed by a call letter; at most max_scripts of them */
        int nin = 0;
        for (int i = 0; i < n; i++) {
                if (hist[i] >= cfg->nl) return pruned(hash, 0);
                if (cfg->L[hist[i]].kind == K_IN) {
                        if (++nin > cfg->max_scripts) return pruned(hash, 1);
                        if (i + 1 < n && (hist[i + 1] >= cfg->nl || !IS_OP(&cfg->L[hist[i + 1]]))) return pruned(hash, 2);
                        i++;
                }
        }

        memset(&G, 0, sizeof G);
        G.hist = hist; G.n = n; G.cfg = cfg;
        mc_case("event registry, top level", "n=%d", n);
        G.vbi = vbi_decoder_new();
        if (!G.vbi) { fprintf(stderr, "C11: vbi_decoder_new failed\n"); exit(42); }
        for (int i = 0; i < cfg->ninit; i++) {
                struct letter l = { K_REG, cfg->init[i].f, cfg->init[i].u, cfg->init[i].mi };
                exec_op(&l, 0);
        }

        int prefix = -1, dead = 0, nbsd[3] = { 0, 0, 0 };
        for (int i = 0; i < n && !G.bad; i++) {
                const struct letter *l = &cfg->L[hist[i]];
                switch (l->kind) {
                case K_IN: {
                        int h = l->f * NU + l->u;
                        if (find_rec(l->f, l->u) < 0) { dead = 1; break; }       /* only a registered handler can be scripted */
                        if (i + 1 == n) { prefix = h; break; }
                        G.sc[G.nsc].h = h; G.sc[G.nsc].l = cfg->L[hist[++i]]; G.nsc++; G.arms_used++;
                        break; }
                case K_RAISE:   do_raise(TYPES[l->mi]); break;
                case K_TX:      do_transmit(); break;
                case K_TXOPEN:  do_tx_open(); break;
                case K_TXCLOSE: do_tx_close(); break;
                case K_BSD1:    do_bsd(1); nbsd[1]++; break;
                case K_BSD2:    do_bsd(2); nbsd[2]++; break;
                default:        exec_op(l, 0); break;
                }
                if (dead || prefix >= 0) break;
        }
        if (dead) { vbi_decoder_delete(G.vbi); return pruned(hash, 3); }

        if (!G.bad) compare_list_with_model();
        canonical_hash(prefix, hash);
        int calls_in_history = G.ncalls;

        /* probes on the object that is discarded anyway (pending scripts fire): a raise of each type of the
         * phase; two 8/30 packets of each format (the second of a format is the one which identifies the
         * network unless it is identified already; the format seen more often in the history goes first,
         * format 1 on a tie); the terminating header of a page still in flight; one complete page */
        for (int t = 0; t < cfg->nraise && !G.bad; t++) do_raise(TYPES[t]);
        if (cfg->feat & F_BSD) {
                int first = nbsd[2] > nbsd[1] ? 2 : 1;
                for (int k = 0; k < 4 && !G.bad; k++) do_bsd(k < 2 ? first : 3 - first);
        }
        if ((cfg->feat & F_SPLIT) && !G.bad && G.air != AIR_NONE) do_tx_close();
        if ((cfg->feat & F_TX) && !G.bad) do_transmit();
        if (!G.bad) compare_list_with_model();

        vbi_decoder_delete(G.vbi); G.vbi = NULL;

        mc_count("evaluations", 1);
        if (G.ncalls) mc_count("callbacks_audited", G.ncalls);
        if (G.nscripts_run) mc_count("callback_actions_run", G.nscripts_run);
        if (G.fixups) mc_count("cursor_fixup_reached", G.fixups);
        if (calls_in_history || G.nscripts_run) mc_distinct(hash[0] ^ (hash[1] * 0x9E3779B97F4A7C15ull));
        if (G.nscripts_run == 2 && n >= 4) mc_sample("two callback actions: %s", hist_str());
        return G.bad ? 1 : 0;
}

/* ---- main --------------------------------------------------------------------- */

#define REGISTRY_ALPHABET .nf = 3, .nu = 2, .nm = 5, .m = { 0, 1, 2, 3, 4 }, .nraise = 3, .feat = F_TX
/* seed C11 round 5 (1): pages sent in pieces.  2 functions x 2 user pointers x masks {TTX, CC, TTX|CC}, raise of
 * TTX_PAGE / CAPTION, a complete page in magazine 3, tx-open, tx-close */
#define GATE_ALPHABET .nf = 2, .nu = 2, .nm = 3, .m = { 0, 1, 2 }, .nraise = 2, .feat = F_TX | F_SPLIT
/* seed C11 round 5 (2): decode calls which raise several events.  2 functions x 2 user pointers x masks
 * {NETWORK|NETWORK_ID, NETWORK_ID, LOCAL_TIME, PROG_ID, -1}, packet 8/30 format 1 and format 2 */
#define BSD_ALPHABET .nf = 2, .nu = 2, .nm = 5, .m = { 5, 6, 7, 8, 3 }, .nraise = 0, .feat = F_BSD
static struct cfg CFGS[] = {
        /* everything from the empty registry */
        { "registry-empty",         0, { {0} },                                 { 5, 6 }, 2, REGISTRY_ALPHABET },
        /* populated lists (so that two scripted actions + raises fit into the depth):
         * two records sharing a function + a third (legacy add/remove collide with register) */
        { "registry-list-f0f0f1",   3, { {0,0,3}, {0,1,3}, {1,0,3} },           { 4, 5 }, 2, REGISTRY_ALPHABET },
        /* three different functions */
        { "registry-list-f0f1f2",   3, { {0,0,3}, {1,0,3}, {2,0,3} },           { 3, 4 }, 2, REGISTRY_ALPHABET },
        /* different masks: TTX only / everything / CC only */
        { "registry-list-mixed",    3, { {0,0,0}, {1,0,3}, {0,1,1} },           { 3, 4 }, 2, REGISTRY_ALPHABET },
        /* four records, two pairs sharing a function */
        { "registry-list-f0f0f1f1", 4, { {0,0,3}, {0,1,3}, {1,0,3}, {1,1,3} }, { 3, 4 }, 2, REGISTRY_ALPHABET },
        /* page in flight while the registry changes */
        { "gate-empty",             0, { {0} },                                 { 4, 5 }, 2, GATE_ALPHABET },
        { "gate-list",              2, { {0,0,0}, {1,0,1} },                    { 4, 5 }, 2, GATE_ALPHABET },   /* TTX ; CC */
        /* deeper with one function x 2 user pointers x masks {TTX, CC}: callbacks which remove and register the
         * TTX_PAGE handler while a page is in flight */
        { "gate-callbacks",         1, { {0,0,0} },                             { 6, 7 }, 2, .nf = 1, .nu = 2, .nm = 2, .m = { 0, 1 }, .nraise = 2, .feat = F_TX | F_SPLIT },
        /* several events from one decode call */
        { "bsd-empty",              0, { {0} },                                 { 4, 5 }, 2, BSD_ALPHABET },
        { "bsd-list",               2, { {0,0,5}, {0,1,6} },                    { 3, 4 }, 2, BSD_ALPHABET },    /* NETWORK|NETWORK_ID ; NETWORK_ID, one function */
};
#define NCFG ((int) (sizeof CFGS / sizeof *CFGS))
#define NREGISTRY 5     /* CFGS[0..5) are the registry-* phases */

/* One written-out scenario, run in the parent: shows that scripted actions really run inside the
 * library's traversal and reach the cursor fix-up, and gives the evidence file a readable sample. */
static void self_check(void)
{
        static const uint8_t h[] = { 0 * FS + 0 * NM + 3, 1 * FS + 0 * NM + 3, 0 * FS + 1 * NM + 3,      /* reg(f0,u0,ALL) reg(f1,u0,ALL) reg(f0,u1,ALL) */
                                     L_IN + 0, L_UNREG + 1 * 2 + 0,                                /* in(f0,u0): unreg(f1,u0) */
                                     L_RAISE + 1 };                                                /* raise(CAPTION) */
        uint64_t hash[2];
        /* first in a child: on a tree that breaks the property this very scenario may trip the audit or ASan - that is a
         * verdict for the exploration below to find and key, not a machinery error */
        fflush(NULL);
        pid_t pid = fork();
        if (pid == 0) {
                int rc0 = run(h, sizeof h, hash, (void *) &CFGS[0]);
                static const unsigned char want0[10] = { 0, 1, 0, 1, 0, 1, 0, 1, 0, 1 };
                if (rc0 || G.bad) _exit(3);
                _exit((G.fixups != 1 || G.nscripts_run != 1 || G.nlog != 10 || memcmp(G.log, want0, 10)) ? 4 : 0);
        }
        int st = 0; waitpid(pid, &st, 0);
        if (!(WIFEXITED(st) && (WEXITSTATUS(st) == 0 || WEXITSTATUS(st) == 4))) {
                mc_note("self check scenario (a callback unregisters the next handler) fails on this tree: left to the exploration");
                return;
        }
        int rc = run(h, sizeof h, hash, (void *) &CFGS[0]);
        /* history: (f0,u0) [removes next] (f0,u1); probes: 3 raises + 1 transmission x 2 handlers */
        static const unsigned char want[10] = { 0, 1, 0, 1, 0, 1, 0, 1, 0, 1 };
        if (rc || G.bad || G.fixups != 1 || G.nscripts_run != 1 || G.nlog != 10 || memcmp(G.log, want, 10)) {
                fprintf(stderr, "C11: harness self check failed (rc=%d bad=%d fixups=%d scripts=%d calls=%d)\n", rc, G.bad, G.fixups, G.nscripts_run, G.nlog);
                exit(2);
        }
        mc_sample("self check: %s => calls (f0,u0)[unregisters the next handler (f1,u0) from inside the callback] (f0,u1); (f1,u0) never called again in the 4 probe deliveries", hist_str());
}

int main(int argc, char **argv)
{
        mc_init(argc, argv, "C11");
        for (int i = 0; i < NCFG; i++) build_cfg(&CFGS[i]);
        if (CFGS[0].nl != NLETTERS || CFGS[0].L[L_IN].kind != K_IN || CFGS[0].L[L_TX].kind != K_TX || CFGS[0].L[L_UNREG].kind != K_UNREG) {
                fprintf(stderr, "C11: registry alphabet numbering changed\n"); exit(2);
        }
        mc_set_budget(300, 1500);
        mc_meta("level", "model_checking");
        mc_meta("technique", "explicit-state BFS over call histories on the real vbi_decoder event registry, list model oracle driven by the real callbacks (real decode calls are audited stage by stage: one call may raise several events, a page may span several calls), AddressSanitizer for freed records");
        mc_meta("rule", "a case is a history over the alphabet of its phase family, replayed on a fresh decoder, audited call by call, then probed. "
                "registry-*: 79 letters (30 register = 3 functions x 2 user pointers x masks {TTX, CC, TTX|CC, -1, TRIGGER|NETWORK}, 6 unregister, 30 legacy add, 3 legacy remove, 3 raise, 1 real Teletext transmission, "
                "6 'in handler h:' prefixes that script the following call into h's next invocation; <=2 scripted calls). "
                "gate-*: %d letters (2 functions x 2 user pointers x masks {TTX, CC, TTX|CC}; raise TTX_PAGE / CAPTION, a complete page in magazine 3, tx-open = header + row of a page in magazine 2, "
                "tx-close = its terminating header, 'in handler h:'; gate-callbacks: %d letters, 1 function x 2 user pointers x {TTX, CC}). "
                "bsd-*: %d letters (2 functions x 2 user pointers x masks {NETWORK|NETWORK_ID, NETWORK_ID, LOCAL_TIME, PROG_ID, -1}; Teletext packet 8/30 format 1 and format 2 = decode calls raising up to 3 events, 'in handler h:'). "
                "states are canonical (ordered (function,user pointer,mask) list, event_mask, pending scripts, page in flight, network identification state) modulo renaming of functions and user pointers; "
                "non-trivial = at least one callback was delivered or a scripted action ran",
                CFGS[5].nl, CFGS[7].nl, CFGS[8].nl);
        mc_meta("assume", "the registry compares handler functions and user pointers for equality only (justifies the symmetry reduction over the 3 functions x 2 user pointers)");
        mc_meta("assume", "unregister+register of the same (function,user pointer) inside one delivery creates a new registration, which 'may be called at most once for that event' like any handler added during delivery");
        mc_meta("assume", "a mask change that drops the event type before the handler's turn counts as removal for that type; one that adds it counts as added during delivery (0 or 1 calls accepted)");
        mc_meta("assume", "vbi_send_event / vbi_decode are not called from inside a handler (documented as not allowed), so callback nesting depth is 1; the event mutex is not recursive");
        int tier = mc_tier == MC_THOROUGH;
        char bound[900]; size_t o = 0;
        for (int i = 0; i < NCFG; i++)
                o += snprintf(bound + o, sizeof bound - o, "%s%s: <=%d letters", i ? "; " : "", CFGS[i].name, CFGS[i].depth[tier]);
        mc_meta("assume", "a page whose transmission falls partly into a period without TTX_PAGE handler is not acquired at all (the library resets the Teletext decoder when TTX_PAGE is activated); if the period lies inside the decode call of the page's own header the page is not compared");
        mc_meta("assume", "whether a packet 8/30 raises NETWORK / NETWORK_ID is network identification, outside C11: such deliveries are audited when they happen, not demanded; LOCAL_TIME (format 1) and PROG_ID (format 2) are due with every packet if a registration wants them");
        mc_meta("bound", "%s; <=2 scripted callback actions; every history followed by the probes of its family (registry: 3 raises + 1 transmission; gate: 2 raises + terminating header + 1 transmission; bsd: 4 packets 8/30); one page in flight at a time (magazine 2), one network (CNI 3201 / 1601)", bound);

        if (!mc_replaying) self_check();
        /* the small phase families first: under a global deadline the big registry-* phases are the ones to be cut short */
        for (int k = 0; k < NCFG; k++) {
                int i = (k + NREGISTRY) % NCFG;
                mc_bfs_spec spec; memset(&spec, 0, sizeof spec);
                spec.nletters = CFGS[i].nl; spec.max_depth = CFGS[i].depth[tier]; spec.timeout_s = 6;
                spec.run = run; spec.arg = (void *) &CFGS[i]; spec.letter_name = letter_name;
                mc_bfs_result res;
                mc_bfs(CFGS[i].name, &spec, &res);
        }
        return mc_finish();
}
