/* C18 - each proxy client gets every captured frame, filtered to its services, in order.
 *
 * System under exploration: daemon/proxyd.c (unmodified, #included through proxyd_env.h) with the
 * real src/proxy-msg.c, a scripted capture object and real AF_UNIX socketpairs.  EVERY select()
 * CALL OF THE DAEMON'S MAIN LOOP IS A SCHEDULING POINT: the hook lists the environment events that
 * are enabled there and asks the E1 explorer (mc_choose) which one happens.  Choice 0 is the
 * canonical schedule (daemon first; then clients read; then client script steps alternate with
 * capture frames); every other choice is a deviation, and ALL schedules with <= B deviations are run
 * to completion (mc_explore).  Events:
 *   RUN        let the daemon handle what select() reports ready
 *   DRAIN c    client c reads everything in its socket      (PART: only the next 100 bytes)
 *   STEP c     client c performs the next action of its script: connect, CONNECT_REQ(services,
 *              strict), SERVICE_REQ(reset?, services, strict), CLOSE_REQ, abrupt close
 *              (HALF: only the first 5 bytes of the message now, the rest at its next step)
 *   FRAME      the capture device has the next frame ready
 *   SENDCAP    the next send() of the daemon accepts only 10 bytes (partial write)
 * Not choosing DRAIN for a client is how a client falls behind.
 *
 * Phase "sched": small scripts (2-3 clients, 4-5 frames), deviation bound B, full ledger oracle.
 * Phase "stall": 36 frames, daemon started with -buffers 1..2, one client stops reading from frame a
 *   to frame b (every a < b on a grid) while the others keep up - drives the queue into
 *   vbi_proxy_queue_force_free(); optional third client changes services meanwhile.
 *
 * ORACLE (ledger, independent of the daemon's bookkeeping).  The capture object knows the instant the
 * daemon takes frame k; the harness knows every byte each client has sent and (bytes sent - bytes
 * unread) how much of it the daemon has consumed, hence which of the client's requests are processed
 * at that instant; the granted services are modelled as (accumulated requested services) & (services
 * of the device).  Client c is owed frame k iff its CONNECT_REQ was processed before k was taken, it
 * had not closed, and its grant was not empty; the frame must arrive exactly once, in capture order,
 * with k's timestamp and exactly the lines of k whose id is in the grant at that instant.  Frames not
 * yet read by the client when it sends a SERVICE_REQ / CLOSE_REQ / closes are optional from then on
 * (the property allows the daemon to drop what is still queued), frames owed to a client while it is
 * in a declared stall (phase "stall") are optional as well; optional frames, if they arrive, must
 * still be correct and in order.  Nothing else may arrive.  Queue invariants at every select():
 * each queued buffer's ref_count equals the number of client cursors at or before it, every cursor
 * points into the queue, free and queued lists are disjoint.  Device: open iff some processed client
 * has a non-empty grant (checked whenever the daemon is idle), last committed service union equals
 * the union of the grants; at the end everything is closed and freed.
 */
#include <stdio.h>
#include <stdlib.h>
#include <string.h>
#include <stddef.h>
#include <errno.h>
#include <sys/ioctl.h>
#include "mc.h"
#include "proxyd_env.h"

#define NCL 3
#define MAXSTEPS 8
#define MAXFR 64

enum { A_END, A_CONNECT, A_CONREQ, A_SVCREQ, A_CLOSE, A_DROP, A_FLUSH };   /* A_FLUSH: CHN_NOTIFY_REQ with VBI_PROXY_CHN_FLUSH ("I changed the channel"): the daemon drops every queued frame of every client */
struct step { int act; unsigned services; int strict; int reset; };
struct script { int nclients; int nframes; struct step s[NCL][MAXSTEPS]; const char *name; };

#define TTX VBI_SLICED_TELETEXT_B
#define VPS VBI_SLICED_VPS
#define CC  VBI_SLICED_CAPTION_625
#define WSS VBI_SLICED_WSS_625

static const struct script scripts[] = {
        { 2, 4, { { {A_CONNECT}, {A_CONREQ, TTX | VPS, 0}, {A_CLOSE}, {A_END} },
                  { {A_CONNECT}, {A_CONREQ, WSS | CC, 1}, {A_SVCREQ, TTX, 0, 0}, {A_DROP}, {A_END} } }, "2 clients: TTX|VPS close; WSS|CC +TTX drop" },
        { 3, 4, { { {A_CONNECT}, {A_CONREQ, TTX, 0}, {A_END} },
                  { {A_CONNECT}, {A_CONREQ, VPS, 2}, {A_SVCREQ, WSS, 1, 1}, {A_CLOSE}, {A_END} },
                  { {A_CONNECT}, {A_CONREQ, CC | TTX, -1}, {A_DROP}, {A_END} } }, "3 clients: TTX stays; VPS reset->WSS close; CC|TTX drop" },
        { 2, 5, { { {A_CONNECT}, {A_CONREQ, 0, 0}, {A_SVCREQ, VPS | WSS, 0, 0}, {A_SVCREQ, 0, 0, 1}, {A_CLOSE}, {A_END} },
                  { {A_CONNECT}, {A_CONREQ, TTX, 0}, {A_DROP}, {A_CONNECT}, {A_CONREQ, CC, 1}, {A_END} } }, "2 clients: none->VPS|WSS->none close; TTX drop, reconnect CC" },
        { 2, 4, { { {A_CONNECT}, {A_CONREQ, VBI_SLICED_TELETEXT_B_525 | VBI_SLICED_CAPTION_525, 0}, {A_SVCREQ, TTX, 0, 0}, {A_END} },
                  { {A_CONNECT}, {A_CONREQ, TTX | VPS | CC | WSS, 1}, {A_SVCREQ, VPS, 2, 1}, {A_END} } }, "2 clients: unsupported services rejected then TTX; all -> VPS only" },
        { 2, 7, { { {A_CONNECT}, {A_CONREQ, TTX | VPS, 0}, {A_FLUSH}, {A_END} },
                  { {A_CONNECT}, {A_CONREQ, WSS | CC, 1}, {A_SVCREQ, TTX, 0, 0}, {A_END} } }, "2 clients: TTX|VPS announces a channel change (flush); WSS|CC +TTX" },
};
#define NSCRIPTS ((int)(sizeof scripts / sizeof scripts[0]))

/* ---- per execution state --------------------------------------------------------------- */

enum { SK_CONREQ, SK_SVCREQ, SK_CLOSE, SK_FLUSH };
static int flush_pending;         /* CHN_NOTIFY_REQ(FLUSH) sent, not yet seen processed: whatever is captured meanwhile is queued when it is processed */
struct sent { long end; int kind; unsigned services; int reset; };

static const struct script *SC;
static struct {
        int   pc;                        /* next script step */
        int   half_sent;                 /* bytes of the next message already sent (HALF) */
        long  conn_base;                 /* tx_bytes when the current connection started */
        struct sent q[8]; int nq;        /* requests sent, not yet seen processed */
        int   subscribed;                /* CONNECT_REQ processed, connection alive (model) */
        unsigned req_services;           /* accumulated requested services (model) */
        unsigned grant;                  /* model: req_services & device services */
        int   rejected;                  /* CONNECT_REQ was for unsupported services only: daemon rejects and closes */
        int   awaiting;                  /* replies outstanding (RPC discipline of the real client library) */
        /* ledger */
        uint8_t owed[MAXFR];             /* 0 no, 1 mandatory, 2 optional */
        unsigned owed_grant[MAXFR];
        int   got[MAXFR];
        int   seen_log;                  /* log entries examined */
        int   last_frame;
        int   stall_declared;            /* phase stall: the client is not reading by script */
        int   conn_gen;
} C[NCL];
static int frames_left, last_was_step, spin_seen;
static const char *vkey = "sched";
static char sched_desc[200];
static long n_select, n_select_total;

static unsigned frame_ids(unsigned grant)
{
        return grant & (TTX | VPS | CC | WSS);
}
static int frame_nlines(unsigned grant)
{
        int n = 0; if (grant & TTX) n += 3; if (grant & VPS) n++; if (grant & CC) n++; if (grant & WSS) n++;
        return n;
}

static int unread_at_daemon(int c)
{
        int n = 0;
        if (env_clnt[c].daemon_fd < 0 || env_clnt[c].fd < 0) return 0;
        if (ioctl(env_clnt[c].daemon_fd, FIONREAD, &n)) return 0;
        return n;
}

/* which of client c's requests has the daemon consumed by now? update the model */
static void model_progress(int c)
{
        if (env_clnt[c].fd < 0 && C[c].nq == 0) return;
        PROXY_CLNT *r = env_req(c);
        long consumed = env_clnt[c].tx_bytes - unread_at_daemon(c);
        if (r && r->io.readOff > 0 && (r->io.readLen == 0 || r->io.readOff < r->io.readLen)) consumed -= r->io.readOff;
        int k = 0;
        while (k < C[c].nq && C[c].q[k].end <= consumed) {
                struct sent *m = &C[c].q[k];
                switch (m->kind) {
                case SK_CONREQ:
                        C[c].req_services = m->services; C[c].grant = m->services & ENV_DEV_SERVICES;
                        /* a request for services of which none can be captured is rejected and the connection dropped */
                        if (m->services != 0 && C[c].grant == 0) { C[c].rejected = 1; C[c].subscribed = 0; }
                        else C[c].subscribed = 1;
                        break;
                case SK_SVCREQ:
                        if (m->reset) C[c].req_services = 0;
                        C[c].req_services |= m->services; C[c].grant = C[c].req_services & ENV_DEV_SERVICES;
                        break;
                case SK_CLOSE: C[c].subscribed = 0; C[c].grant = 0; break;
                case SK_FLUSH: if (flush_pending > 0) flush_pending--; break;
                }
                k++;
        }
        if (k) { memmove(C[c].q, C[c].q + k, (C[c].nq - k) * sizeof(struct sent)); C[c].nq -= k; }
}

static void on_capture(int k)
{
        if (k >= MAXFR) return;
        for (int c = 0; c < NCL; c++) model_progress(c);
        for (int c = 0; c < NCL; c++) {
                if (C[c].subscribed && C[c].grant && env_clnt[c].fd >= 0) {
                        /* a request of the client itself is on its way (SERVICE_REQ / CLOSE_REQ sent, not yet processed):
                         * the frame will still be queued when the daemon processes it and may be dropped then */
                        C[c].owed[k] = (C[c].stall_declared || C[c].nq > 0 || flush_pending > 0) ? 2 : 1; C[c].owed_grant[k] = C[c].grant;
                }
        }
}

/* frames the client has not read yet become optional (its own request may flush them) */
static void make_unread_optional(int c)
{
        for (int k = 0; k < MAXFR; k++) if (C[c].owed[k] == 1 && !C[c].got[k]) C[c].owed[k] = 2;
}

static void viol(const char *what, const char *fmt, ...)
{
        char key[200], det[400]; va_list ap;
        snprintf(key, sizeof key, "%s: %s", vkey, what);
        va_start(ap, fmt); vsnprintf(det, sizeof det, fmt, ap); va_end(ap);
        mc_violation(key, "%s | %s | choices %s", det, sched_desc, mc_choices_str());
}

/* examine what client c has received so far */
static void examine(int c)
{
        env_client *cl = &env_clnt[c];
        for (; C[c].seen_log < cl->nlog; C[c].seen_log++) {
                env_rxmsg *m = &cl->log[C[c].seen_log];
                if (m->type == 0xFFFFFFFF) { viol("client received broken framing", "client %d len %u", c, m->len); continue; }
                if (m->type == MSG_TYPE_CONNECT_REJ) continue;
                if (m->type == MSG_TYPE_CHN_NOTIFY_CNF) { if (C[c].awaiting > 0) C[c].awaiting--; continue; }
                if (m->type == MSG_TYPE_CONNECT_CNF || m->type == MSG_TYPE_SERVICE_CNF || m->type == MSG_TYPE_SERVICE_REJ) {
                        if (C[c].awaiting > 0) C[c].awaiting--;
                        if (m->type != MSG_TYPE_SERVICE_REJ && (m->services & ~ENV_DEV_SERVICES))
                                viol("confirmation grants a service the device does not have", "client %d services %x", c, m->services);
                        continue;
                }
                if (m->type != MSG_TYPE_SLICED_IND) continue;
                int k = m->frame;
                if (k < 0 || k >= MAXFR || k >= env_cap.consumed) { viol("frame that was never captured", "client %d frame %d", c, k); continue; }
                if (!m->lines_ok) viol("frame with lines that differ from the captured lines", "client %d frame %d", c, k);
                if (!C[c].owed[k]) { viol("frame delivered to a client that was not subscribed when it was captured", "client %d frame %d", c, k); continue; }
                if (C[c].got[k]) viol("frame delivered twice", "client %d frame %d", c, k);
                if (k <= C[c].last_frame) viol("frames out of capture order", "client %d frame %d after %d", c, k, C[c].last_frame);
                C[c].got[k]++; C[c].last_frame = k;
                if (m->ids != frame_ids(C[c].owed_grant[k]) || m->nlines != frame_nlines(C[c].owed_grant[k]))
                        viol("frame not filtered to the granted services", "client %d frame %d: line ids %x (%d lines), granted %x at capture time",
                             c, k, m->ids, m->nlines, C[c].owed_grant[k]);
                double ts = 1000.0 + k * 0.04;
                if (m->timestamp < ts - 1e-9 || m->timestamp > ts + 1e-9) viol("wrong capture timestamp", "client %d frame %d", c, k);
        }
        if (cl->eof && cl->fd >= 0) {
                /* the daemon closed the connection: legitimate only after CLOSE_REQ or a rejected CONNECT_REQ */
                model_progress(c);
                if (C[c].subscribed) viol("connection of a well behaved client dropped by the daemon", "client %d", c);
                env_close(c);
        }
}

static void audit_queue(void)
{
        PROXY_DEV *d = &proxy.dev[0];
        int k = 0;
        for (PROXY_QUEUE *q = d->p_sliced; q; q = q->p_next, k++) {
                unsigned refs = 0;
                for (PROXY_CLNT *r = proxy.p_clnts; r; r = r->p_next) {
                        int pos = -1, j = 0; for (PROXY_QUEUE *x = d->p_sliced; x; x = x->p_next, j++) if (x == r->p_sliced) pos = j;
                        if (pos >= 0 && pos <= k) refs++;
                }
                if (refs != q->ref_count) { viol("queue reference count differs from the number of client cursors", "buffer %d: ref_count %u, cursors %u", k, q->ref_count, refs); break; }
                for (PROXY_QUEUE *f = d->p_free; f; f = f->p_next) if (f == q) { viol("buffer both queued and free", "buffer %d", k); break; }
                if (k > 200) { viol("queue is cyclic", "more than 200 buffers"); break; }
        }
        for (PROXY_CLNT *r = proxy.p_clnts; r; r = r->p_next) if (r->p_sliced) {
                int found = 0; for (PROXY_QUEUE *x = d->p_sliced; x; x = x->p_next) if (x == r->p_sliced) found = 1;
                if (!found) viol("client cursor points outside the queue", "fd %d", r->io.sock_fd);
        }
}

static void audit_device(void)
{
        unsigned uni = 0; int any = 0;
        for (int c = 0; c < NCL; c++) { model_progress(c); if (C[c].subscribed && env_clnt[c].fd >= 0 && C[c].nq == 0) { uni |= C[c].grant; any |= C[c].grant != 0; } else if (C[c].nq || (C[c].subscribed && env_clnt[c].fd < 0)) return; /* in transition */ }
        for (int c = 0; c < NCL; c++) if (env_clnt[c].fd < 0 && env_req(c)) return;       /* the daemon has not noticed the close yet */
        if (any != env_cap.is_open) viol("device open state differs from 'some client has services'", "open=%d, clients with services=%d", env_cap.is_open, any);
        else if (any && env_cap.last_commit_union != uni) viol("device services differ from the union of the clients' services", "device %x, union %x", env_cap.last_commit_union, uni);
}

/* ---- events ------------------------------------------------------------------------------- */

enum { EV_RUN, EV_DRAIN, EV_PART, EV_STEP, EV_HALF, EV_FRAME, EV_SENDCAP, EV_ACQ };
static int use_thread;          /* phases *-thread: the device has no select() support, the daemon uses its acquisition thread (sequentialised, see proxyd_env.h) */
struct ev { int kind, c; };
static int opt_part, opt_half, opt_sendcap;      /* which deviation kinds are offered */

static int step_enabled(int c)
{
        const struct step *st = &SC->s[c][C[c].pc];
        if (st->act == A_END) return 0;
        if (st->act == A_CONNECT) return env_clnt[c].fd < 0 && !env_clnt[c].connect_pending && env_req(c) == NULL;
        if (env_clnt[c].fd < 0) return 0;                     /* connection gone (rejected): script ends */
        if (env_clnt[c].connect_pending) return 0;
        if (st->act == A_CONREQ || st->act == A_SVCREQ || st->act == A_FLUSH) return C[c].awaiting == 0 || C[c].half_sent;
        return 1;
}

static void do_step(int c, int half)
{
        const struct step *st = &SC->s[c][C[c].pc];
        uint8_t buf[sizeof(VBIPROXY_MSG) + 64]; size_t n = 0;
        switch (st->act) {
        case A_CONNECT:
                env_connect(c); C[c].pc++;
                C[c].nq = 0; C[c].subscribed = 0; C[c].grant = 0; C[c].req_services = 0; C[c].rejected = 0; C[c].awaiting = 0;
                C[c].seen_log = 0; env_clnt[c].nlog = 0; C[c].conn_gen++;
                return;
        case A_CONREQ: { VBIPROXY_CONNECT_REQ q; char nm[8]; snprintf(nm, sizeof nm, "c%d", c);
                env_fill_connect_req(&q, nm, st->services, st->strict, 3); n = env_build_msg(buf, MSG_TYPE_CONNECT_REQ, &q, sizeof q); break; }
        case A_SVCREQ: { VBIPROXY_SERVICE_REQ q; memset(&q, 0, sizeof q); q.reset = st->reset; q.commit = 1; q.strict = st->strict; q.services = st->services;
                n = env_build_msg(buf, MSG_TYPE_SERVICE_REQ, &q, sizeof q); break; }
        case A_CLOSE: n = env_build_msg(buf, MSG_TYPE_CLOSE_REQ, NULL, 0); break;
        case A_FLUSH: { VBIPROXY_CHN_NOTIFY_REQ q; memset(&q, 0, sizeof q); q.notify_flags = VBI_PROXY_CHN_FLUSH;
                n = env_build_msg(buf, MSG_TYPE_CHN_NOTIFY_REQ, &q, sizeof q); break; }
        case A_DROP:
                make_unread_optional(c);
                env_close(c); C[c].subscribed = 0; C[c].grant = 0; C[c].nq = 0; C[c].pc++;
                return;
        }
        size_t from = C[c].half_sent, to = n;
        if (half && from == 0) to = 5;
        if (env_send_raw(c, buf + from, to - from) != (int)(to - from)) { viol("harness: socket did not take a client message", "client %d", c); return; }
        if (to < n) { C[c].half_sent = to; return; }
        C[c].half_sent = 0;
        /* the whole message is on its way */
        if (C[c].nq < 8) {
                struct sent *m = &C[c].q[C[c].nq++];
                m->end = env_clnt[c].tx_bytes; m->services = st->services; m->reset = st->reset;
                m->kind = st->act == A_CONREQ ? SK_CONREQ : st->act == A_SVCREQ ? SK_SVCREQ : st->act == A_FLUSH ? SK_FLUSH : SK_CLOSE;
        }
        if (st->act == A_SVCREQ || st->act == A_CLOSE) make_unread_optional(c);
        if (st->act == A_FLUSH) { flush_pending++; for (int o = 0; o < NCL; o++) make_unread_optional(o); }     /* every client's queued frames go */
        if (st->act == A_CONREQ || st->act == A_SVCREQ || st->act == A_FLUSH) C[c].awaiting++;
        C[c].pc++;
}

static int readable(int c) { return env_clnt[c].fd >= 0 && !env_clnt[c].stalled && env_readable(c) > 0; }
static int eof_pending(int c)
{
        if (env_clnt[c].fd < 0 || env_clnt[c].eof) return 0;
        char b; ssize_t r = recv(env_clnt[c].fd, &b, 1, MSG_PEEK | MSG_DONTWAIT);
        return r == 0;
}

static int sched_hook(int nready)
{
        struct ev E[24]; int n = 0;
        n_select++;
        audit_queue();
        /* a daemon that spins makes every execution 1500 choice points long and the deviation-bounded search explode:
         * the verdict is recorded once, the remaining executions of this worker's shard end at their first select() */
        if (spin_seen) return ENV_EXIT;
        if (n_select > 1500) { viol("daemon main loop does not go idle (spins or stops serving)", "more than 1500 select rounds in a %d frame script", SC->nframes); spin_seen = 1; return ENV_EXIT; }
        /* canonical: the acquisition thread takes a waiting frame at once, then the main loop runs */
        if (env_acq_enabled()) { E[n].kind = EV_ACQ; E[n++].c = 0; }
        if (nready > 0) { E[n].kind = EV_RUN; E[n++].c = 0; }
        for (int c = 0; c < SC->nclients; c++) if (readable(c) || eof_pending(c)) { E[n].kind = EV_DRAIN; E[n++].c = c; }
        int first_frame = last_was_step;
        int frame_ok = frames_left > 0 && env_cap.is_open && env_cap.produced - env_cap.consumed < 2;
        if (first_frame && frame_ok) { E[n].kind = EV_FRAME; E[n++].c = 0; }
        for (int c = 0; c < SC->nclients; c++) if (step_enabled(c)) { E[n].kind = EV_STEP; E[n++].c = c; }
        if (!first_frame && frame_ok) { E[n].kind = EV_FRAME; E[n++].c = 0; }
        /* deviation-only variants */
        if (opt_part) for (int c = 0; c < SC->nclients; c++) if (readable(c) && env_readable(c) > 100) { E[n].kind = EV_PART; E[n++].c = c; }
        if (opt_half) for (int c = 0; c < SC->nclients; c++) if (step_enabled(c) && !C[c].half_sent) {
                int a = SC->s[c][C[c].pc].act; if (a == A_CONREQ || a == A_SVCREQ || a == A_CLOSE || a == A_FLUSH) { E[n].kind = EV_HALF; E[n++].c = c; } }
        if (opt_sendcap && nready > 0) for (PROXY_CLNT *r = proxy.p_clnts; r; r = r->p_next) if (r->io.writeLen > 0 || r->p_sliced) { E[n].kind = EV_SENDCAP; E[n++].c = 0; break; }
        if (n == 0) {
                /* nothing can happen any more */
                return ENV_EXIT;
        }
        if (E[0].kind != EV_RUN && E[0].kind != EV_ACQ && nready == 0) audit_device();
        int k = mc_choose(n);
        switch (E[k].kind) {
        case EV_ACQ: env_acq_iteration(); return ENV_REPOLL;
        case EV_RUN: return ENV_RUN;
        case EV_DRAIN: env_read(E[k].c, -1); examine(E[k].c); return ENV_REPOLL;
        case EV_PART: env_read(E[k].c, 100); examine(E[k].c); return ENV_REPOLL;
        case EV_STEP: do_step(E[k].c, 0); last_was_step = 1; return ENV_REPOLL;
        case EV_HALF: do_step(E[k].c, 1); return ENV_REPOLL;
        case EV_FRAME: env_frame(); frames_left--; last_was_step = 0; return ENV_REPOLL;
        case EV_SENDCAP: env_send_cap = 10; return ENV_RUN;
        }
        return ENV_EXIT;
}

static void final_checks(void)
{
        for (int c = 0; c < SC->nclients; c++) {
                if (env_clnt[c].fd >= 0) { env_read(c, -1); examine(c); }
                for (int k = 0; k < MAXFR; k++)
                        if (C[c].owed[k] == 1 && !C[c].got[k])
                                viol("frame captured while the client was subscribed never arrived", "client %d frame %d (granted %x)", c, k, C[c].owed_grant[k]);
        }
}

size_t __sanitizer_get_current_allocated_bytes(void) __attribute__((weak));
static size_t heap_now(void) { return __sanitizer_get_current_allocated_bytes ? __sanitizer_get_current_allocated_bytes() : 0; }

static void close_all_and_check(void)
{
        /* everybody leaves: the device must be closed and nothing may remain */
        for (int c = 0; c < NCL; c++) if (env_clnt[c].fd >= 0) { env_read(c, -1); examine(c); env_close(c); C[c].subscribed = 0; }
        SC = &(struct script){ 0 };       /* no more script steps */
        frames_left = 0; n_select_total = n_select; n_select = 0;
        env_run();
        n_select_total += n_select;
        if (env_cap.is_open || proxy.dev[0].p_capture) viol("device still open after the last client left", "opens %d closes %d", env_cap.opens, env_cap.closes);
        if (proxy.p_clnts) viol("client records remain after all clients left", "count %d", proxy.clnt_count);
        env_shutdown();
}

static uint64_t outcome_sig(void)
{
        mc_hash h; mc_hash_init(&h);
        for (int c = 0; c < NCL; c++) { mc_hash_add(&h, C[c].owed, sizeof C[c].owed); mc_hash_add(&h, C[c].got, sizeof C[c].got); mc_hash_add(&h, C[c].owed_grant, sizeof C[c].owed_grant); }
        mc_hash_u64(&h, env_cap.opens);
        return h.a ^ h.b;
}

static mc_hset *seen_outcomes;

static void sched_body(void *arg)
{
        const struct script *sc = arg;
        SC = sc; memset(C, 0, sizeof C); flush_pending = 0; for (int c = 0; c < NCL; c++) C[c].last_frame = -1;
        frames_left = sc->nframes; last_was_step = 0; n_select = 0;
        env_cap.use_thread = use_thread; env_cap.fail_open = 0; env_buffer_count = 0;
        size_t heap0 = heap_now();
        env_init(); env_on_capture = on_capture; env_hook_fn = sched_hook;
        env_run();
        final_checks();
        uint64_t sig = outcome_sig();
        const struct script *keep = SC;
        close_all_and_check();
        SC = keep;
        if (heap_now() > heap0) mc_leak_check("sched: memory leaked after teardown");
        mc_count("states", 1); mc_count("transitions", n_select_total);
        if (mc_hset_add(seen_outcomes, sig, 1)) mc_distinct(sig);
        if (mc_deviations() == 2) mc_sample("schedule with 2 deviations of script '%s': choices %s", sc->name, mc_choices_str());
}

struct shard { int script, part, nparts, bound; };
static struct shard *shards; static int nshards, thread_shard0;

static void sched_case(uint64_t idx, void *arg)
{
        struct shard *sh = &shards[idx + (arg ? thread_shard0 : 0)];
        snprintf(sched_desc, sizeof sched_desc, "script %d '%s'", sh->script, scripts[sh->script].name);
        use_thread = arg != NULL;
        vkey = use_thread ? "sched-thread" : "sched";
        mc_case(use_thread ? "sched-thread: daemon dies" : "sched: daemon dies", "%s shard %d/%d bound %d", sched_desc, sh->part, sh->nparts, sh->bound);
        if (!seen_outcomes) seen_outcomes = mc_hset_new();
        mc_explore_shard(sched_body, (void *) &scripts[sh->script], sh->bound, sh->part, sh->nparts);
}

/* ---- phase "stall" ----------------------------------------------------------------------- */

struct stallcfg { int buffers, nclients, a, b, svcchange; };
static struct stallcfg *stalls; static int nstalls;
static struct stallcfg *ST;

static int stall_hook(int nready)
{
        n_select++;
        audit_queue();
        if (n_select > 20000) { viol("daemon main loop does not go idle", "more than 20000 select rounds"); return ENV_EXIT; }
        if (env_acq_enabled()) { env_acq_iteration(); return ENV_REPOLL; }      /* acquisition thread variant: the thread takes the frame at once */
        if (nready > 0) return ENV_RUN;
        for (int c = 0; c < ST->nclients; c++) if (readable(c) || eof_pending(c)) { env_read(c, -1); examine(c); return ENV_REPOLL; }
        for (int c = 0; c < ST->nclients; c++) if (step_enabled(c) && C[c].pc < 2) { do_step(c, 0); return ENV_REPOLL; }
        audit_device();
        int k = env_cap.produced;
        if (frames_left > 0 && env_cap.is_open) {
                /* client 0 stops reading at frame a and resumes at frame b */
                if (k == ST->a) { env_clnt[0].stalled = 1; C[0].stall_declared = 1; }
                if (k == ST->b) { env_clnt[0].stalled = 0; C[0].stall_declared = 0; }
                if (ST->svcchange && k == (ST->a + ST->b) / 2 && ST->nclients > 2 && step_enabled(2) && C[2].pc == 2) { do_step(2, 0); return ENV_REPOLL; }
                env_frame(); frames_left--; return ENV_REPOLL;
        }
        if (env_clnt[0].stalled) { env_clnt[0].stalled = 0; C[0].stall_declared = 0; return ENV_REPOLL; }
        return ENV_EXIT;
}

static const struct script stall_script = { 3, 36, {
        { {A_CONNECT}, {A_CONREQ, TTX | VPS | CC | WSS, 0}, {A_END} },
        { {A_CONNECT}, {A_CONREQ, TTX, 0}, {A_END} },
        { {A_CONNECT}, {A_CONREQ, VPS | WSS, 1}, {A_SVCREQ, CC, 0, 1}, {A_END} } }, "stall" };

static void stall_case(uint64_t idx, void *arg)
{
        ST = &stalls[idx];
        static struct script sc; sc = stall_script; sc.nclients = ST->nclients; SC = &sc;
        snprintf(sched_desc, sizeof sched_desc, "stall: -buffers %d, %d clients, client 0 does not read from frame %d to %d%s", ST->buffers, ST->nclients, ST->a, ST->b, ST->svcchange ? ", client 2 changes services meanwhile" : "");
        use_thread = arg != NULL;
        vkey = use_thread ? "stall-thread" : "stall";
        mc_case(use_thread ? "stall-thread: daemon dies" : "stall: daemon dies", "%s", sched_desc);
        memset(C, 0, sizeof C); flush_pending = 0; for (int c = 0; c < NCL; c++) C[c].last_frame = -1;
        frames_left = sc.nframes; n_select = 0;
        env_cap.use_thread = use_thread; env_cap.fail_open = 0; env_buffer_count = ST->buffers;
        env_init(); env_on_capture = on_capture; env_hook_fn = stall_hook;
        env_run();
        final_checks();
        int lost0 = 0; for (int k = 0; k < MAXFR; k++) if (C[0].owed[k] && !C[0].got[k]) lost0++;
        mc_outcome("stalled client lost %s frames", lost0 == 0 ? "no" : lost0 < 5 ? "1-4" : lost0 < 15 ? "5-14" : ">=15");
        uint64_t sig = outcome_sig();
        close_all_and_check();
        env_buffer_count = 0;
        mc_count("states", 1); mc_count("transitions", n_select_total);
        mc_distinct(sig);
        if (idx % 97 == 0) mc_sample("%s: stalled client lost %d of its frames, others complete", sched_desc, lost0);
}


/* ---- phase "conform": the REAL client library against the daemon ------------------------------
 * Binds the scripted client alphabet to src/proxy-client.c.  The daemon runs as a forked child in
 * pass-through mode (real select()/send(), listening on a real AF_UNIX socket derived from a private
 * device name); the parent drives vbi_proxy_client_create / vbi_capture_proxy_new /
 * vbi_capture_pull_sliced / vbi_capture_update_services / vbi_proxy_client_channel_request /
 * _notify / delete, posts frame k to the shared eventfd and then pulls it, strictly alternating, so
 * the run is sequential and repeatable.  Checked: (1) every frame returned by
 * vbi_capture_pull_sliced() equals the reference capture filtered to the granted services, with its
 * timestamp, exactly once and in order; (2) every message the real library sends is byte-identical
 * to the message the scripted clients of phases "sched"/"stall" (and of C19) build for the same
 * parameters, except client name and pid.  traces_validated_against_impl counts these runs. */
#include <sys/wait.h>
#include <signal.h>
#include <sys/stat.h>
#include "src/proxy-client.h"
#include "src/inout.h"
#include <sys/time.h>

static int conf_fail(const char *what, const char *fmt, ...)
{
        char key[200], det[300]; va_list ap;
        snprintf(key, sizeof key, "conform: %s", what);
        va_start(ap, fmt); vsnprintf(det, sizeof det, fmt, ap); va_end(ap);
        mc_violation(key, "%s", det);
        return -1;
}

static int conf_skip_older;
static int pull_frame(vbi_capture *cap, int k, unsigned grant, const char *who)
{
        for (int tries = 0; tries < 8; tries++) {
                vbi_capture_buffer *sb = NULL; struct timeval tv = { 30, 0 };
                int r = vbi_capture_pull_sliced(cap, &sb, &tv);
                if (r < 0) return conf_fail("vbi_capture_pull_sliced failed", "%s frame %d errno %d", who, k, errno);
                if (r == 0) continue;                      /* a status indication, or a timeout */
                env_frame_t f; env_make_frame(k, &f);
                int n = sb->size / sizeof(vbi_sliced), want = 0;
                const vbi_sliced *got = sb->data;
                /* frames that were queued when this client changed its services may still arrive (or be dropped) */
                if (conf_skip_older > 0 && n > 0 && got[0].data[0] != (uint8_t) k && (uint8_t)(k - got[0].data[0]) <= 2) { conf_skip_older--; mc_count("conform_old_frames_delivered_after_service_change", 1); tries--; continue; }
                for (int i = 0; i < f.nlines; i++) if (f.lines[i].id & grant) {
                        if (want >= n || memcmp(&got[want], &f.lines[i], sizeof(vbi_sliced)))
                                return conf_fail("frame returned by the real client library differs from the reference capture", "%s frame %d line %d", who, k, i);
                        want++;
                }
                if (want != n) return conf_fail("frame returned by the real client library has extra lines", "%s frame %d: %d lines, expected %d", who, k, n, want);
                if (sb->timestamp < f.timestamp - 1e-9 || sb->timestamp > f.timestamp + 1e-9)
                        return conf_fail("wrong timestamp through the real client library", "%s frame %d", who, k);
                return 0;
        }
        return conf_fail("frame not delivered to the real client library", "%s frame %d (no SLICED_IND within the timeout)", who, k);
}

/* compare the bytes the library just sent with the scripted builder's message: header and every NAMED
 * field of the body (compiler padding and the reserved[] members are sent uninitialised by the library
 * and are not read by the daemon; client name and pid differ by construction) */
#define FIELD(T, m) { offsetof(T, m), sizeof(((T *) 0)->m) }
struct fld { size_t off, len; };
static int tap_expect(const char *what, uint32_t type, const void *body, size_t blen, const struct fld *f, int nf)
{
        uint8_t want[sizeof(VBIPROXY_MSG) + 64]; size_t n = env_build_msg(want, type, body, blen);
        int rc = 0;
        if ((size_t) env_tap_len != n) { conf_fail("real client message has a different length than the scripted one", "%s: sent %d bytes, scripted %zu", what, env_tap_len, n); env_tap_len = 0; return -1; }
        if (memcmp(env_tap, want, 8)) { conf_fail("real client message header differs from the scripted one", "%s", what); rc = -1; }
        for (int k = 0; k < nf && !rc; k++)
                if (memcmp(env_tap + 8 + f[k].off, want + 8 + f[k].off, f[k].len)) {
                        conf_fail("real client message differs from the scripted one", "%s: field at body offset %zu (%zu bytes)", what, f[k].off, f[k].len); rc = -1;
                }
        env_tap_len = 0;
        return rc;
}
static const struct fld FL_CONNECT[] = { FIELD(VBIPROXY_CONNECT_REQ, magics), FIELD(VBIPROXY_CONNECT_REQ, client_flags), FIELD(VBIPROXY_CONNECT_REQ, scanning),
        FIELD(VBIPROXY_CONNECT_REQ, buffer_count), FIELD(VBIPROXY_CONNECT_REQ, services), FIELD(VBIPROXY_CONNECT_REQ, strict) };
static const struct fld FL_SERVICE[] = { FIELD(VBIPROXY_SERVICE_REQ, reset), FIELD(VBIPROXY_SERVICE_REQ, strict), FIELD(VBIPROXY_SERVICE_REQ, services) };
static const struct fld FL_TOKEN[] = { FIELD(VBIPROXY_CHN_TOKEN_REQ, chn_prio), FIELD(VBIPROXY_CHN_TOKEN_REQ, chn_profile.is_valid), FIELD(VBIPROXY_CHN_TOKEN_REQ, chn_profile.sub_prio),
        FIELD(VBIPROXY_CHN_TOKEN_REQ, chn_profile.allow_suspend), FIELD(VBIPROXY_CHN_TOKEN_REQ, chn_profile.min_duration), FIELD(VBIPROXY_CHN_TOKEN_REQ, chn_profile.exp_duration) };
static const struct fld FL_NOTIFY[] = { FIELD(VBIPROXY_CHN_NOTIFY_REQ, notify_flags), FIELD(VBIPROXY_CHN_NOTIFY_REQ, scanning) };
#define NF(a) ((int)(sizeof a / sizeof a[0]))

static void conform_case(uint64_t idx, void *arg)
{
        char dev[64], *sockpath; int efd;
        vkey = "conform"; snprintf(sched_desc, sizeof sched_desc, "conformance run %d", (int) idx);
        mc_case("conform: real client library run dies", "variant %d", (int) idx);
        snprintf(dev, sizeof dev, "/dev/vbi-verif-%d-%d", (int) getpid(), (int) idx);
        sockpath = vbi_proxy_msg_get_socket_name(dev);
        efd = eventfd(0, EFD_SEMAPHORE | EFD_NONBLOCK);
        unlink(sockpath);
        env_big_frames = 1;              /* both processes: a Teletext subscriber's SLICED_IND (21 lines, 1.4 KB) is the largest message on the socket */
        pid_t child = fork();
        if (child == 0) {
                /* the daemon process */
                env_passthrough = 1; env_cap.use_thread = 0; env_cap.fail_open = 0; env_buffer_count = 0;
                memset(&proxy, 0, sizeof proxy); proxy.tcp_ip_fd = -1; pthread_mutex_init(&proxy.clnt_mutex, NULL);
                opt_debug_level = 0; opt_max_clients = DEFAULT_MAX_CLIENTS; opt_buffer_count = DEFAULT_BUFFER_COUNT;
                vbi_proxy_msg_set_logging(FALSE, 0, 0, NULL);
                signal(SIGPIPE, SIG_IGN);
                vbi_proxyd_set_max_conn(opt_max_clients);
                memset(&env_cap, 0, sizeof env_cap); env_cap.efd = efd;
                vbi_proxyd_add_device(strdup(dev));
                proxy.dev[0].pipe_fd = vbi_proxy_msg_listen_socket(FALSE, NULL, proxy.dev[0].p_sock_path);
                if (proxy.dev[0].pipe_fd < 0) _exit(44);
                alarm(0); { struct itimerval it = { {0,0}, {120,0} }; setitimer(ITIMER_REAL, &it, NULL); signal(SIGALRM, SIG_DFL); }
                vbi_proxyd_main_loop();
                _exit(0);
        }
        env_passthrough = 1;
        int ok = 0; struct stat st;
        for (int i = 0; i < 3000 && !ok; i++) { if (stat(sockpath, &st) == 0) ok = 1; else usleep(2000); }
        if (!ok) { conf_fail("harness: daemon process did not start listening", "%s", sockpath); goto out; }

        {
                char *err = NULL; uint64_t one = 1;
                vbi_proxy_client *v1 = vbi_proxy_client_create(dev, "conf1", 0, &err, 0), *v2 = NULL;
                vbi_capture *c1 = NULL, *c2 = NULL;
                unsigned s1 = TTX | VPS, s2 = WSS | CC;
                if (!v1) { conf_fail("vbi_proxy_client_create failed", "%s", err ? err : "?"); goto out; }
                env_tap_on = 1; env_tap_len = 0;
                c1 = vbi_capture_proxy_new(v1, 5, 625, &s1, 0, &err);
                env_tap_on = 0;
                if (!c1 || s1 != (TTX | VPS)) { conf_fail("vbi_capture_proxy_new failed or granted other services", "services %x err %s", s1, err ? err : "-"); goto out; }
                {       /* the library's CONNECT_REQ against the scripted one */
                        VBIPROXY_CONNECT_REQ q; env_fill_connect_req(&q, "conf1", TTX | VPS, 0, 5); q.pid = 0;
                        tap_expect("CONNECT_REQ", MSG_TYPE_CONNECT_REQ, &q, sizeof q, FL_CONNECT, NF(FL_CONNECT));
                }
                if (idx >= 1) {
                        v2 = vbi_proxy_client_create(dev, "conf2", 0, &err, 0);
                        if (v2) c2 = vbi_capture_proxy_new(v2, 5, 625, &s2, 1, &err);
                        if (!c2 || s2 != (WSS | CC)) { conf_fail("second real client could not subscribe", "services %x", s2); goto out; }
                }
                int k = 0;
                for (; k < 3; k++) {
                        if (write(efd, &one, 8) != 8) goto out;
                        if (pull_frame(c1, k, s1, "client 1")) goto out;
                        if (c2 && pull_frame(c2, k, s2, "client 2")) goto out;
                }
                /* two frames are captured and sent but not yet pulled when client 1 changes its services: the change may cost
                 * these two frames (of client 1 only), nothing else */
                for (int q = 0; q < 2; q++) if (write(efd, &one, 8) != 8) goto out;
                {
                        int cfd = vbi_capture_fd(c1); fd_set rs; struct timeval tv = { 10, 0 };
                        FD_ZERO(&rs); FD_SET(cfd, &rs);
                        if (cfd < 0 || select(cfd + 1, &rs, NULL, NULL, &tv) <= 0) { conf_fail("harness: frames in flight did not reach the client socket", "fd %d", cfd); goto out; }
                        usleep(150000);          /* the second one follows within microseconds */
                }
                /* service change through the library: reset to WSS */
                env_tap_on = 1; env_tap_len = 0;
                unsigned got = vbi_capture_update_services(c1, TRUE, TRUE, WSS, 1, &err);
                env_tap_on = 0;
                if (got != WSS) { conf_fail("vbi_capture_update_services through the proxy failed (two frames waiting in the socket)", "granted %x err %s", got, err ? err : "-"); goto out; }
                if (c2) for (int q = 0; q < 2; q++) if (pull_frame(c2, k + q, s2, "client 2, frames captured before client 1 changed its services")) goto out;
                k += 2; conf_skip_older = 2;
                { VBIPROXY_SERVICE_REQ q; memset(&q, 0, sizeof q); q.reset = 1; q.commit = 1; q.strict = 1; q.services = WSS;
                  tap_expect("SERVICE_REQ", MSG_TYPE_SERVICE_REQ, &q, sizeof q, FL_SERVICE, NF(FL_SERVICE)); }
                s1 = WSS;
                for (; k < 8; k++) {
                        if (write(efd, &one, 8) != 8) goto out;
                        if (pull_frame(c1, k, s1, "client 1 after service change")) goto out;
                        if (c2 && pull_frame(c2, k, s2, "client 2")) goto out;
                }
                {       /* a service change the device cannot satisfy is rejected; the subscription continues unchanged */
                        unsigned g = vbi_capture_update_services(c1, FALSE, TRUE, VBI_SLICED_CAPTION_525, 0, &err);
                        if (g & VBI_SLICED_CAPTION_525) { conf_fail("service the device cannot capture was granted through the library", "granted %x", g); goto out; }
                        conf_skip_older = 0;
                        for (; k < 10; k++) {
                                if (write(efd, &one, 8) != 8) goto out;
                                if (pull_frame(c1, k, s1, "client 1 after a rejected service change")) goto out;
                                if (c2 && pull_frame(c2, k, s2, "client 2")) goto out;
                        }
                }
                if (idx >= 2) {
                        /* channel token through the library */
                        vbi_channel_profile pr; memset(&pr, 0, sizeof pr); pr.is_valid = 1; pr.sub_prio = 0x10; pr.min_duration = 0; pr.exp_duration = 0;
                        env_tap_on = 1; env_tap_len = 0;
                        int g1 = vbi_proxy_client_channel_request(v1, VBI_CHN_PRIO_BACKGROUND, &pr);
                        env_tap_on = 0;
                        { VBIPROXY_CHN_TOKEN_REQ q; memset(&q, 0, sizeof q); q.chn_prio = VBI_CHN_PRIO_BACKGROUND; q.chn_profile = pr;
                          tap_expect("CHN_TOKEN_REQ", MSG_TYPE_CHN_TOKEN_REQ, &q, sizeof q, FL_TOKEN, NF(FL_TOKEN)); }
                        int g2 = v2 ? vbi_proxy_client_channel_request(v2, VBI_CHN_PRIO_BACKGROUND, &pr) : 0;
                        if (g1 < 0 || g2 < 0) { conf_fail("channel request failed", "%d %d", g1, g2); goto out; }
                        if (g1 + g2 > 1) { conf_fail("two real clients both told they hold the channel token", "%d %d", g1, g2); goto out; }
                        env_tap_on = 1; env_tap_len = 0;
                        int nr = vbi_proxy_client_channel_notify(v1, VBI_PROXY_CHN_TOKEN, 0);
                        env_tap_on = 0;
                        { VBIPROXY_CHN_NOTIFY_REQ q; memset(&q, 0, sizeof q); q.notify_flags = VBI_PROXY_CHN_TOKEN; q.scanning = 0;
                          tap_expect("CHN_NOTIFY_REQ", MSG_TYPE_CHN_NOTIFY_REQ, &q, sizeof q, FL_NOTIFY, NF(FL_NOTIFY)); }
                        if (nr < 0) { conf_fail("channel notify failed", "%d", nr); goto out; }
                        for (; k < 12; k++) {
                                if (write(efd, &one, 8) != 8) goto out;
                                if (pull_frame(c1, k, s1, "client 1 after token traffic")) goto out;
                                if (c2 && pull_frame(c2, k, s2, "client 2 after token traffic")) goto out;
                        }
                }
                env_tap_on = 1; env_tap_len = 0;
                vbi_capture_delete(c1);
                vbi_proxy_client_destroy(v1);
                env_tap_on = 0;
                /* the library leaves by closing its socket, it never sends CLOSE_REQ: the scripted action is the abrupt close */
                if (env_tap_len != 0) conf_fail("real client library sent bytes while closing (scripted clients model an abrupt close)", "%d bytes", env_tap_len);
                env_tap_len = 0;
                if (c2) vbi_capture_delete(c2);
                if (v2) vbi_proxy_client_destroy(v2);
                mc_count("traces_validated", 1); mc_count("states", 1); mc_count("transitions", k);
                mc_distinct(0xC0F00000 + idx);
                mc_sample("conformance run %d: real proxy-client.c, %d client(s), %d frames pulled and compared, CONNECT_REQ/SERVICE_REQ%s fields equal the scripted builders, leaves by closing the socket", (int) idx, c2 ? 2 : 1, k, idx >= 2 ? "/CHN_TOKEN_REQ/CHN_NOTIFY_REQ" : "");
        }
out:
        kill(child, SIGKILL); { int st2; waitpid(child, &st2, 0); }
        unlink(sockpath); free(sockpath); close(efd);
        env_passthrough = 0; env_big_frames = 0;
}

/* ---------------------------------------------------------------------------------------- */

int main(int argc, char **argv)
{
        mc_init(argc, argv, "C18");
        mc_set_budget(300, 1500);
        int bound = mc_tier == MC_THOROUGH ? 3 : 2;
        opt_part = 1; opt_half = 1; opt_sendcap = 1;
        mc_meta("level", "model_checking");
        mc_meta("technique", "stateless deviation-bounded exploration (E1) of the real daemon main loop: every select() call is a scheduling point at which the explorer picks the next environment event; all schedules with <= B deviations from the canonical one are executed; frame ledger oracle independent of the daemon's bookkeeping");
        mc_meta("rule", "an execution = one complete schedule of (script, choice vector); states = executions run to completion, transitions = select() scheduling points executed; distinct = distinct ledger outcomes (who was owed / received which frame with which grant); phase stall: one execution per (buffers, clients, stall interval)");
        mc_meta("bound", "B=%d deviations (one more on script 0; quick: B=3 on script 0, B=2 on the others) over %d scripts (2-3 clients, 4-5 frames; events RUN/DRAIN/PART/STEP/HALF/FRAME/SENDCAP); sched-thread: the same scripts with the acquisition thread variant (event ACQ = one iteration of the thread loop), B=%d; stall / stall-thread: 36 frames, -buffers {1,2}, 2-3 clients, every stall interval [a,b) on a grid, both capture variants", bound, NSCRIPTS, mc_tier == MC_THOROUGH ? 3 : 2);
        mc_meta("assume", "daemon explored in-process (daemon/proxyd.c #included), one device; phases sched/stall/conform: select() variant of the capture path; phase sched-thread: acquisition thread variant with the thread sequentialised (one iteration of its loop = one environment event at a select() of the main loop; start handshake, pipe wake-up, queue hand-over and stop by cancellation + cleanup handler are the daemon's code; interleavings inside a main loop round are not explored); clients are scripted protocol actors that follow the real library's RPC discipline (one request outstanding) over real AF_UNIX socketpairs; the real proxy-client.c is not on the other end");
        mc_meta("assume", "the simulated device grants requested & {TTX_B, VPS, CC625, WSS625} at every strictness; every frame carries lines of all four services");

        /* shards: split each script's exploration by its first deviating choice point */
        /* quick: B=2 on every script and B=3 on script 0; thorough: B=3 on every script and B=4 on script 0 */
        int np = 64;
        shards = calloc(4 * NSCRIPTS * np, sizeof *shards);
        for (int s = 0; s < NSCRIPTS; s++) {
                int b = mc_tier == MC_THOROUGH ? (s == 0 ? 4 : 3) : (s == 0 ? 3 : 2);
                for (int p = 0; p < np; p++) { struct shard sh = { s, p, np, b }; shards[nshards++] = sh; }
        }
        mc_pool("sched", nshards, sched_case, NULL, 900);
        /* the same scripts with a device without select(): acquisition thread variant, one deviation less */
        { static int thr = 1; int n0 = nshards;
          for (int s = 0; s < NSCRIPTS; s++) {
                int b = mc_tier == MC_THOROUGH ? 3 : 2;
                for (int p = 0; p < np; p++) { struct shard sh = { s, p, np, b }; shards[nshards++] = sh; }
          }
          thread_shard0 = n0;
          mc_pool("sched-thread", nshards - n0, sched_case, &thr, 900); }

        int step = mc_tier == MC_THOROUGH ? 1 : 3;
        stalls = calloc(4 * 40 * 40, sizeof *stalls);
        for (int buffers = 1; buffers <= 2; buffers++) for (int ncl = 2; ncl <= 3; ncl++)
                for (int a = 1; a < 34; a += step) for (int b = a + 1; b <= 35; b += step)
                        for (int sv = 0; sv <= (ncl == 3); sv++) { struct stallcfg st = { buffers, ncl, a, b, sv }; stalls[nstalls++] = st; }
        stalls = realloc(stalls, (nstalls + 1) * sizeof *stalls);
        mc_pool("stall", nstalls, stall_case, NULL, 60);
        { static int thr = 1; mc_pool("stall-thread", nstalls, stall_case, &thr, 60); }
        mc_pool("conform", 3, conform_case, NULL, 200);
        return mc_finish();
}
