HLINK_C19 := $(PROXY_WRAP)
HDEPS_C19 := harness/proxyd_env.h
