/* C06_run.h - input frames, driving the real multiplexer, expectation model for
 * the library demultiplexer, round trip.  Included by C06.c only. */
#ifndef C06_RUN_H
#define C06_RUN_H

/* ======================================================================== */
/* reporting                                                                 */

static char CTX[1200];                  /* configuration + frame/history of the current execution */
static int  p_selftest; static char p_lastkey[200];
static int  h_bad;                      /* a violation was reported in the current execution */
static const char *p_key_prefix = "";   /* "low-level API: " while vbi_dvb_multiplex_sliced/_raw are driven directly */

static void h_die(const char *fmt, ...)
{
        va_list ap; va_start(ap, fmt);
        fprintf(stderr, "C06 harness error: "); vfprintf(stderr, fmt, ap); fputc('\n', stderr);
        va_end(ap); fflush(NULL); _exit(42);
}

static void p_fail(const char *key, const char *fmt, ...)
{
        static struct { char key[200]; int n; } seen[96]; static int nseen;
        char det[700], pkey[240];
        va_list ap; va_start(ap, fmt); vsnprintf(det, sizeof det, fmt, ap); va_end(ap);
        h_bad = 1;
        if (p_key_prefix[0]) { snprintf(pkey, sizeof pkey, "%s%s", p_key_prefix, key); key = pkey; }
        if (p_selftest) { snprintf(p_lastkey, sizeof p_lastkey, "%s", key); return; }
        /* true number of occurrences (the reports below are thinned out per process) */
        if (strstr(key, "field_parity goes back")) mc_count(strstr(key, "[a unit with undefined") ? "field_order_symptom_in_known_class_frames" : "field_order_symptom_in_other_frames", 1);
        if (!mc_replaying) {            /* one defect fires for many inputs: a handful of reports per worker is enough */
                int i; for (i = 0; i < nseen; i++) if (!strcmp(seen[i].key, key)) break;
                if (i == nseen && nseen < 96) { snprintf(seen[nseen].key, sizeof seen[0].key, "%s", key); seen[nseen++].n = 0; }
                if (i < 96 && ++seen[i].n > 3) { mc_count("violation_reports_suppressed", 1); return; }
        }
        mc_violation(key, "%s | %s", det, CTX);
}
#define h_viol p_fail

/* ---- crash isolation ------------------------------------------------------
 * A defect that aborts the process (assert in the multiplexer) would end the
 * pool case and, after 40 such cases, the phase.  Where an abort is known to be
 * reachable on the unchanged tree (phase raw) a block of executions runs in a
 * forked child; when the child dies the worker reports the violation with the
 * same key format as the engine ("<case key> crash=<class>") and goes on. */
#include <sys/mman.h>
#include <sys/wait.h>
#include <signal.h>
static struct g_cur { char key[160]; char det[1500]; int idx; } *G;

static void g_note(const char *key, const char *det)
{
        if (!G) return;
        snprintf(G->key, sizeof G->key, "%s", key); snprintf(G->det, sizeof G->det, "%s", det);
}
static void g_classify(char *text, char *cls, size_t clen, char *tail, size_t tlen)
{
        char fn[80] = ""; size_t o = 0; int lines = 0;
        cls[0] = 0; tail[0] = 0;
        for (char *line = strtok(text, "\n"); line; line = strtok(NULL, "\n")) {
                char *q;
                if (!fn[0] && cls[0] && (q = strstr(line, " in ")) && strstr(line, "    #") && strstr(q, "/src/") && !strstr(q, "/verif/")) sscanf(q + 4, "%79[^ \n]", fn);
                if (!cls[0]) {
                        if ((q = strstr(line, "AddressSanitizer: "))) { char w[64] = ""; sscanf(q + 18, "%63[^ \n]", w); snprintf(cls, clen, "asan:%s", w); }
                        else if ((q = strstr(line, "runtime error: "))) { char w[48] = ""; sscanf(q + 15, "%47[^\n]", w); int sp = 0; for (char *r = w; *r; r++) if (*r == ' ' && ++sp == 3) { *r = 0; break; } snprintf(cls, clen, "ubsan:%s", w); }
                        else if (strstr(line, "Assertion") && strstr(line, "failed")) { char w[128] = ""; q = strstr(line, "Assertion"); sscanf(q, "%127[^\n]", w); snprintf(cls, clen, "assert:%.100s", w); }
                }
                if (lines++ < 6 && o + strlen(line) + 4 < tlen) o += snprintf(tail + o, tlen - o, "%s | ", line);
        }
        if (fn[0] && strlen(cls) + strlen(fn) + 2 < clen) { strcat(cls, "@"); strcat(cls, fn); }
}
/* Runs body(arg) in a child (in process when replaying).  Returns 0, or 1 when the child died. */
static int guarded(void (*body)(void *), void *arg)
{
        if (mc_replaying) { body(arg); return 0; }
        if (!G) { G = mmap(NULL, sizeof *G, PROT_READ | PROT_WRITE, MAP_SHARED | MAP_ANONYMOUS, -1, 0); if (G == MAP_FAILED) h_die("mmap"); }
        G->key[0] = 0; G->det[0] = 0; G->idx = -1;
        int pfd[2]; if (pipe(pfd)) h_die("pipe");
        fflush(NULL);
        pid_t p = fork();
        if (p < 0) h_die("fork");
        if (p == 0) {
                close(pfd[0]); dup2(pfd[1], 2); close(pfd[1]);
                alarm(100);
                body(arg);
                _exit(0);
        }
        close(pfd[1]);
        static char text[16384]; size_t n = 0; ssize_t k;
        char sink[4096];
        while ((k = read(pfd[0], n < sizeof text - 1 ? text + n : sink, n < sizeof text - 1 ? sizeof text - 1 - n : sizeof sink)) > 0) if (n < sizeof text - 1) n += k;
        text[n] = 0; close(pfd[0]);
        int st; while (waitpid(p, &st, 0) < 0) ;
        if (WIFEXITED(st) && WEXITSTATUS(st) == 0) return 0;
        if (WIFEXITED(st) && WEXITSTATUS(st) == 42) { fputs(text, stderr); _exit(42); }
        char cls[200], tail[1200], key[400];
        g_classify(text, cls, sizeof cls, tail, sizeof tail);
        if (!cls[0]) { if (WIFSIGNALED(st)) snprintf(cls, sizeof cls, WTERMSIG(st) == SIGALRM ? "hang>100s" : "signal:%d", WTERMSIG(st)); else snprintf(cls, sizeof cls, "exit:%d", WEXITSTATUS(st)); }
        snprintf(key, sizeof key, "%s crash=%s", G->key[0] ? G->key : "C06", cls);
        mc_violation(key, "%s :: %s", G->det, tail);
        mc_count("executions_ended_by_a_crash", 1);
        return 1;
}

/* ======================================================================== */
/* input frames                                                              */

#define H_MAXL 40
struct h_line  { uint32_t id; uint32_t line; uint8_t data[42]; };
struct h_frame {
        int n; struct h_line l[H_MAXL];
        int64_t pts; uint32_t mask;
        int raw_n, raw_off;             /* samples per raw line and sp.offset; raw_n == 0: no sampling parameters are passed */
        int raw_geo;                    /* index into GEO[]: which lines the raw buffer holds and how its rows are ordered */
};
#define ALL_SERVICES 0xFFFFFFFFu

static int kind_of_id(uint32_t id)
{
        if (id == VBI_SLICED_TELETEXT_B || id == VBI_SLICED_TELETEXT_B_L10_625 || id == VBI_SLICED_TELETEXT_B_L25_625) return PK_TTX;
        if (id == VBI_SLICED_VPS) return PK_VPS;
        if (id == VBI_SLICED_WSS_625) return PK_WSS;
        if (id == VBI_SLICED_CAPTION_625 || id == VBI_SLICED_CAPTION_625_F1) return PK_CC;
        if (id == VBI_SLICED_VBI_625) return PK_RAW;
        return PK_OTHER;
}
static int kind_len(int k) { return k == PK_TTX ? 42 : k == PK_VPS ? 13 : (k == PK_WSS || k == PK_CC) ? 2 : 0; }
static const char *kind_name(int k) { static const char *const n[] = { "none", "ttx", "vps", "wss", "cc", "raw", "other" }; return n[k]; }

static uint32_t lcg(uint32_t *s) { *s = *s * 1664525u + 1013904223u; return *s >> 16; }

/* fixed payload of (service, line, salt); salt 1: consecutive byte values (all 256 values occur in a dense frame) */
static void payload(uint8_t *d, uint32_t id, unsigned line, unsigned salt)
{
        uint32_t s = 0xC06u + id * 7919u + line * 104729u + salt * 13u;
        memset(d, 0, 42);
        int n = kind_len(kind_of_id(id)); if (!n) n = 3;
        for (int i = 0; i < n; i++) d[i] = salt == 1 ? (uint8_t) (line * 42 + i) : (uint8_t) lcg(&s);
}
static void f_reset(struct h_frame *f, int64_t pts) { memset(f, 0, sizeof *f); f->pts = pts; f->mask = ALL_SERVICES; }
static void f_add(struct h_frame *f, uint32_t id, unsigned line, unsigned salt)
{
        if (f->n >= H_MAXL) h_die("frame too long");
        f->l[f->n].id = id; f->l[f->n].line = line; payload(f->l[f->n].data, id, line, salt); f->n++;
}
static void f_raw(struct h_frame *f, int n, int off) { f->raw_n = n; f->raw_off = off; f->raw_geo = 0; }

/* Raw buffer geometries (sp.start[], sp.count[], sp.interlaced).  Row of a line in the buffer, from the
 * documentation of vbi_sampling_par: sequential = all rows of the first field, then those of the second;
 * interlaced = rows of the two fields alternate, first field first (needs equal counts). */
struct h_geo { int start[2], count[2], interlaced; };
#define NGEO 8
static const struct h_geo GEO[NGEO] = {
        { { 7, 320 }, { 17, 17 }, 0 },
        { { 8, 320 }, { 16, 17 }, 0 },
        { { 7, 320 }, { 17, 12 }, 0 },
        { { 18, 320 }, { 6, 17 }, 0 },
        { { 7, 322 }, { 17, 15 }, 0 },
        { { 7, 320 }, { 17, 17 }, 1 },
        { { 10, 325 }, { 12, 12 }, 1 },
        { { 8, 320 }, { 16, 17 }, 1 },         /* not valid (interlaced needs equal counts): every raw frame is rejected */
};
static int geo_valid(const struct h_geo *g) { return !g->interlaced || g->count[0] == g->count[1]; }
/* row of the raw buffer that holds `line', -1 if the buffer does not hold it */
static int raw_row(const struct h_frame *f, unsigned line)
{
        const struct h_geo *g = &GEO[f->raw_geo];
        int fld = line >= 313, r = (int) line - g->start[fld];
        if (r < 0 || r >= g->count[fld]) return -1;
        return g->interlaced ? r * 2 + fld : fld ? g->count[0] + r : r;
}

static const char *id_name(uint32_t id)
{
        static char b[4][20]; static int k;
        switch (id) {
        case VBI_SLICED_TELETEXT_B: return "ttx";
        case VBI_SLICED_TELETEXT_B_L10_625: return "ttxL10";
        case VBI_SLICED_TELETEXT_B_L25_625: return "ttxL25";
        case VBI_SLICED_VPS: return "vps";
        case VBI_SLICED_WSS_625: return "wss";
        case VBI_SLICED_CAPTION_625: return "cc625";
        case VBI_SLICED_CAPTION_625_F1: return "cc";
        case VBI_SLICED_VBI_625: return "raw";
        }
        char *o = b[k++ & 3]; snprintf(o, 20, "id%x", id); return o;
}
static const char *frame_str(const struct h_frame *f)
{
        static char b[4][420]; static int k;
        char *o = b[k++ & 3]; size_t n = 0;
        n += snprintf(o + n, 420 - n, "{pts=%llx", (unsigned long long) f->pts);
        if (f->mask != ALL_SERVICES) n += snprintf(o + n, 420 - n, " mask=%x", f->mask);
        for (int i = 0; i < f->n && n < 360; i++) n += snprintf(o + n, 420 - n, " %s@%u", id_name(f->l[i].id), f->l[i].line);
        if (n >= 360) n += snprintf(o + n, 420 - n, " ...(%d lines)", f->n);
        if (f->raw_n) n += snprintf(o + n, 420 - n, " [raw: %d samples, sp.offset %d, buffer lines %d+%d from %d/%d %s]", f->raw_n, f->raw_off,
                                    GEO[f->raw_geo].count[0], GEO[f->raw_geo].count[1], GEO[f->raw_geo].start[0], GEO[f->raw_geo].start[1], GEO[f->raw_geo].interlaced ? "interlaced" : "sequential");
        snprintf(o + n, 420 - n, "}");
        return o;
}
static const char *cfg_str(const struct h_cfg *c)
{
        static char b[2][100]; static int k; char *o = b[k++ & 1];
        if (c->ts) snprintf(o, 100, "TS pid=%04x data_identifier=%02x size=[%u,%u]", c->pid, c->did, c->minsz, c->maxsz);
        else snprintf(o, 100, "PES data_identifier=%02x size=[%u,%u]", c->did, c->minsz, c->maxsz);
        return o;
}
static int cfg_fixed(const struct h_cfg *c) { return c->did >= 0x10 && c->did <= 0x1F; }

/* ---- what the documentation / the standards permit ----------------------- */

enum { L_OK, L_ORDER, L_LINE, L_SERVICE, L_RAWPAR, L_RAWGEO, L_RAWRANGE };
static const char *const leg_name[] = { "ok", "line order", "line number", "service", "raw line without sampling parameters",
                                        "invalid sampling parameters", "raw line not in the raw buffer" };

static int legality(const struct h_frame *f)
{
        unsigned last = 0;
        if (f->raw_n && !geo_valid(&GEO[f->raw_geo])) return L_RAWGEO;      /* sampling parameters are checked whenever they are passed */
        for (int i = 0; i < f->n; i++) {
                const struct h_line *l = &f->l[i];
                if (l->line) { if (l->line <= last) return L_ORDER; last = l->line; }
        }
        for (int i = 0; i < f->n; i++) {
                const struct h_line *l = &f->l[i];
                if (!(l->id & f->mask)) continue;
                unsigned ln = l->line;
                switch (kind_of_id(l->id)) {
                case PK_TTX: if (!(ln == 0 || (ln >= 7 && ln <= 22) || (ln >= 320 && ln <= 335))) return L_LINE; break;
                case PK_VPS: if (ln != 16) return L_LINE; break;
                case PK_WSS: if (ln != 23) return L_LINE; break;
                case PK_CC:  if (ln != 21) return L_LINE; break;
                case PK_RAW: if (!f->raw_n) return L_RAWPAR;
                             if (!((ln >= 7 && ln <= 23) || (ln >= 320 && ln <= 336))) return L_LINE;
                             if (raw_row(f, ln) < 0) return L_RAWRANGE; break;
                default: return L_SERVICE;
                }
        }
        return L_OK;
}
/* smallest possible size of the data units of the frame (bytes after the data_identifier) */
static unsigned min_du_bytes(const struct h_frame *f, int fixed, int *has_raw, int *last_raw)
{
        unsigned sz = 0; *has_raw = 0; *last_raw = 0;
        for (int i = 0; i < f->n; i++) {
                if (!(f->l[i].id & f->mask)) continue;
                int k = kind_of_id(f->l[i].id);
                *last_raw = k == PK_RAW;
                if (k == PK_RAW) { *has_raw = 1; sz += fixed ? 46u * ((f->raw_n + 39) / 40) : (unsigned) f->raw_n + 6u * ((f->raw_n + 250) / 251); }
                else if (fixed) sz += 46;
                else sz += k == PK_TTX ? 46 : k == PK_VPS ? 16 : 5;
        }
        return sz;
}
enum { A_MUST, A_EITHER };
/* A_MUST: content is legal and certainly fits the largest permitted packet */
static int must_accept(const struct h_frame *f, const struct h_cfg *c)
{
        if (legality(f) != L_OK) return A_EITHER;
        int hr, lr; unsigned sz = 46 + min_du_bytes(f, cfg_fixed(c), &hr, &lr);
        if (!hr || cfg_fixed(c)) return sz <= c->maxsz ? A_MUST : A_EITHER;
        return sz + 270 <= c->maxsz ? A_MUST : A_EITHER;      /* segmentation of raw lines is the encoder's choice */
}
static const char *reject_class(const struct h_frame *f, const struct h_cfg *c)
{
        int lg = legality(f);
        if (lg != L_OK) return leg_name[lg];
        int hr, lr; min_du_bytes(f, cfg_fixed(c), &hr, &lr);
        return hr ? "too large, with a raw line" : "too large, sliced lines only";
}

/* Class of the input frame for the field order of its data units, from the frame alone.
 * Known cause (finding D3): the field of a unit with undefined line number (0) is taken from the last line
 * with a number among the sliced lines SINCE THE LAST VBI_SLICED_VBI_625 ENTRY of the array (encoded or
 * masked out), not since the start of the packet.  The class holds when such a unit has no numbered
 * sliced line between itself and the preceding raw entry, and a second-field unit (that raw line or
 * anything before it) was encoded earlier.  Every other frame is "other". */
#define FO_KNOWN "[a unit with undefined line number (0) follows a raw VBI line that is in or follows the second field]"
#define FO_OTHER "[frame without an undefined-line unit after a second-field raw VBI line]"
static const char *field_order_class(const struct h_frame *f)
{
        int any_second = 0, after_raw = 0; unsigned since_raw = 0;
        for (int i = 0; i < f->n; i++) {
                const struct h_line *l = &f->l[i];
                int k = kind_of_id(l->id), wanted = (l->id & f->mask) != 0;
                if (k == PK_RAW) {                               /* splits the array whether it is encoded or not */
                        after_raw = 1; since_raw = 0;
                        if (wanted && l->line >= 313) any_second = 1;
                        continue;
                }
                if (!wanted) continue;
                if (l->line == 0) { if (after_raw && since_raw == 0 && any_second) return FO_KNOWN; continue; }
                since_raw = l->line;
                if (l->line >= 313) any_second = 1;
        }
        return FO_OTHER;
}

/* ---- inputs as the library sees them (exactly sized heap blocks) ---------- */

static uint8_t pix(unsigned row, unsigned x) { return (uint8_t) (row * 29u + x * 7u + (x >> 5) + 1u); }

struct m_sub { vbi_sliced *sl; uint8_t *raw; vbi_sampling_par sp; int has_sp; };
static void m_prepare(const struct h_frame *f, struct m_sub *s)
{
        static vbi_sliced tmp[H_MAXL];
        memset(tmp, 0, sizeof tmp);
        for (int i = 0; i < f->n; i++) {
                tmp[i].id = f->l[i].id; tmp[i].line = f->l[i].line;
                memset(tmp[i].data, 0x5A, sizeof tmp[i].data);
                int n = kind_len(kind_of_id(f->l[i].id)); if (!n) n = 3;
                memcpy(tmp[i].data, f->l[i].data, n);
        }
        s->sl = mc_exact(tmp, f->n * sizeof *tmp);
        s->raw = NULL; s->has_sp = 0;
        if (f->raw_n) {
                static uint8_t rb[34 * 720];
                const struct h_geo *g = &GEO[f->raw_geo];
                unsigned rows = g->count[0] + g->count[1];      /* every row has its own content, the block ends with the last row */
                for (unsigned r = 0; r < rows; r++) for (int x = 0; x < f->raw_n; x++) rb[r * f->raw_n + x] = pix(r, x);
                s->raw = mc_exact(rb, rows * (size_t) f->raw_n);
                memset(&s->sp, 0, sizeof s->sp);
                s->sp.scanning = 625; s->sp.sampling_format = VBI_PIXFMT_YUV420; s->sp.sampling_rate = 13500000;
                s->sp.bytes_per_line = f->raw_n; s->sp.offset = f->raw_off;
                s->sp.start[0] = g->start[0]; s->sp.start[1] = g->start[1]; s->sp.count[0] = g->count[0]; s->sp.count[1] = g->count[1];
                s->sp.interlaced = g->interlaced; s->sp.synchronous = TRUE;
                s->has_sp = 1;
        }
}
static void m_release(struct m_sub *s) { free(s->sl); free(s->raw); s->sl = NULL; s->raw = NULL; }

/* ======================================================================== */
/* expectation model for the library demultiplexer                           */
/* A frame is recognisable by a non-increasing line number at the start of a
 * PES packet; packets that continue with a larger line number (or carry no
 * sliced line at all) belong to the frame before them.  With undefined (0)
 * line numbers frame boundaries are not defined; only the line sequence is. */

struct x_group { int n; struct h_line l[100]; int64_t pts; int pts_any; unsigned last_line; };
struct x_model { int ng, open, any0; struct x_group g[12]; int nflat, last_start; struct h_line flat[400]; };

static void x_reset(struct x_model *m) { m->ng = 0; m->open = 0; m->any0 = 0; m->nflat = 0; m->last_start = 0; }
static void x_packet(struct x_model *m, const struct h_frame *f)
{
        const struct h_line *w[H_MAXL]; int nw = 0;
        for (int i = 0; i < f->n; i++) {
                if (!(f->l[i].id & f->mask)) continue;
                int k = kind_of_id(f->l[i].id);
                if (k == PK_RAW || k == PK_OTHER) continue;     /* the public demultiplexer does not deliver raw lines */
                w[nw++] = &f->l[i];
        }
        m->last_start = m->nflat;
        if (nw == 0) {
                if (!m->open) { if (m->ng >= 12) h_die("model: groups"); struct x_group *g = &m->g[m->ng++]; g->n = 0; g->pts = f->pts; g->pts_any = 1; g->last_line = 0; m->open = 1; }
                return;
        }
        for (int i = 0; i < nw; i++) {
                if (w[i]->line == 0) m->any0 = 1;
                if (m->nflat >= 400) h_die("model: flat"); m->flat[m->nflat++] = *w[i];
        }
        if (m->open && w[0]->line != 0 && w[0]->line <= m->g[m->ng - 1].last_line) m->open = 0;
        if (!m->open) { if (m->ng >= 12) h_die("model: groups"); struct x_group *g = &m->g[m->ng++]; g->n = 0; g->pts = f->pts; g->pts_any = 0; g->last_line = 0; m->open = 1; }
        struct x_group *g = &m->g[m->ng - 1];
        for (int i = 0; i < nw; i++) {
                if (g->n >= 100) h_die("model: group lines");
                g->l[g->n++] = *w[i];
                if (w[i]->line) g->last_line = w[i]->line;
        }
}

/* ---- recording what the library demultiplexer delivers -------------------- */

struct d_frame { int n; int64_t pts; struct h_line l[64]; };
static struct { int n, over; struct d_frame f[16]; } D;
static vbi_bool d_cb(vbi_dvb_demux *dx, void *ud, const vbi_sliced *s, unsigned int n, int64_t pts)
{
        if (D.n >= 16) { D.over = 1; return TRUE; }
        struct d_frame *f = &D.f[D.n++];
        f->n = n > 64 ? 64 : n; f->pts = pts;
        for (int i = 0; i < f->n; i++) { f->l[i].id = s[i].id; f->l[i].line = s[i].line; memcpy(f->l[i].data, s[i].data, 42); }
        return TRUE;
}
static int kind_of_demux_id(uint32_t id)
{
        if (id == VBI_SLICED_TELETEXT_B) return PK_TTX;
        if (id == VBI_SLICED_VPS) return PK_VPS;
        if (id == VBI_SLICED_WSS_625) return PK_WSS;
        if (id == VBI_SLICED_CAPTION_625_F1) return PK_CC;
        return PK_OTHER;
}
static int payload_eq(int k, const uint8_t *a, const uint8_t *b)
{
        if (k == PK_WSS) return a[0] == b[0] && ((a[1] ^ b[1]) & 0x3F) == 0;     /* WSS has 14 bits */
        return !memcmp(a, b, kind_len(k));
}
/* got: what the demultiplexer delivered for one line; want: the input line */
static int d_line_check(const char *dm, const struct h_line *got, const struct h_line *want, const char *where)
{
        char key[160];
        int k = kind_of_id(want->id);
        if (kind_of_demux_id(got->id) != k) { snprintf(key, sizeof key, "roundtrip %s: service differs from the one sent", dm); h_viol(key, "%s: sent %s@%u, delivered id=%x line=%u", where, id_name(want->id), want->line, got->id, got->line); return -1; }
        if (got->line != want->line) { snprintf(key, sizeof key, "roundtrip %s: line number differs from the one sent (%s)", dm, kind_name(k)); h_viol(key, "%s: sent %s@%u, delivered line %u", where, id_name(want->id), want->line, got->line); return -1; }
        if (!payload_eq(k, got->data, want->data)) { snprintf(key, sizeof key, "roundtrip %s: payload differs from the one sent (%s)", dm, kind_name(k)); h_viol(key, "%s: %s@%u sent %02x%02x%02x.. delivered %02x%02x%02x..", where, id_name(want->id), want->line, want->data[0], want->data[1], want->data[2], got->data[0], got->data[1], got->data[2]); return -1; }
        return 0;
}
static int d_compare(const char *dm, const struct x_model *m)
{
        char key[160], where[60];
        if (D.over) { snprintf(key, sizeof key, "roundtrip %s: number of delivered frames differs from the recognisable frames sent", dm); h_viol(key, "more than 16 frames delivered"); return -1; }
        if (m->any0) {
                int nd = 0; for (int i = 0; i < D.n; i++) nd += D.f[i].n;
                int ne = m->last_start;
                if (nd != ne) { snprintf(key, sizeof key, "roundtrip %s: number of delivered lines differs (frames with undefined line numbers)", dm); h_viol(key, "sent %d lines before the last flushing frame, delivered %d in %d frames", ne, nd, D.n); return -1; }
                int q = 0;
                for (int i = 0; i < D.n; i++) for (int j = 0; j < D.f[i].n; j++, q++) { snprintf(where, sizeof where, "line %d of the stream", q); if (d_line_check(dm, &D.f[i].l[j], &m->flat[q], where)) return -1; }
                return 0;
        }
        int ne = m->ng - (m->open ? 1 : 0);
        /* a closed group without lines cannot exist (only a line closes a group) */
        if (D.n != ne) { snprintf(key, sizeof key, "roundtrip %s: number of delivered frames differs from the recognisable frames sent", dm); h_viol(key, "sent %d recognisable frames (+ flushing frame), delivered %d", ne, D.n); return -1; }
        for (int i = 0; i < ne; i++) {
                const struct x_group *g = &m->g[i]; const struct d_frame *f = &D.f[i];
                if (f->n != g->n) { snprintf(key, sizeof key, "roundtrip %s: frame delivered with another number of lines than sent", dm); h_viol(key, "frame %d: sent %d lines, delivered %d", i, g->n, f->n); return -1; }
                for (int j = 0; j < g->n; j++) { snprintf(where, sizeof where, "frame %d line %d", i, j); if (d_line_check(dm, &f->l[j], &g->l[j], where)) return -1; }
                if (!g->pts_any && f->pts != (g->pts & 0x1FFFFFFFFll)) { snprintf(key, sizeof key, "roundtrip %s: frame delivered with another PTS than it was sent with", dm); h_viol(key, "frame %d: sent %llx (mod 2^33 %llx), delivered %llx", i, (unsigned long long) g->pts, (unsigned long long) (g->pts & 0x1FFFFFFFFll), (unsigned long long) f->pts); return -1; }
        }
        return 0;
}

/* ======================================================================== */
/* one multiplexer, a sequence of frames                                     */

#define OUT_CAP (8 * 70000)
static uint8_t OUT[OUT_CAP]; static size_t OUT_N;          /* what the multiplexer emitted, as emitted */
static uint8_t PES[OUT_CAP]; static size_t PES_N;          /* the PES layer of it */
static unsigned CB_N, CB_BADSZ;                             /* callbacks of the current call, first unexpected size */
static unsigned CB_WANT;                                    /* 188 in TS mode, 0 = any */

static vbi_bool m_cb(vbi_dvb_mux *mx, void *ud, const uint8_t *p, unsigned int size)
{
        if (OUT_N + size > OUT_CAP) h_die("output buffer too small");
        memcpy(OUT + OUT_N, p, size); OUT_N += size;
        CB_N++;
        if (CB_WANT && size != CB_WANT && !CB_BADSZ) CB_BADSZ = size;
        return TRUE;
}

enum { IF_FEED, IF_COR };
typedef unsigned cor_size_fn(void *arg, int call);

struct run {
        struct h_cfg cfg;
        vbi_dvb_mux *mx;
        struct p_state ps;
        struct x_model xm;
        int naccepted, nrejected;
        struct h_frame rej[6];
        int have_first_pts; int64_t first_pts;
        uint64_t evals;
};

static vbi_dvb_mux *mux_new(const struct h_cfg *c)
{
        vbi_dvb_mux *mx = c->ts ? vbi_dvb_ts_mux_new(c->pid, m_cb, NULL) : vbi_dvb_pes_mux_new(m_cb, NULL);
        if (!mx) h_die("mux_new");
        if (!vbi_dvb_mux_set_data_identifier(mx, c->did)) h_viol("configuration not taken over (documented value refused)", "set_data_identifier(%02x) refused", c->did);
        if (!vbi_dvb_mux_set_pes_packet_size(mx, c->minsz, c->maxsz)) h_viol("configuration not taken over (documented value refused)", "set_pes_packet_size(%u, %u) refused", c->minsz, c->maxsz);
        if (vbi_dvb_mux_get_min_pes_packet_size(mx) != c->minsz || vbi_dvb_mux_get_max_pes_packet_size(mx) != c->maxsz
            || vbi_dvb_mux_get_data_identifier(mx) != c->did)
                h_viol("configuration not taken over (getters return other values than were set)", "min=%u max=%u did=%02x", vbi_dvb_mux_get_min_pes_packet_size(mx), vbi_dvb_mux_get_max_pes_packet_size(mx), vbi_dvb_mux_get_data_identifier(mx));
        /* a refused setter call leaves the multiplexer as it was: every execution continues behind refused data_identifier
         * values of both kinds (the documentation permits 0x10..0x1F and 0x99..0x9B only), the output is judged for c->did */
        static const unsigned refused[] = { 0x00, 0x0F, 0x20, 0x50, 0x98, 0x9C, 0xFF, 0x110 };
        for (unsigned i = 0; i < sizeof refused / sizeof *refused; i++) {
                if (vbi_dvb_mux_set_data_identifier(mx, refused[i]))
                        h_viol("set_data_identifier accepts a value outside the documented ranges", "%#x", refused[i]);
                if (vbi_dvb_mux_get_data_identifier(mx) != c->did)
                        h_viol("refused set_data_identifier changed the data_identifier", "after %#x: %02x, was %02x", refused[i], vbi_dvb_mux_get_data_identifier(mx), c->did);
        }
        return mx;
}
static void run_begin(struct run *r, const struct h_cfg *c)
{
        memset(r, 0, offsetof(struct run, rej));
        r->cfg = *c; r->mx = mux_new(c); r->ps.cc_next = -1; x_reset(&r->xm);
        r->have_first_pts = 0; r->evals = 0;
        OUT_N = 0; PES_N = 0;
}
static void run_end(struct run *r) { vbi_dvb_mux_delete(r->mx); r->mx = NULL; }

/* class of the execution that is about to run, from the input alone (for crash attribution) */
static const char *case_key(int iface, const struct h_cfg *c, const struct h_frame *f)
{
        static char b[120];
        int hr, lr; min_du_bytes(f, cfg_fixed(c), &hr, &lr);
        snprintf(b, sizeof b, "mux, %s data units%s", cfg_fixed(c) ? "fixed-length" : "variable-length", hr ? ", raw lines" : "");
        return b;
}

/* Calls vbi_dvb_mux_cor until the frame is out.  Returns 1 accepted, 0 rejected, -1 violation. */
static int m_cor(struct run *r, const struct m_sub *s, const struct h_frame *f, cor_size_fn *szfn, void *arg)
{
        const vbi_sliced *sp = s->sl; unsigned s_left = f->n;
        size_t start = OUT_N;
        for (int call = 0; ; call++) {
                if (call > 300000) { h_viol("cor: frame not finished after 300000 calls", "emitted %zu bytes", OUT_N - start); return -1; }
                unsigned size = szfn(arg, call);
                uint8_t *buf = malloc(size); memset(buf, 0xA5, size);
                uint8_t *p = buf; unsigned left = size;
                const vbi_sliced *sp0 = sp; unsigned sl0 = s_left;
                vbi_bool ok = vbi_dvb_mux_cor(r->mx, &p, &left, &sp, &s_left, f->mask, s->raw, s->has_sp ? &s->sp : NULL, f->pts);
                size_t got = p - buf;
                if (got > size || left != size - got) { h_viol("cor: buffer pointer and buffer_left inconsistent", "size %u advanced %zu left %u", size, got, left); free(buf); return -1; }
                for (size_t i = got; i < size; i++) if (buf[i] != 0xA5) { h_viol("cor: bytes written beyond the position returned", "size %u returned position %zu, byte %zu changed", size, got, i); free(buf); return -1; }
                if (!ok) {
                        free(buf);
                        if (got) { h_viol("rejected frame produced output", "cor returned FALSE after storing %zu bytes", got); return -1; }
                        if (OUT_N != start) { h_viol("cor: fails after part of the frame was emitted", "call %d, %zu bytes out so far", call, OUT_N - start); return -1; }
                        if (sp < s->sl || sp > s->sl + f->n || s_left != (unsigned) (s->sl + f->n - sp)) { h_viol("cor: sliced pointer / sliced_left inconsistent after a failure", "consumed %ld left %u of %d", (long) (sp - s->sl), s_left, f->n); return -1; }
                        return 0;
                }
                if (OUT_N + got > OUT_CAP) h_die("output buffer too small");
                memcpy(OUT + OUT_N, buf, got); OUT_N += got;
                free(buf);
                if (s_left == 0) {
                        if (sp != s->sl + f->n) { h_viol("cor: sliced pointer not advanced to the end when the frame is complete", "at %ld of %d", (long) (sp - s->sl), f->n); return -1; }
                        return 1;
                }
                if (sp != sp0 || s_left != sl0) { h_viol("cor: sliced pointer moves before the frame is complete", "call %d", call); return -1; }
                if (got == 0) { h_viol("cor: no progress (no byte stored, frame not complete)", "call %d size %u", call, size); return -1; }
                if (left != 0) { h_viol("cor: returns with room left in the buffer although the frame is not complete", "call %d size %u left %u", call, size, left); return -1; }
        }
}

static void minimise_unusable(struct run *r, const struct h_frame *f, char *cls, size_t n)
{
        snprintf(cls, n, "a combination of rejected frames");
        size_t keepN = OUT_N; unsigned cbn = CB_N;
        for (int i = 0; i < r->nrejected && i < 6; i++) {
                vbi_dvb_mux *mx = mux_new(&r->cfg);
                struct m_sub a, b; m_prepare(&r->rej[i], &a);
                vbi_bool ra = vbi_dvb_mux_feed(mx, a.sl, r->rej[i].n, r->rej[i].mask, a.raw, a.has_sp ? &a.sp : NULL, r->rej[i].pts);
                m_release(&a);
                m_prepare(f, &b);
                vbi_bool rb = vbi_dvb_mux_feed(mx, b.sl, f->n, f->mask, b.raw, b.has_sp ? &b.sp : NULL, f->pts);
                m_release(&b);
                vbi_dvb_mux_delete(mx);
                if (!ra && !rb) { snprintf(cls, n, "%s", reject_class(&r->rej[i], &r->cfg)); break; }
        }
        OUT_N = keepN; CB_N = cbn;
}

/* Hands one frame to the multiplexer and checks everything that concerns this
 * frame alone.  Returns 1 accepted, 0 rejected, -1 violation (stop this run). */
static int run_frame(struct run *r, const struct h_frame *f, int iface, cor_size_fn *szfn, void *szarg, const char *what)
{
        struct m_sub s; m_prepare(f, &s);
        size_t start = OUT_N;
        CB_N = 0; CB_BADSZ = 0; CB_WANT = r->cfg.ts ? 188 : 0;
        int acc;
        mc_case(case_key(iface, &r->cfg, f), "%s: %s %s", what, cfg_str(&r->cfg), frame_str(f));
        if (G) { char d[700]; snprintf(d, sizeof d, "%s: %s %s", what, cfg_str(&r->cfg), frame_str(f)); g_note(case_key(iface, &r->cfg, f), d); }
        r->evals++;
        if (iface == IF_FEED) acc = vbi_dvb_mux_feed(r->mx, s.sl, f->n, f->mask, s.raw, s.has_sp ? &s.sp : NULL, f->pts) ? 1 : 0;
        else { acc = m_cor(r, &s, f, szfn, szarg); if (CB_N) { h_viol("cor: callback invoked", "%u times", CB_N); acc = -1; } }
        m_release(&s);
        if (acc < 0) return -1;
        if (!acc) {
                if (OUT_N != start) { h_viol("rejected frame produced output", "%s: feed returned FALSE after %u callbacks, %zu bytes", what, CB_N, OUT_N - start); return -1; }
                if (must_accept(f, &r->cfg) == A_MUST && !(iface == IF_COR && f->n == 0)) {
                        if (r->nrejected == 0) h_viol("legal frame rejected", "%s: %s", what, frame_str(f));
                        else {
                                char cls[80], key[200]; minimise_unusable(r, f, cls, sizeof cls);
                                snprintf(key, sizeof key, "multiplexer unusable after a rejected frame (%s): the next legal frame is rejected", cls);
                                h_viol(key, "%s: %s rejected after %d rejected frame(s), first %s", what, frame_str(f), r->nrejected, frame_str(&r->rej[0]));
                        }
                        return -1;
                }
                if (r->nrejected < 6) r->rej[r->nrejected] = *f;
                r->nrejected++;
                return 0;
        }
        r->naccepted++;
        if (iface == IF_FEED) {
                if (CB_BADSZ) { h_viol("callback granularity: TS callback not one 188 byte packet", "%s: size %u", what, CB_BADSZ); return -1; }
                if (!r->cfg.ts && CB_N != 1) { h_viol("callback granularity: PES frame not delivered in one callback", "%s: %u callbacks", what, CB_N); return -1; }
        }
        if (OUT_N == start) { h_viol("accepted frame produced no output", "%s", what); return -1; }
        static struct p_frame pf;
        size_t pn = 0;
        p_field_order_class = field_order_class(f);
        if (p_field_order_class[1] == 'a') mc_count("frames_of_the_known_field_order_class", 1);
        if (p_output(&r->cfg, &r->ps, OUT + start, OUT_N - start, f->pts, &pf, PES + PES_N, &pn)) return -1;
        PES_N += pn;
        /* the parsed lines are the input lines, in order */
        int q = 0;
        for (int i = 0; i < f->n; i++) {
                const struct h_line *w = &f->l[i];
                if (!(w->id & f->mask)) continue;
                int k = kind_of_id(w->id);
                if (q >= pf.n) { h_viol("content: fewer data units than input lines", "%s: %d lines parsed, input line %d (%s@%u) missing", what, pf.n, i, id_name(w->id), w->line); return -1; }
                const struct p_line *g = &pf.l[q++];
                if (g->kind != k) { h_viol("content: data unit of another service than the input line", "%s: input %s@%u, data_unit_id %02x", what, id_name(w->id), w->line, g->du_id); return -1; }
                if (g->line != w->line) { char key[120]; snprintf(key, sizeof key, "content: data unit carries another line than the input line (%s)", kind_name(k)); h_viol(key, "%s: input %s@%u, parsed line %u (field %d)", what, id_name(w->id), w->line, g->line, g->field + 1); return -1; }
                if (k == PK_RAW) {
                        if (g->fpp != (unsigned) (f->raw_off - 132) || g->npix != (unsigned) f->raw_n) { h_viol("content: raw line position or length differs from the sampling parameters", "%s: line %u first_pixel_position %u pixels %u, want %d %d", what, w->line, g->fpp, g->npix, f->raw_off - 132, f->raw_n); return -1; }
                        int row = raw_row(f, w->line);
                        if (row < 0) { h_viol("content: raw line encoded although the raw buffer does not hold it", "%s: line %u", what, w->line); return -1; }
                        for (int x = 0; x < f->raw_n; x++) if (p_rawpix[g->rawslot][x] != pix(row, x)) {
                                int other = -1; for (int r2 = 0; r2 < 40; r2++) if (p_rawpix[g->rawslot][x] == pix(r2, x) && (x + 1 >= f->raw_n || p_rawpix[g->rawslot][x + 1] == pix(r2, x + 1))) { other = r2; break; }
                                h_viol("content: raw samples differ from the row of the input buffer that holds the line", "%s: line %u (row %d of the buffer) sample %d: %02x want %02x%s%.0d", what, w->line, row, x, p_rawpix[g->rawslot][x], pix(row, x), other >= 0 ? "; the unit carries row " : "", other >= 0 ? other : 0);
                                return -1;
                        }
                } else if (!payload_eq(k, g->data, w->data)) {
                        char key[120]; snprintf(key, sizeof key, "content: payload bits differ from the input line (%s)", kind_name(k));
                        h_viol(key, "%s: %s@%u input %02x%02x%02x.. parsed %02x%02x%02x..", what, id_name(w->id), w->line, w->data[0], w->data[1], w->data[2], g->data[0], g->data[1], g->data[2]); return -1;
                }
        }
        if (q != pf.n) { h_viol("content: more data units than input lines", "%s: %d parsed, %d wanted; extra data_unit_id %02x line %u", what, pf.n, q, pf.l[q].du_id, pf.l[q].line); return -1; }
        if (!r->have_first_pts) { r->have_first_pts = 1; r->first_pts = f->pts; }
        x_packet(&r->xm, f);
        if (pf.n_stuffing_du) mc_outcome("accepted, %s, with stuffing", cfg_fixed(&r->cfg) ? "fixed-length" : "variable-length");
        else mc_outcome("accepted, %s, packet exactly full", cfg_fixed(&r->cfg) ? "fixed-length" : "variable-length");
        return 1;
}

static void enc_pts(uint8_t *p, int64_t pts)
{
        p[0] = 0x21 | (((pts >> 30) & 7) << 1); p[1] = (pts >> 22) & 0xFF; p[2] = (((pts >> 15) & 0x7F) << 1) | 1;
        p[3] = (pts >> 7) & 0xFF; p[4] = ((pts & 0x7F) << 1) | 1;
}
/* A TS packet with a stuffing-only PES packet, put in front of the stream for the TS demultiplexer
 * (which is known - C07 - to lose a PES packet that is complete within its sync search buffer). */
static void ts_leader(uint8_t *t, const struct h_cfg *c, int cc, int64_t pts)
{
        memset(t, 0xFF, 188);
        t[0] = 0x47; t[1] = 0x40 | (c->pid >> 8); t[2] = c->pid & 0xFF; t[3] = 0x10 | (cc & 15);
        uint8_t *p = t + 4;
        p[0] = 0; p[1] = 0; p[2] = 1; p[3] = 0xBD; p[4] = 0; p[5] = 184 - 6; p[6] = 0x84; p[7] = 0x80; p[8] = 0x24;
        enc_pts(p + 9, pts & 0x1FFFFFFFFll);
        p[45] = c->did;
        if (cfg_fixed(c)) { p[47] = 0x2C; p[47 + 46] = 0x2C; p[47 + 92] = 0x2C; } else p[47] = 184 - 46 - 2;
}

/* Sends the two flushing frames and runs the library demultiplexer(s) over everything emitted. */
static int run_finish(struct run *r)
{
        struct h_frame s;
        for (int k = 0; k < 2; k++) {
                f_reset(&s, 0x0ABCDE000ll + k); f_add(&s, VBI_SLICED_TELETEXT_B, 7, 90 + k);
                int a = run_frame(r, &s, IF_FEED, NULL, NULL, k ? "second flushing frame {ttx@7}" : "first flushing frame {ttx@7}");
                if (a < 0) return -1;
                if (a == 0) { h_viol("legal frame rejected", "flushing frame {ttx@7} rejected"); return -1; }
        }
        /* PES demultiplexer on the PES layer */
        {
                D.n = 0; D.over = 0;
                vbi_dvb_demux *dx = vbi_dvb_pes_demux_new(d_cb, NULL);
                if (!dx) h_die("demux_new");
                uint8_t *blk = mc_exact(PES, PES_N);
                mc_case("library PES demux on multiplexer output", "%s", CTX); g_note("library PES demux on multiplexer output", CTX);
                vbi_dvb_demux_feed(dx, blk, PES_N);
                free(blk); vbi_dvb_demux_delete(dx);
                r->evals++;
                if (d_compare("PES demux", &r->xm)) return -1;
        }
        if (r->cfg.ts) {
                D.n = 0; D.over = 0;
                vbi_dvb_demux *dx = _vbi_dvb_ts_demux_new(d_cb, NULL, r->cfg.pid);
                if (!dx) h_die("ts demux_new");
                uint8_t *blk = malloc(OUT_N + 188);
                ts_leader(blk, &r->cfg, (OUT[3] & 15) - 1, r->first_pts);
                memcpy(blk + 188, OUT, OUT_N);
                uint8_t *ex = mc_exact(blk, OUT_N + 188); free(blk);
                mc_case("library TS demux on multiplexer output", "%s", CTX); g_note("library TS demux on multiplexer output", CTX);
                vbi_dvb_demux_feed(dx, ex, OUT_N + 188);
                free(ex); vbi_dvb_demux_delete(dx);
                r->evals++;
                if (d_compare("TS demux", &r->xm)) return -1;
        }
        return 0;
}

#endif
