/* engine self test: known-size spaces, crash and hang attribution */
#include <stdio.h>
#include <stdlib.h>
#include <string.h>
#include <unistd.h>
#include "mc.h"
static int run(const uint8_t *h, int n, uint64_t hash[2], void *arg) {
    int v = 0; for (int i = 0; i < n; i++) v = (v + (h[i] ? 3 : 1)) % 10;
    hash[0] = v + 1; hash[1] = 7; return 0;
}
static const char *ln(int l, void *a) { return l ? "+3" : "+1"; }
static uint64_t nexec;
static void body(void *arg) {
    int a = mc_choose(3), b = mc_choose(2), c = a ? mc_choose(2) : 0; (void)b; (void)c; nexec++;
    if (a == 2 && c == 1) mc_violation("a2c1", "choices %s", mc_choices_str());
}
static void e1case(uint64_t idx, void *arg) {
    nexec = 0; uint64_t r = mc_explore(body, NULL, (int) idx);
    /* bound0:1; bound1: +2(a)+1(b) = 4 ; bound2: a=1:{b,c}->+2, a=2:{b,c}->+2 => 8 ; bound3: +2 (a,b,c all) = 10 */
    static const uint64_t want[] = {1,4,8,10};
    if (r != want[idx]) mc_violation("e1 count", "bound %d runs %d want %d", (int) idx, (int) r, (int) want[idx]);
}
static void crashcase(uint64_t idx, void *arg) {
    mc_case("crasher", "idx=%d", (int) idx);
    if (idx == 5) { volatile char *p = malloc(4); p[4 + (idx == 5)] = 1; free((void *) p); }
    if (idx == 9) { for (;;) ; }
    if (idx == 12) abort();
    mc_distinct(idx);
}
int main(int argc, char **argv) {
    mc_init(argc, argv, "SELFTEST");
    mc_bfs_spec s = { 2, 12, 0, 5, run, NULL, ln };
    mc_bfs_result r;
    mc_bfs("counter", &s, &r);
    if (!mc_replaying && (r.states != 10 || !r.fixpoint)) mc_violation("bfs", "states=%d fixpoint=%d", (int) r.states, r.fixpoint);
    mc_pool("e1", 4, e1case, NULL, 5);
    if (getenv("SELFTEST_CRASH")) mc_pool("crash", 20, crashcase, NULL, 1);
    return mc_finish();
}
