/* C16_pages.h - page alphabet for C16, produced through the real decoder.
 *
 * A small Teletext transmitter (EN 300 706 packet layouts, Hamming 8/4, 24/18 and odd
 * parity coders written here; same construction as harness/C03.c) sends pages to a fresh
 * vbi_decoder through vbi_decode(); the formatted pages are fetched with
 * vbi_fetch_vt_page() at several levels.  Caption pages are produced by feeding line 21
 * byte pairs and fetched with vbi_fetch_cc_page().  The decoders stay alive for the whole
 * run (pages reference DRCS data in the cache).
 */
#ifndef C16_PAGES_H
#define C16_PAGES_H

static unsigned enc_h8(unsigned d)
{
        unsigned d1 = d & 1, d2 = (d >> 1) & 1, d3 = (d >> 2) & 1, d4 = (d >> 3) & 1;
        unsigned p1 = 1 ^ d1 ^ d3 ^ d4, p2 = 1 ^ d1 ^ d2 ^ d4, p3 = 1 ^ d1 ^ d2 ^ d3;
        unsigned p4 = 1 ^ p1 ^ d1 ^ p2 ^ d2 ^ p3 ^ d3 ^ d4;
        return p1 | d1 << 1 | p2 << 2 | d2 << 3 | p3 << 4 | d3 << 5 | p4 << 6 | d4 << 7;
}

static unsigned enc_par(unsigned c)
{
        c &= 0x7F;
        return (__builtin_popcount(c) & 1) ? c : c | 0x80;
}

static void enc_h24(uint8_t *o, unsigned d)
{
        static const int dpos[18] = { 3, 5, 6, 7, 9, 10, 11, 12, 13, 14, 15, 17, 18, 19, 20, 21, 22, 23 };
        unsigned bit[25] = { 0 };
        for (int i = 0; i < 18; i++) bit[dpos[i]] = (d >> i) & 1;
        for (int k = 0; k < 5; k++) {
                unsigned p = 1;
                for (int pos = 1; pos <= 23; pos++)
                        if ((pos & (1 << k)) && pos != (1 << k)) p ^= bit[pos];
                bit[1 << k] = p;
        }
        unsigned p = 1;
        for (int pos = 1; pos <= 23; pos++) p ^= bit[pos];
        bit[24] = p;
        o[0] = o[1] = o[2] = 0;
        for (int pos = 1; pos <= 24; pos++) o[(pos - 1) / 8] |= bit[pos] << ((pos - 1) % 8);
}

static void hdie(const char *fmt, ...)
{
        va_list ap; va_start(ap, fmt);
        fprintf(stderr, "C16: harness self check failed: ");
        vfprintf(stderr, fmt, ap); fprintf(stderr, "\n"); va_end(ap);
        exit(2);
}

#define F_C4  0x001
#define F_C5  0x002     /* newsflash */
#define F_C6  0x004     /* subtitle */
#define F_C7  0x008     /* suppress header */
#define F_C8  0x010
#define F_C9  0x020
#define F_C10 0x040     /* inhibit display */
#define F_C11 0x080
#define F_C12 0x100
#define F_C13 0x200
#define F_C14 0x400

static vbi_decoder *TX;         /* the Teletext decoder all pages live in */
static int tx_count;

static void tx_send(const uint8_t *b)
{
        vbi_sliced sl; memset(&sl, 0, sizeof sl);
        sl.id = VBI_SLICED_TELETEXT_B; sl.line = 7 + (tx_count % 16);
        memcpy(sl.data, b, 42);
        vbi_decode(TX, &sl, 1, 1000.0 + 0.04 * tx_count);
        tx_count++;
}

static void tx_mrag(uint8_t *b, int mag, int no)
{
        memset(b, 0, 42);
        b[0] = enc_h8((mag & 7) | ((no & 1) << 3));
        b[1] = enc_h8(no >> 1);
}

static void tx_header(int mag, int page, int sub, int flags)
{
        uint8_t b[42]; char ht[40];
        tx_mrag(b, mag, 0);
        b[2] = enc_h8(page & 15); b[3] = enc_h8(page >> 4);
        b[4] = enc_h8(sub & 15);
        b[5] = enc_h8(((sub >> 4) & 7) | (!!(flags & F_C4) << 3));
        b[6] = enc_h8((sub >> 8) & 15);
        b[7] = enc_h8(((sub >> 12) & 3) | (!!(flags & F_C5) << 2) | (!!(flags & F_C6) << 3));
        b[8] = enc_h8((!!(flags & F_C7)) | (!!(flags & F_C8)) << 1 | (!!(flags & F_C9)) << 2 | (!!(flags & F_C10)) << 3);
        b[9] = enc_h8((!!(flags & F_C11)) | (!!(flags & F_C12)) << 1 | (!!(flags & F_C13)) << 2 | (!!(flags & F_C14)) << 3);
        snprintf(ht, sizeof ht, "%X%02X ZVBI-C16 Mon 29 Sep\00312:34:56", (mag & 7) ? (mag & 7) : 8, page);
        if (strlen(ht) != 32) hdie("header text length %d", (int) strlen(ht));
        for (int i = 0; i < 32; i++) b[10 + i] = enc_par((unsigned char) ht[i]);
        tx_send(b);
}

/* a text row given as bytes; n < 40 is padded with spaces */
static void tx_rowb(int mag, int r, const uint8_t *s, int n)
{
        uint8_t b[42];
        tx_mrag(b, mag, r);
        for (int i = 0; i < 40; i++) b[2 + i] = enc_par(i < n ? s[i] : ' ');
        tx_send(b);
}
static void tx_row(int mag, int r, const char *s) { tx_rowb(mag, r, (const uint8_t *) s, (int) strlen(s)); }

/* a text row with one control/character byte placed at a given column */
static void tx_row_at(int mag, int r, const char *s, int col, int code, const char *tail)
{
        uint8_t t[40]; memset(t, ' ', 40);
        int l = (int) strlen(s); if (l > 40) l = 40;
        memcpy(t, s, l);
        t[col] = code;
        for (int i = 0; tail[i] && col + 1 + i < 40; i++) t[col + 1 + i] = tail[i];
        tx_rowb(mag, r, t, 40);
}

static unsigned TRIP(unsigned addr, unsigned mode, unsigned data) { return (addr & 0x3F) | (mode & 0x1F) << 6 | (data & 0x7F) << 11; }
#define TERM TRIP(63, 0x1F, 0x07)

static void tx_triplets(int mag, int no, int desig, const unsigned *trip, int n)
{
        uint8_t b[42];
        tx_mrag(b, mag, no);
        b[2] = enc_h8(desig);
        for (int i = 0; i < 13; i++) enc_h24(b + 3 + 3 * i, i < n ? trip[i] : TERM);
        tx_send(b);
}

/* X/26: any number of triplets, split into designations 0.. */
static void tx_x26(int mag, const unsigned *trip, int n)
{
        for (int d = 0; d * 13 < n; d++)
                tx_triplets(mag, 26, d, trip + d * 13, n - d * 13 > 13 ? 13 : n - d * 13);
}

struct bitw { unsigned trip[13]; int n; };
static void put_bits(struct bitw *w, unsigned v, int n)
{
        for (int i = 0; i < n; i++, w->n++)
                if ((v >> i) & 1) w->trip[w->n / 18] |= 1u << (w->n % 18);
}

/* X/28/0 format 1 (EN 300 706 9.4.2): character sets, CLUT 2 and 3, default colours */
static void tx_x28_0(int mag, int charset0, int charset1, int salt, int screen, int rowc, int remap)
{
        struct bitw w; memset(&w, 0, sizeof w);
        put_bits(&w, 0, 4);                      /* page function: level one page */
        put_bits(&w, 0, 3);                      /* coding */
        put_bits(&w, charset0, 7); put_bits(&w, charset1, 7);
        put_bits(&w, 0, 1); put_bits(&w, 0, 1); put_bits(&w, 0, 1); put_bits(&w, 0, 4);
        for (int i = 0; i < 16; i++) put_bits(&w, (0x123 * (i + 1) + salt * 0x111) & 0xFFF, 12);
        put_bits(&w, screen & 31, 5); put_bits(&w, rowc & 31, 5);
        put_bits(&w, 0, 1); put_bits(&w, remap & 7, 3);
        if (w.n != 13 * 18) hdie("X/28 bit count %d", w.n);
        tx_triplets(mag, 28, 0, w.trip, 13);
}

/* X/27/4: six links of two triplets each; link 2 = GDRCS, link 3 = DRCS (the formatter
 * reads link[26] for global and link[25] for normal DRCS); unused links point to page FF */
static void tx_x27_4(int mag, const int *pgno /* 6 */)
{
        unsigned t[13];
        for (int i = 0; i < 6; i++) {
                int p = pgno[i] < 0 ? (mag << 8 | 0xFF) : pgno[i];
                unsigned m = ((p >> 8) & 7) ^ (mag & 7);
                t[2 * i]     = ((unsigned)(i & 3) | ((p & 0xF) << 7) | (m << 12) | (((p >> 4) & 0xF) << 15)) & 0x3FFFF;
                t[2 * i + 1] = 0;                /* subcode flags: none required */
        }
        t[12] = 0;
        tx_triplets(mag, 27, 4, t, 13);
}

/* X/27/0: six FLOF links and the link control byte (display row 24) */
static void tx_x27_0(int mag, const int *links)
{
        uint8_t b[42];
        tx_mrag(b, mag, 27);
        b[2] = enc_h8(0);
        for (int i = 0; i < 6; i++) {
                int off = 3 + 6 * i, pgno = links[i], sub = 0x3F7F;
                int m = ((pgno >> 8) & 7) ^ (mag & 7);
                b[off + 0] = enc_h8(pgno & 15);
                b[off + 1] = enc_h8((pgno >> 4) & 15);
                b[off + 2] = enc_h8(sub & 15);
                b[off + 3] = enc_h8(((sub >> 4) & 7) | (m & 1) << 3);
                b[off + 4] = enc_h8((sub >> 8) & 15);
                b[off + 5] = enc_h8(((sub >> 12) & 3) | ((m >> 1) & 3) << 2);
        }
        b[39] = enc_h8(0xF);
        b[40] = 0x12; b[41] = 0x34;
        tx_send(b);
}

/* ---- the alphabet ---------------------------------------------------------------- */

#define MAXPG 48
struct apage {
        char    name[64];
        vbi_page pg;
        int     is_cc;
        int     quick;          /* member of the quick tier subset */
        int     has_conceal, has_flash, has_wide, has_drcs, last_col_wide, orphan;
};
static struct apage PG[MAXPG];
static int nPG;

static int cell_is_wide(const vbi_char *c) { return c->size == VBI_DOUBLE_WIDTH || c->size == VBI_DOUBLE_SIZE || c->size == VBI_DOUBLE_SIZE2; }

static void add_page(const char *name, const vbi_page *pg, int is_cc, int quick)
{
        if (nPG >= MAXPG) hdie("too many pages");
        struct apage *a = &PG[nPG++];
        memset(a, 0, sizeof *a);
        snprintf(a->name, sizeof a->name, "%s", name);
        a->pg = *pg; a->is_cc = is_cc; a->quick = quick;
        for (int r = 0; r < pg->rows; r++)
                for (int c = 0; c < pg->columns; c++) {
                        const vbi_char *ch = &pg->text[r * pg->columns + c];
                        if (ch->conceal) a->has_conceal = 1;
                        if (ch->flash) a->has_flash = 1;
                        if (cell_is_wide(ch)) { a->has_wide = 1; if (c == pg->columns - 1) a->last_col_wide = 1; }
                        if (vbi_is_drcs(ch->unicode)) a->has_drcs = 1;
                        /* a right half whose left neighbour is not an enlarged character: no renderer draws this cell */
                        if ((ch->size == VBI_OVER_TOP || ch->size == VBI_OVER_BOTTOM) && (c == 0 || !cell_is_wide(ch - 1))) a->orphan = 1;
                }
}

static void fetch_vt(const char *name, int pgno, vbi_wst_level level, int rows, int nav, int quick)
{
        static vbi_page pg;
        memset(&pg, 0, sizeof pg);
        if (!vbi_fetch_vt_page(TX, &pg, pgno, VBI_ANY_SUBNO, level, rows, nav))
                hdie("page %03x (%s) not produced by the decoder", pgno, name);
        /* the page is kept referenced until exit */
        add_page(name, &pg, 0, quick);
}

static void ev_nop(vbi_event *e, void *ud) { (void) e; (void) ud; }

static void g0_rows(int mag, int first)
{
        /* the whole G0 range 0x20..0x7F, 32 characters per row, preceded by a colour code */
        for (int k = 0; k < 3; k++) {
                uint8_t t[40]; memset(t, ' ', 40);
                t[0] = 0x02 + k;
                for (int i = 0; i < 32; i++) t[2 + i] = 0x20 + 32 * k + i;
                tx_rowb(mag, first + k, t, 40);
        }
}

static void build_teletext_pages(void)
{
        TX = vbi_decoder_new();
        if (!TX) hdie("vbi_decoder_new");
        if (!vbi_event_handler_register(TX, VBI_EVENT_TTX_PAGE, ev_nop, NULL)) hdie("event handler");

        /* 100: plain text, colours, links, FLOF row 24 */
        tx_header(1, 0x00, 0, 0);
        {
                static const int links[6] = { 0x101, 0x102, 0x203, 0x104, 0x8FF, 0x100 };
                tx_x27_0(1, links);
        }
        tx_row(1, 1, "\007ZVBI C16 plain page  \003yellow\006cyan\002green");
        tx_row(1, 2, "A row starting in column 0, <&> \"quoted\"");
        tx_row(1, 3, "\001see page 101 and 234, also p.888");
        tx_row(1, 4, "\004\035\007http://www.example.com/a?b=c&d=e");
        tx_row(1, 5, "\005mail to someone@example.org now");
        tx_row(1, 6, "\006www.example.net ftp://ftp.example.org/x");
        /* (no run of 9 or more digits on a page fetched with navigation: the link scanner of
         * the formatter, teletext.c keyword(), overflows a signed int there - not this property) */
        tx_row(1, 8, "\002 !\"#$%&'()*+,-./0123 4567 89:;<=>?");
        tx_row(1, 9, "\003@ABCDEFGHIJKLMNOPQRSTUVWXYZ[\\]^_");
        tx_row(1, 10, "\004`abcdefghijklmnopqrstuvwxyz{|}~\177");
        tx_row(1, 12, "  trailing spaces and a last char      Z");
        tx_row(1, 20, "\003>>201 next           index 100<<");
        tx_row(1, 24, "\001Red  \002Green  \003Yellow  \006Cyan");

        /* 101..108: the eight national option subsets (C12 C13 C14) */
        for (int k = 0; k < 8; k++) {
                tx_header(1, 0x01 + k, 0, (k & 1 ? F_C12 : 0) | (k & 2 ? F_C13 : 0) | (k & 4 ? F_C14 : 0));
                tx_row(1, 1, "national option characters:");
                tx_row(1, 2, "\003 # $ @ [ \\ ] ^ _ ` { | } ~ \177");
                g0_rows(1, 4);
                tx_row(1, 23, "#$@[\\]^_`{|}~#$@[\\]^_`{|}~#$@[\\]^_`{|}~#");
        }

        /* 109: character sizes */
        tx_header(1, 0x09, 0, 0);
        tx_row(1, 1, "\015Double height row\014normal again");
        tx_row(1, 3, "\016Double width\014n\016W");
        tx_row(1, 4, "\017Double size\014n\017S\014.");
        tx_row_at(1, 6, "width code in column 37", 37, 0x0E, "W");
        tx_row_at(1, 7, "width code in column 38", 38, 0x0E, "W");
        tx_row_at(1, 8, "size code in column 37", 37, 0x0F, "S");
        tx_row_at(1, 10, "size code in column 38", 38, 0x0F, "S");
        tx_row(1, 12, "ab\016cd\014ef\015gh\017ij\014kl");
        tx_row_at(1, 14, "\003first cell of the row double size", 0, 0x0F, "Size from column 1");
        tx_row(1, 16, "\016\010wide flashing\011\030wide concealed");
        tx_row(1, 22, "\015Double height in row 22");

        /* 110: attributes */
        tx_header(1, 0x10, 0, 0);
        tx_row(1, 1, "\030concealed text\007 revealed by colour");
        tx_row(1, 2, "\010flashing\011steady \002\010green flash");
        tx_row(1, 3, "\013\013boxed text\012\012 not boxed");
        tx_row(1, 4, "\021\177\177\065\152\040\031\132\032\161\162\163\031\164");
        tx_row(1, 5, "\022\036\177\001\002\037x\023\065\036\006\006y");
        tx_row(1, 6, "\004\035\007white on blue\034 black again");
        tx_row(1, 7, "a\033b\033c  \030\021\177\177 concealed mosaic");
        tx_row(1, 8, "\001\035\022\177\177\177\032\177\177\177\003text");
        tx_row(1, 23, "\015row 23: double height is ignored");
        tx_row(1, 24, "\017row 24: double size is ignored");

        /* 111: newsflash (C5), 112: subtitle with suppressed header (C6 C7), 113: inhibit display (C10) */
        tx_header(1, 0x11, 0, F_C5);
        tx_row(1, 1, "outside the box");
        tx_row(1, 10, "  \013\013\003NEWSFLASH: boxed text \012\012 outside");
        tx_row(1, 11, "  \013\013\015tall boxed\012\012");
        tx_header(1, 0x12, 0, F_C6 | F_C7);
        tx_row(1, 20, "     \013\013\006A subtitle line in a box\012\012");
        tx_row(1, 22, "     \013\013\007second line\012\012   ");
        tx_header(1, 0x13, 0, F_C10);
        tx_row(1, 5, "display inhibited");

        /* 15F: a DRCS page (page function unknown until a page invokes it; the X/27/4 parser
         * of the library can only express page tens 0..7) */
        tx_header(1, 0x5F, 0, 0);
        for (int r = 1; r <= 3; r++) {
                uint8_t t[40];
                for (int i = 0; i < 40; i++) t[i] = 0x40 | ((i * 7 + r * 13 + (i >> 2)) & 0x3F);
                tx_rowb(1, r, t, 40);
        }

        /* 120: Level 2.5: X/28/0 colour map, X/27/4 link to the DRCS page, X/26 characters */
        tx_header(1, 0x20, 0, 0);
        tx_x28_0(1, 0, 0, 1, 20, 17, 2);
        {
                static const int l4[6] = { -1, -1, 0x15F, 0x15F, -1, -1 };
                tx_x27_4(1, l4);
                const unsigned t[] = {
                        TRIP(41, 0x04, 0),
                        TRIP(2, 0x00, 0x0C), TRIP(3, 0x09, 'A'), TRIP(5, 0x0F, 0x41), TRIP(6, 0x0F, 0x2B),
                        TRIP(7, 0x12, 'a'), TRIP(8, 0x18, 'o'), TRIP(9, 0x02, 0x35), TRIP(11, 0x01, 0x7F),
                        TRIP(12, 0x01, 0x41), TRIP(13, 0x0D, 0x00), TRIP(14, 0x0D, 0x01), TRIP(15, 0x0D, 0x05),
                        TRIP(16, 0x03, 0x08), TRIP(17, 0x09, 'T'), TRIP(19, 0x03, 0x1A), TRIP(20, 0x00, 0x08), TRIP(21, 0x09, 'f'),
                        TRIP(22, 0x0C, 0x02), TRIP(23, 0x03, 0x08), TRIP(23, 0x00, 0x03), TRIP(24, 0x09, 't'), TRIP(26, 0x00, 0x08), TRIP(27, 0x09, 'u'), TRIP(29, 0x0C, 0x00),
                        TRIP(43, 0x04, 4), TRIP(4, 0x0D, 0x02), TRIP(5, 0x0D, 0x03), TRIP(6, 0x0F, 0x50),
                        TRIP(44, 0x01, 0x05),
                        TRIP(45, 0x04, 10), TRIP(10, 0x0B, 0x5F), TRIP(11, 0x02, 0x6A), TRIP(12, 0x10, '*'),
                        TRIP(40, 0x04, 3), TRIP(3, 0x09, 'N'),
                        TERM };
                tx_x26(1, t, (int)(sizeof t / sizeof *t));
        }
        tx_row(1, 1, "\006enhanced: .....................");
        tx_row(1, 2, "\003level one text under the objects");
        tx_row(1, 3, "DRCS ...... here");
        tx_row(1, 4, "\001full row colour");
        tx_row(1, 5, "\002G3 and G1 ..........");
        tx_row(1, 24, "\004nav row");

        /* 121: Level 2.5 display attributes: double width / size / underline / invert / conceal / flash */
        tx_header(1, 0x21, 0, 0);
        {
                const unsigned t[] = {
                        TRIP(42, 0x04, 0),
                        TRIP(0, 0x0C, 0x40), TRIP(1, 0x09, 'W'), TRIP(3, 0x09, 'X'),
                        TRIP(10, 0x0C, 0x41), TRIP(10, 0x09, 'S'), TRIP(12, 0x09, 'Z'),
                        TRIP(20, 0x0C, 0x20), TRIP(21, 0x09, 'U'),
                        TRIP(24, 0x0C, 0x10), TRIP(25, 0x09, 'I'),
                        TRIP(28, 0x0C, 0x04), TRIP(29, 0x09, 'C'),
                        TRIP(32, 0x0C, 0x00), TRIP(32, 0x07, 0x01), TRIP(33, 0x09, 'F'),
                        TRIP(45, 0x04, 0), TRIP(0, 0x0C, 0x01), TRIP(2, 0x09, 'H'), TRIP(3, 0x0C, 0x21), TRIP(4, 0x01, 0x6B), TRIP(5, 0x0C, 0),
                        TRIP(48, 0x04, 5), TRIP(5, 0x0C, 0x41), TRIP(5, 0x0D, 0x00), TRIP(7, 0x0D, 0x01), TRIP(9, 0x0C, 0x40), TRIP(9, 0x0D, 0x02),
                        TERM };
                static const int l4[6] = { -1, -1, 0x15F, 0x15F, -1, -1 };
                tx_x27_4(1, l4);
                tx_x26(1, t, (int)(sizeof t / sizeof *t));
        }
        tx_row(1, 1, "\007display attributes by X/26");
        tx_row(1, 2, "\003.......................................");
        tx_row(1, 5, "\002.......................................");
        tx_row(1, 8, "\006.....DRCS in double size and width");

        /* 122: X/26 double width character in column 39, column 0 blank and black in all rows */
        tx_header(1, 0x22, 0, 0);
        {
                const unsigned t[] = { TRIP(43, 0x04, 30), TRIP(38, 0x0C, 0x40), TRIP(39, 0x09, 'W'), TERM };
                tx_x26(1, t, (int)(sizeof t / sizeof *t));
        }
        tx_row(1, 1, "\007double width in column 39 by X/26");
        tx_row(1, 3, "\003.......................................");

        /* 123: the same with a character in column 0 of one row */
        tx_header(1, 0x23, 0, 0);
        {
                const unsigned t[] = { TRIP(43, 0x04, 30), TRIP(38, 0x0C, 0x40), TRIP(39, 0x09, 'W'), TERM };
                tx_x26(1, t, (int)(sizeof t / sizeof *t));
        }
        tx_row(1, 1, "Text from column 0; X/26 width in col 39");
        tx_row(1, 3, "\003.......................................");

        /* 124: Cyrillic (Russian/Bulgarian) G0 with Latin second set; 125: Greek */
        tx_header(1, 0x24, 0, 0);
        tx_x28_0(1, 0x24, 0x00, 2, 0, 0, 0);
        tx_row(1, 1, "\007Cyrillic G0, ESC to Latin: \033Latin\033 back");
        g0_rows(1, 3);
        tx_header(1, 0x25, 0, 0);
        tx_x28_0(1, 0x37, 0x00, 3, 0, 0, 0);
        tx_row(1, 1, "\007Greek G0");
        g0_rows(1, 3);

        /* terminate the last page */
        tx_header(1, 0x99, 0, 0);
        tx_row(1, 1, "end");
        tx_header(1, 0xFF, 0x3F7F, 0);

        fetch_vt("vt100 plain L2.5 nav", 0x100, VBI_WST_LEVEL_2p5, 25, 1, 1);
        fetch_vt("vt100 plain L1 no nav", 0x100, VBI_WST_LEVEL_1, 25, 0, 0);
        fetch_vt("vt100 header only", 0x100, VBI_WST_LEVEL_2p5, 1, 0, 1);
        fetch_vt("vt100 12 rows", 0x100, VBI_WST_LEVEL_1p5, 12, 1, 0);
        for (int k = 0; k < 8; k++) {
                char n[64]; snprintf(n, sizeof n, "vt%03x national option %d", 0x101 + k, k);
                fetch_vt(n, 0x101 + k, VBI_WST_LEVEL_1p5, 25, 0, k == 1);
        }
        fetch_vt("vt109 sizes", 0x109, VBI_WST_LEVEL_1p5, 25, 0, 1);
        fetch_vt("vt110 attributes", 0x110, VBI_WST_LEVEL_1p5, 25, 0, 1);
        fetch_vt("vt111 newsflash", 0x111, VBI_WST_LEVEL_2p5, 25, 0, 0);
        fetch_vt("vt112 subtitle", 0x112, VBI_WST_LEVEL_2p5, 25, 0, 0);
        fetch_vt("vt113 inhibit display", 0x113, VBI_WST_LEVEL_1, 25, 0, 0);
        fetch_vt("vt120 enhanced L2.5", 0x120, VBI_WST_LEVEL_2p5, 25, 1, 1);
        fetch_vt("vt120 enhanced L3.5", 0x120, VBI_WST_LEVEL_3p5, 25, 0, 0);
        fetch_vt("vt120 enhanced L1.5", 0x120, VBI_WST_LEVEL_1p5, 25, 0, 0);
        fetch_vt("vt120 enhanced L1", 0x120, VBI_WST_LEVEL_1, 25, 0, 0);
        fetch_vt("vt121 X/26 attributes L2.5", 0x121, VBI_WST_LEVEL_2p5, 25, 0, 1);
        fetch_vt("vt122 X/26 width col 39", 0x122, VBI_WST_LEVEL_2p5, 25, 0, 1);
        fetch_vt("vt123 X/26 width col 39, text in col 0", 0x123, VBI_WST_LEVEL_2p5, 25, 0, 1);
        fetch_vt("vt124 cyrillic", 0x124, VBI_WST_LEVEL_2p5, 25, 0, 1);
        fetch_vt("vt125 greek", 0x125, VBI_WST_LEVEL_2p5, 25, 0, 0);
}

/* ---- caption ----------------------------------------------------------------------- */

static vbi_decoder *CX;
static int cc_count;

static void cc_pair(int a, int b)
{
        vbi_sliced sl; memset(&sl, 0, sizeof sl);
        sl.id = VBI_SLICED_CAPTION_525; sl.line = 21;
        sl.data[0] = enc_par(a); sl.data[1] = enc_par(b);
        vbi_decode(CX, &sl, 1, 2000.0 + cc_count / 30.0);
        cc_count++;
}
static void cc_ctl(int a, int b) { cc_pair(a, b); cc_pair(a, b); }      /* control codes are sent twice */
static void cc_text(const char *s)
{
        int l = (int) strlen(s);
        for (int i = 0; i < l; i += 2) cc_pair((unsigned char) s[i], i + 1 < l ? (unsigned char) s[i + 1] : 0);
}

static void fetch_cc(const char *name, int pgno, int quick)
{
        static vbi_page pg;
        memset(&pg, 0, sizeof pg);
        if (!vbi_fetch_cc_page(CX, &pg, pgno, TRUE)) hdie("caption page %d not produced", pgno);
        if (pg.columns != 34 || pg.rows != 15) hdie("caption page geometry %dx%d", pg.columns, pg.rows);
        add_page(name, &pg, 1, quick);
}

static void build_caption_pages(void)
{
        CX = vbi_decoder_new();
        if (!CX) hdie("vbi_decoder_new");
        if (!vbi_event_handler_register(CX, VBI_EVENT_CAPTION, ev_nop, NULL)) hdie("event handler");

        /* pop-on caption on CC1: RCL, PACs, text, mid-row codes, special characters, EOC */
        cc_ctl(0x14, 0x20);                      /* RCL */
        cc_ctl(0x14, 0x2E);                      /* ENM */
        cc_ctl(0x13, 0x52);                      /* PAC row 12, indent 4 */
        cc_text("Pop-on <caption> & more");
        cc_ctl(0x14, 0x4E);                      /* PAC row 14, italics */
        cc_text("italic");
        cc_ctl(0x11, 0x29);                      /* mid-row: red underlined */
        cc_text("red_ul");
        cc_ctl(0x11, 0x37);                      /* special character: music note */
        cc_ctl(0x11, 0x30);                      /* registered mark */
        cc_ctl(0x14, 0x70);                      /* PAC row 15, white */
        cc_text("\052\134\136\137\140\173\174\175\176\177");   /* the non-ASCII basic characters */
        cc_ctl(0x14, 0x2F);                      /* EOC */
        fetch_cc("cc1 pop-on", 1, 1);

        /* roll-up on CC1 */
        cc_ctl(0x14, 0x2C);                      /* EDM */
        cc_ctl(0x14, 0x26);                      /* RU3 */
        cc_ctl(0x14, 0x70);                      /* PAC row 15 */
        cc_text("first roll-up line");
        cc_ctl(0x14, 0x2D);                      /* CR */
        cc_ctl(0x14, 0x63);                      /* PAC row 15 green underline */
        cc_text("second line, green underlined");
        cc_ctl(0x14, 0x2D);
        cc_text("third line at the left edge....34");
        fetch_cc("cc1 roll-up", 1, 1);

        /* paint-on in row 1 and text mode on T1 */
        cc_ctl(0x14, 0x29);                      /* RDC */
        cc_ctl(0x11, 0x48);                      /* PAC row 1 red */
        cc_text("painted on row 1");
        cc_ctl(0x17, 0x22);                      /* tab offset 2 */
        cc_text("tab");
        fetch_cc("cc1 paint-on", 1, 0);
        cc_ctl(0x14, 0x2A);                      /* TR: text restart */
        cc_text("Text mode line one");
        cc_ctl(0x14, 0x2D);
        cc_text("Text mode line two");
        fetch_cc("t1 text mode", 5, 0);
}

static void dump_pages(void)
{
        for (int i = 0; i < nPG; i++) {
                const vbi_page *pg = &PG[i].pg;
                printf("=== %d: %s  pgno=%x rows=%d cols=%d conceal=%d flash=%d wide=%d drcs=%d lastwide=%d orphan=%d screen=%d/%d\n", i, PG[i].name, pg->pgno,
                       pg->rows, pg->columns, PG[i].has_conceal, PG[i].has_flash, PG[i].has_wide, PG[i].has_drcs, PG[i].last_col_wide, PG[i].orphan,
                       pg->screen_color, pg->screen_opacity);
                for (int r = 0; r < pg->rows; r++) {
                        printf("%2d |", r);
                        for (int c = 0; c < pg->columns; c++) {
                                const vbi_char *ch = &pg->text[r * pg->columns + c];
                                unsigned u = ch->unicode;
                                putchar(u >= 0x20 && u < 0x7F ? (int) u : vbi_is_gfx(u) ? '#' : vbi_is_drcs(u) ? 'D' : u < 0xE600 ? '?' : '!');
                        }
                        printf("| sz:");
                        for (int c = 0; c < pg->columns; c++) putchar('0' + pg->text[r * pg->columns + c].size);
                        printf(" op:");
                        for (int c = 0; c < pg->columns; c++) putchar('0' + pg->text[r * pg->columns + c].opacity);
                        printf("\n");
                }
        }
}

#endif
