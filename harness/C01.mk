# C01: the sanitizers are the oracle.  The stock `asan' variant builds UBSan with
# -fno-sanitize-recover, so the first undefined shift ends the execution: `-1 << 4' in
# vbi_unham16p() (src/hamm.h) is reached by nearly every packet with an uncorrectable Hamming
# byte and would mask everything behind it.  C01 therefore builds its own library variant
# `asanr' = ASan + the same UBSan checks in *recoverable* mode; the harness takes every UBSan
# report through the runtime's __ubsan_on_report() hook, turns it into one violation per source
# location (UBSan itself reports a location once per process) and execution continues, so a
# known UB site never hides an overflow, an assert or another UB site.  ASan errors and asserts
# still abort the worker (engine crash attribution).
#
# malloc/calloc/realloc/free are wrapped for the allocator accounting oracle ("when the decoder
# is deleted every byte it allocated has been released", growth bound) and to recycle the two
# big per-decoder blocks (struct vbi_decoder, cache_network) which are a fresh mmap each under
# ASan otherwise (C11 does the same).  All other blocks stay ordinary ASan allocations.
CC_asanr     := clang
CFLAGS_asanr := -O1 -g -fno-omit-frame-pointer -fsanitize=address,$(UBSAN_CHECKS) -fsanitize-recover=$(UBSAN_CHECKS)
$(eval $(call VARIANT_RULES,asanr))
VARIANT_C01 := asanr
HLINK_C01   := -Wl,--wrap=malloc,--wrap=calloc,--wrap=realloc,--wrap=free
HDEPS_C01   := harness/C01.mk
