/* C03 - Transmission errors in Teletext are corrected or contained, never shown as data.
 *
 * Fault enumeration (DESIGN.md C03) over 16 base transmissions built by a small
 * transmitter model written here (EN 300 706 packet layouts: header, text rows, X/26,
 * X/27/0, X/27/4, X/28/0, X/28/4, M/29/0, 8/30 format 1 and 2, Hamming coded MOT rows).
 * The model also says which bytes of each packet are Hamming 8/4, Hamming 24/18, odd
 * parity or unprotected - that classification is NOT taken from the decoder.  The
 * Hamming/parity encoders are written here too and compared with the library's forward
 * tables at start up (self check, exit 2).
 *
 * For every packet of every transmission: every single bit flip (336), every pair of
 * flips inside one protected unit, every burst of 2..8 adjacent bits, and every single
 * dropped packet; thorough adds every pair of flips anywhere in a packet.  Each faulted
 * transmission runs on a fresh vbi_decoder through the public vbi_decode() and is
 * compared with reference runs on fresh decoders:
 *
 *  (a) every Hamming unit hit at most once, nothing else hit  => full canonical state
 *      (event sequence, cache keys + raw pages, all pages fetched at level 2.5 with
 *      navigation, network data, the 8 pages in progress, rolling header) equals the
 *      fault free run.
 *  (b) MRAG byte with two flips, or designation byte with two flips => full state equals
 *      the run with that packet dropped.  Header whose page number / subcode / control
 *      bytes (bytes 2..9) have two flips in one byte => observable state (event multiset,
 *      cache, fetched pages, network data) equals a fault free run of the transmission
 *      with the page that header introduces removed, plus any subset of the pages in
 *      progress at that moment removed ("only abandons the pages in progress").  A header
 *      with an uncorrectable MRAG may satisfy either form.
 *  (c) text row 1..25 of a level one page with a parity error outside X/26 addressed
 *      cells: at every later step until the page is transmitted again the fetched page
 *      (level 1) shows, in the cells X/26 does not address, either the row transmitted
 *      earlier for this page (transmitter model, independent level 1 character model) or a
 *      blank row.  Header row: the damaged cells show a blank or the earlier character.
 *      Containment ("the row keeps its earlier content", nothing else happens): when every
 *      damaged text byte has a detectable (odd) number of flips, everything but the damaged
 *      row equals the fault free run: set of cached pages, raw contents and fetched form of
 *      all other pages, the other rows / links / enhancement data of this page (raw and
 *      fetched), network data, and the event log (row fault: the complete sequence; header
 *      fault: event kinds and page numbers, because a damaged header legitimately cannot
 *      serve as rolling header reference, which changes header_update / clock_update flags).
 *  (d) at most two flips in every protected byte/triplet: every cached (pgno, subno) and
 *      every TTX_PAGE event names a page that the transmission contains.
 *  (e) X/26 packet with an uncorrectable triplet (two flips in one Hamming 24/18 unit, address and
 *      designation at most corrected): every cell of the page fetched at level 1.5 shows the character
 *      of the fault free run or the character of the page without its X/26 packets - the triplets behind
 *      the damaged one are dropped, not applied at another position ("corrected or contained"; the
 *      property's anchor "X/26 ... triplets are dropped, not misplaced").  Added after seed C03-4.
 *  (f) X/27 packet with an uncorrectable link byte (two flips in one Hamming 8/4 byte of a link): every FLOF link
 *      of the fetched page is the link of the fault free run or the link the page has without this packet.
 *      Added after seed C03-6.
 *  (g) X/28 or M/29 packet with an uncorrectable triplet (two flips in one Hamming 24/18 unit, address and
 *      designation at most corrected): these packets carry nothing but control data (page function and coding,
 *      character set designation, colour map, default screen / row colour, CLUT remapping), so the property's
 *      "a packet whose ... control bytes are uncorrectable changes nothing" covers each of their 13 triplets:
 *      the packet "changes nothing" - the full canonical state equals the run with
 *      that packet dropped, and an observer that looks at what X/28 / M/29 control finds the same as in the
 *      packet-dropped run: every transmitted page fetched at levels 1, 1.5, 2.5 and 3.5 has the same character
 *      set (vbi_page.font, Unicode of every cell), color_map, screen_color, screen_opacity and cell attributes
 *      (row colour / CLUT remapping).  Added after seed C03 round 5, together with the three base transmissions
 *      "... retransmitted over the cached copy": a page carrying X/28/0 (non Latin character sets, own colour map,
 *      screen colour) in a magazine with M/29/0 + M/29/4; a page carrying X/28/4 alone and one carrying X/28/0 +
 *      X/28/4; a page carrying X/26/0-1 + X/27/0 + X/27/4 - each transmitted a SECOND time while the first, fault
 *      free copy is in the cache.  In these three transmissions the faults are enumerated in the packets of the
 *      second transmission cycle only (a fault in the first cycle is the history the other transmissions cover).
 *      The seed selected the page's extension (and overwrote it with the magazine defaults) before all triplets of
 *      the X/28 were validated, which only shows when an earlier good X/28 is carried over from the cache.
 *  (h) packet 8/30 under every subset of event handlers (added after seed C03 round 6).  Which of its checks the
 *      decoder applies to a packet 8/30 depends on the registered handlers: the initial page link is decoded only
 *      with a TTX_PAGE handler, parse_bsd() (CNI) only with a NETWORK / NETWORK_ID handler, the local time only with
 *      a LOCAL_TIME handler, the PDC label only with a PROG_ID handler - and an earlier stage that rejects the packet
 *      hides what a later stage would have done with it.  All other phases register ONE handler for all five event
 *      types, so of these stages only the first one that fails was ever observed.  Phase "handler-subsets-830":
 *      every 8/30 packet of the base transmissions x every one of the 31 non-empty subsets of { TTX_PAGE, NETWORK,
 *      NETWORK_ID, LOCAL_TIME, PROG_ID } x every single flip and every pair of flips inside every Hamming 8/4 byte
 *      of the packet (address, designation, initial page link, the 13 PDC bytes of format 2).  Reference runs use the
 *      same handler subset.  Single flip: full canonical state (events with their payload, in order) equals the
 *      fault free run.  Two flips in an address byte, the designation byte or a PDC byte of format 2 (everything the
 *      PROG_ID / NETWORK payload is made of is control data: label flags, CNI, PIL, PTY): "changes nothing" - the
 *      full state equals the run with the packet dropped, so in particular no event carries values that were never
 *      transmitted.  Two flips in a byte of the initial page link: the state equals the packet dropped run or the
 *      fault free run (a decoder without TTX_PAGE handler does not look at the link at all; either way nothing
 *      untransmitted shows).  The same patterns go through the public vbi_decode_teletext_8302_pdc(): a single flip
 *      gives the fault free label, two flips in a PDC byte must be refused.
 *
 * Deviations from DESIGN.md: flat enumeration inside pool cases instead of mc_choose()
 * (one "deviation" = one fault pattern on one packet; nothing is gained by prefix
 * replay because every run needs a fresh decoder anyway); (b) for headers is stated
 * against transmissions with pages removed rather than against vbi_teletext_desync(),
 * so the reference needs nothing from the decoder under test but a fault free run.
 * The header text row is always stored by the decoder (it carries page number and
 * clock); for it (c) is checked cell wise on the damaged cells only.
 */
#include <stdio.h>
#include <stdlib.h>
#include <string.h>
#include <stdint.h>
#include <stdarg.h>
#include <unistd.h>
#include <fcntl.h>
#include <signal.h>
#include <sys/wait.h>
#include "mc.h"
#include "src/vbi.h"
#include "src/hamm.h"
#include "src/format.h"
#include "src/lang.h"
#include "src/packet-830.h"

/* ---- independent coders --------------------------------------------------------- */

#define KFF "fault free transmission is not cached and fetched as sent (the base of the differential oracle)"

static unsigned enc_h8(unsigned d)
{
        unsigned d1 = d & 1, d2 = (d >> 1) & 1, d3 = (d >> 2) & 1, d4 = (d >> 3) & 1;
        unsigned p1 = 1 ^ d1 ^ d3 ^ d4, p2 = 1 ^ d1 ^ d2 ^ d4, p3 = 1 ^ d1 ^ d2 ^ d3;
        unsigned p4 = 1 ^ p1 ^ d1 ^ p2 ^ d2 ^ p3 ^ d3 ^ d4;
        return p1 | d1 << 1 | p2 << 2 | d2 << 3 | p3 << 4 | d3 << 5 | p4 << 6 | d4 << 7;
}

static unsigned enc_par(unsigned c)
{
        c &= 0x7F;
        return (__builtin_popcount(c) & 1) ? c : c | 0x80;
}

static void enc_h24(uint8_t *o, unsigned d)
{
        static const int dpos[18] = { 3, 5, 6, 7, 9, 10, 11, 12, 13, 14, 15, 17, 18, 19, 20, 21, 22, 23 };
        unsigned bit[25] = { 0 };
        for (int i = 0; i < 18; i++) bit[dpos[i]] = (d >> i) & 1;
        for (int k = 0; k < 5; k++) {
                unsigned p = 1;
                for (int pos = 1; pos <= 23; pos++)
                        if ((pos & (1 << k)) && pos != (1 << k)) p ^= bit[pos];
                bit[1 << k] = p;
        }
        unsigned p = 1;
        for (int pos = 1; pos <= 23; pos++) p ^= bit[pos];
        bit[24] = p;
        o[0] = o[1] = o[2] = 0;
        for (int pos = 1; pos <= 24; pos++) o[(pos - 1) / 8] |= bit[pos] << ((pos - 1) % 8);
}

static unsigned rev8(unsigned c)
{
        unsigned r = 0;
        for (int i = 0; i < 8; i++) if (c & (1u << i)) r |= 0x80u >> i;
        return r;
}

static void die(const char *fmt, ...)
{
        va_list ap; va_start(ap, fmt);
        fprintf(stderr, "C03: harness self check failed: ");
        vfprintf(stderr, fmt, ap); fprintf(stderr, "\n"); va_end(ap);
        exit(2);
}

/* ---- transmitter model ---------------------------------------------------------- */

enum { K_H8, K_H24, K_PAR, K_RAW };
enum { R_ADDR, R_PAGE, R_SUB12, R_SUB34, R_CTL, R_DESIG, R_DATA, R_TEXT, R_NONE };
enum { PK_HEADER, PK_ROW, PK_X26, PK_X27, PK_X28, PK_M29, PK_8301, PK_8302, PK_HROW, PK_NKINDS };

static const char *pk_name[PK_NKINDS] = { "header", "text row", "X/26", "X/27", "X/28", "M/29", "8/30 format 1", "8/30 format 2", "Hamming 8/4 row" };
static const char *role_name[] = { "address (MRAG)", "page number (bytes 2-3)", "subcode S1/S2 (bytes 4-5)", "subcode S3/S4 (bytes 6-7)",
                                   "control C7-C14 (bytes 8-9)", "designation code", "data", "text", "unclaimed" };
static const char *role_short[] = { "MRAG", "page number", "S1/S2", "S3/S4", "C7-C14", "designation", "data", "text", "-" };
static const char *kind_name[] = { "Hamming 8/4 byte", "Hamming 24/18 triplet", "odd parity byte", "unprotected byte" };

#define F_C4  0x001
#define F_C5  0x002
#define F_C6  0x004
#define F_C7  0x008
#define F_C8  0x010
#define F_C9  0x020
#define F_C10 0x040
#define F_C11 0x080
#define F_C12 0x100
#define F_C13 0x200
#define F_C14 0x400

struct unit { uint8_t off, len, kind, role; };

struct pkt {
        uint8_t b[42];
        uint8_t kind, mag, no;
        int8_t  inst;                  /* page instance this packet belongs to, -1: none */
        uint8_t row;                   /* PK_ROW / PK_HROW */
        uint8_t nu;
        struct unit u[42];
};

#define MAXP 48
#define MAXI 24

struct inst {
        int pgno, subno, flags, mag;
        int hdr;                       /* index of the header packet */
        int lop;                       /* a level one page the decoder formats */
        int filler;
        int nonlatin;                  /* X/28 designates a character set the level one character model below does not cover */
        uint8_t have[26];
        uint8_t row[26][40];           /* 7 bit characters as transmitted */
        uint8_t htext[32];
        /* derived */
        int earlier[26];               /* instance that transmitted this row earlier for the same page, -1 */
        int earlier_hdr;
        int next_same;                 /* header index of the next instance of the same page, or n */
        uint64_t x26mask[26];          /* columns addressed by X/26 in any instance of this page */
};

struct tx {
        const char *name;
        int n, ni, serial;
        int first_fault;               /* faults are enumerated in packets first_fault..n-1 (0 but for the retransmission shapes) */
        struct pkt p[MAXP];
        struct inst in[MAXI];
        int cur[8];
        int ntx; struct { int pgno, subno; } txset[MAXI];
};

#define NT 16
static struct tx T[NT];
static int nT;

static struct pkt *new_pkt(struct tx *t, int kind, int mag, int no, int inst)
{
        if (t->n >= MAXP) die("too many packets in %s", t->name);
        struct pkt *p = &t->p[t->n++];
        memset(p, 0, sizeof *p);
        p->kind = kind; p->mag = mag & 7; p->no = no; p->inst = inst;
        p->b[0] = enc_h8((mag & 7) | ((no & 1) << 3));
        p->b[1] = enc_h8(no >> 1);
        p->u[0] = (struct unit){ 0, 1, K_H8, R_ADDR };
        p->u[1] = (struct unit){ 1, 1, K_H8, R_ADDR };
        p->nu = 2;
        return p;
}

static void add_unit(struct pkt *p, int off, int len, int kind, int role)
{
        p->u[p->nu++] = (struct unit){ off, len, kind, role };
}

static void put_text(struct pkt *p, int off, const uint8_t *s, int n, int role)
{
        for (int i = 0; i < n; i++) { p->b[off + i] = enc_par(s[i]); add_unit(p, off + i, 1, K_PAR, role); }
}

static int tx_header(struct tx *t, int mag, int page, int sub, int flags)
{
        if (t->ni >= MAXI) die("too many instances in %s", t->name);
        if (t->serial) flags |= F_C11;
        int ii = t->ni++;
        struct inst *in = &t->in[ii];
        memset(in, 0, sizeof *in);
        in->mag = mag & 7; in->pgno = ((mag & 7) ? (mag & 7) : 8) * 256 + page; in->subno = sub & 0x3F7F; in->flags = flags;
        in->hdr = t->n; in->filler = (page == 0xFF);
        in->lop = !in->filler && (page & 15) <= 9 && (page >> 4) <= 9;
        struct pkt *p = new_pkt(t, PK_HEADER, mag, 0, ii);
        p->b[2] = enc_h8(page & 15);            add_unit(p, 2, 1, K_H8, R_PAGE);
        p->b[3] = enc_h8(page >> 4);            add_unit(p, 3, 1, K_H8, R_PAGE);
        p->b[4] = enc_h8(sub & 15);             add_unit(p, 4, 1, K_H8, R_SUB12);
        p->b[5] = enc_h8(((sub >> 4) & 7) | (!!(flags & F_C4) << 3));  add_unit(p, 5, 1, K_H8, R_SUB12);
        p->b[6] = enc_h8((sub >> 8) & 15);      add_unit(p, 6, 1, K_H8, R_SUB34);
        p->b[7] = enc_h8(((sub >> 12) & 3) | (!!(flags & F_C5) << 2) | (!!(flags & F_C6) << 3)); add_unit(p, 7, 1, K_H8, R_SUB34);
        p->b[8] = enc_h8((!!(flags & F_C7)) | (!!(flags & F_C8)) << 1 | (!!(flags & F_C9)) << 2 | (!!(flags & F_C10)) << 3); add_unit(p, 8, 1, K_H8, R_CTL);
        p->b[9] = enc_h8((!!(flags & F_C11)) | (!!(flags & F_C12)) << 1 | (!!(flags & F_C13)) << 2 | (!!(flags & F_C14)) << 3); add_unit(p, 9, 1, K_H8, R_CTL);
        char ht[40];
        snprintf(ht, sizeof ht, "%03X ZVBI-C03 Mon 29 Sep 12:34:56", in->pgno);
        if (strlen(ht) != 32) die("header text length");
        memcpy(in->htext, ht, 32);
        put_text(p, 10, in->htext, 32, R_TEXT);
        t->cur[mag & 7] = ii;
        return ii;
}

static void tx_row(struct tx *t, int mag, int r, const char *fmt, ...)
{
        char s[128];
        va_list ap; va_start(ap, fmt); vsnprintf(s, sizeof s, fmt, ap); va_end(ap);
        int ii = t->cur[mag & 7];
        struct inst *in = &t->in[ii];
        uint8_t txt[40];
        int l = strlen(s);
        for (int i = 0; i < 40; i++) {
                int c = i < l ? (unsigned char) s[i] : ' ';
                if (c == '~') c = 0x01 + (i % 7);       /* spacing attribute: alpha colour */
                txt[i] = c;
        }
        struct pkt *p = new_pkt(t, PK_ROW, mag, r, ii);
        p->row = r;
        put_text(p, 2, txt, 40, R_TEXT);
        in->have[r] = 1; memcpy(in->row[r], txt, 40);
}

static unsigned TRIP(unsigned addr, unsigned mode, unsigned data) { return (addr & 0x3F) | (mode & 0x1F) << 6 | (data & 0x7F) << 11; }

static void tx_triplets(struct tx *t, int kind, int mag, int no, int desig, const unsigned *trip, int inst)
{
        struct pkt *p = new_pkt(t, kind, mag, no, inst);
        p->b[2] = enc_h8(desig); add_unit(p, 2, 1, K_H8, R_DESIG);
        for (int i = 0; i < 13; i++) { enc_h24(p->b + 3 + 3 * i, trip[i]); add_unit(p, 3 + 3 * i, 3, K_H24, R_DATA); }
}

static void tx_x26(struct tx *t, int mag, int desig, const unsigned *trip)
{
        int ii = t->cur[mag & 7];
        tx_triplets(t, PK_X26, mag, 26, desig, trip, ii);
}

/* six byte page link (EN 300 706 9.6.1): page, subcode, magazine bits relative to `mag' */
static void put_link(struct pkt *p, int off, int mag, int pgno, int sub)
{
        int m = ((pgno >> 8) & 7) ^ (mag & 7);
        p->b[off + 0] = enc_h8(pgno & 15);
        p->b[off + 1] = enc_h8((pgno >> 4) & 15);
        p->b[off + 2] = enc_h8(sub & 15);
        p->b[off + 3] = enc_h8(((sub >> 4) & 7) | (m & 1) << 3);
        p->b[off + 4] = enc_h8((sub >> 8) & 15);
        p->b[off + 5] = enc_h8(((sub >> 12) & 3) | ((m >> 1) & 3) << 2);
        for (int i = 0; i < 6; i++) add_unit(p, off + i, 1, K_H8, R_DATA);
}

static void tx_x27_0(struct tx *t, int mag, const int *links)
{
        struct pkt *p = new_pkt(t, PK_X27, mag, 27, t->cur[mag & 7]);
        p->b[2] = enc_h8(0); add_unit(p, 2, 1, K_H8, R_DESIG);
        for (int i = 0; i < 6; i++) put_link(p, 3 + 6 * i, mag, links[i], 0x3F7F);
        p->b[39] = enc_h8(0xF); add_unit(p, 39, 1, K_H8, R_DATA);    /* link control */
        p->b[40] = 0x12; p->b[41] = 0x34;                              /* CRC, 8 bit data */
        add_unit(p, 40, 1, K_RAW, R_NONE); add_unit(p, 41, 1, K_RAW, R_NONE);
}

struct bitw { unsigned trip[13]; int n; };
static void put_bits(struct bitw *w, unsigned v, int n)
{
        for (int i = 0; i < n; i++, w->n++)
                if ((v >> i) & 1) w->trip[w->n / 18] |= 1u << (w->n % 18);
}

/* X/28/0 format 1, X/28/4, M/29/0 (EN 300 706 9.4.2) */
static void tx_x28cs(struct tx *t, int kind, int mag, int desig, int salt, int cs0, int cs1)
{
        struct bitw w; memset(&w, 0, sizeof w);
        put_bits(&w, 0, 4);                      /* page function: level one page */
        put_bits(&w, 0, 3);                      /* coding */
        put_bits(&w, cs0, 7); put_bits(&w, cs1, 7);  /* default G0/G2 and second G0 character set (EN 300 706 table 32/33) */
        if (kind == PK_X28 && (cs0 || cs1)) t->in[t->cur[mag & 7]].nonlatin = 1;
        put_bits(&w, 0, 1); put_bits(&w, 0, 1); put_bits(&w, 0, 1); put_bits(&w, 0, 4);
        for (int i = 0; i < 16; i++) put_bits(&w, (0x123 * (i + 1) + salt * 0x111) & 0xFFF, 12);
        put_bits(&w, (3 + salt) & 31, 5); put_bits(&w, (5 + salt) & 31, 5);
        put_bits(&w, 0, 1); put_bits(&w, salt & 7, 3);
        if (w.n != 13 * 18) die("X/28 bit count %d", w.n);
        tx_triplets(t, kind, mag, kind == PK_M29 ? 29 : 28, desig, w.trip, kind == PK_M29 ? -1 : t->cur[mag & 7]);
}

/* character sets 0/0: keep Latin */
static void tx_x28(struct tx *t, int kind, int mag, int desig, int salt) { tx_x28cs(t, kind, mag, desig, salt, 0, 0); }

static void tx_status(struct pkt *p)
{
        static const char st[] = "ZVBI C03 STATUS TEXT";
        put_text(p, 22, (const uint8_t *) st, 20, R_NONE);
}

static void tx_8301(struct tx *t, int desig, unsigned cni)
{
        struct pkt *p = new_pkt(t, PK_8301, 0, 30, -1);
        p->b[2] = enc_h8(desig); add_unit(p, 2, 1, K_H8, R_DESIG);
        put_link(p, 3, 0, 0x100, 0x3F7F);
        p->b[9] = rev8(cni >> 8); p->b[10] = rev8(cni & 0xFF);
        p->b[11] = 0x85;                                         /* +1 h */
        p->b[12] = 0x06 + 1; p->b[13] = (1 + 1) << 4 | (3 + 1); p->b[14] = (1 + 1) << 4 | (2 + 1);   /* MJD 61312 */
        p->b[15] = (1 + 1) << 4 | (2 + 1); p->b[16] = (3 + 1) << 4 | (4 + 1); p->b[17] = (5 + 1) << 4 | (6 + 1); /* 12:34:56 */
        p->b[18] = 0; p->b[19] = 0; p->b[20] = 0; p->b[21] = 0;
        for (int i = 9; i <= 21; i++) add_unit(p, i, 1, K_RAW, R_NONE);
        tx_status(p);
}

static void tx_8302(struct tx *t, int desig, unsigned cni, unsigned pil, unsigned lci, unsigned pty)
{
        struct pkt *p = new_pkt(t, PK_8302, 0, 30, -1);
        unsigned B[13];
        p->b[2] = enc_h8(desig); add_unit(p, 2, 1, K_H8, R_DESIG);
        put_link(p, 3, 0, 0x100, 0x3F7F);
        B[6]  = (lci << 2) | (0 << 1) | 1;
        B[7]  = (1 << 6) | (1 << 5) | (0 << 4) | ((cni >> 12) & 15);
        B[8]  = (((cni >> 6) & 3) << 6) | ((pil >> 14) & 0x3F);
        B[9]  = (pil >> 6) & 0xFF;
        B[10] = ((pil & 0x3F) << 2) | ((cni >> 10) & 3);
        B[11] = (((cni >> 8) & 3) << 6) | (cni & 0x3F);
        B[12] = pty;
        p->b[9] = enc_h8(rev8(B[6] << 4) & 15);
        for (int i = 7; i <= 12; i++) {
                unsigned r = rev8(B[i]);
                p->b[2 * i - 4] = enc_h8(r & 15);
                p->b[2 * i - 3] = enc_h8(r >> 4);
        }
        for (int i = 9; i <= 21; i++) add_unit(p, i, 1, K_H8, R_DATA);
        tx_status(p);
}

/* a row of Hamming 8/4 nibbles (MOT, MIP, BTT pages) */
static void tx_hrow(struct tx *t, int mag, int r, const uint8_t *nib)
{
        struct pkt *p = new_pkt(t, PK_HROW, mag, r, t->cur[mag & 7]);
        p->row = r;
        for (int i = 0; i < 40; i++) { p->b[2 + i] = enc_h8(nib[i]); add_unit(p, 2 + i, 1, K_H8, R_DATA); }
}

/* bytes of a time filling header (page FF) of magazine `mag' as this transmission would send it */
static void filler_bytes(const struct tx *t, int mag, uint8_t *out)
{
        static struct tx scratch;
        memset(&scratch, 0, sizeof scratch);
        scratch.name = "scratch"; scratch.serial = t->serial;
        tx_header(&scratch, mag, 0xFF, 0x3F7F, 0);
        memcpy(out, scratch.p[0].b, 42);
}

static void tx_fillers(struct tx *t)
{
        int used[8] = { 0 };
        for (int i = 0; i < t->ni; i++) used[t->in[i].mag] = 1;
        for (int rep = 0; rep < 2; rep++)
                for (int m = 0; m < 8; m++)
                        if (used[m]) tx_header(t, m, 0xFF, 0x3F7F, 0);
}

static void tx_finish(struct tx *t)
{
        tx_fillers(t);
        for (int i = 0; i < t->ni; i++) {
                struct inst *in = &t->in[i];
                in->next_same = t->n; in->earlier_hdr = -1;
                for (int r = 0; r < 26; r++) in->earlier[r] = -1;
                if (in->filler) continue;
                int seen = 0;
                for (int k = 0; k < t->ntx; k++) if (t->txset[k].pgno == in->pgno && t->txset[k].subno == in->subno) seen = 1;
                if (!seen) { t->txset[t->ntx].pgno = in->pgno; t->txset[t->ntx].subno = in->subno; t->ntx++; }
                for (int j = 0; j < t->ni; j++) {
                        struct inst *o = &t->in[j];
                        if (o->filler || o->pgno != in->pgno || o->subno != in->subno) continue;
                        if (j < i) {
                                in->earlier_hdr = j;
                                for (int r = 1; r < 26; r++) if (o->have[r]) in->earlier[r] = j;
                        }
                        if (j > i && in->next_same == t->n) in->next_same = o->hdr;
                }
        }
        for (int i = 0; i < t->ni; i++)
                for (int j = 0; j < t->ni; j++)
                        if (t->in[j].nonlatin && !t->in[i].filler && t->in[i].pgno == t->in[j].pgno && t->in[i].subno == t->in[j].subno) t->in[i].nonlatin = 1;
}

/* X/26 addressing is recorded when the packet is built */
static void note_x26(struct tx *t, int mag, const unsigned *trip, int n, int *rowstate)
{
        struct inst *in = &t->in[t->cur[mag & 7]];
        int row = *rowstate;
        for (int i = 0; i < n; i++) {
                unsigned a = trip[i] & 0x3F, m = (trip[i] >> 6) & 0x1F;
                if (a >= 40) {
                        if (m == 0x04 || m == 0x01) { row = a - 40; if (!row) row = 24; }
                        else if (m == 0x07) row = 0;
                } else {
                        in->x26mask[row] |= 1ull << a;
                }
        }
        *rowstate = row;
}

static void spread_x26(struct tx *t)
{
        for (int i = 0; i < t->ni; i++)
                for (int j = 0; j < t->ni; j++)
                        if (i != j && t->in[i].pgno == t->in[j].pgno && t->in[i].subno == t->in[j].subno)
                                for (int r = 0; r < 26; r++) t->in[i].x26mask[r] |= t->in[j].x26mask[r];
}

static const char *ROWF = "P%03X S%04X R%02d v%d abcdefghijklmnopqrstuv";

static void std_rows(struct tx *t, int mag, int pgno, int sub, int ver, const int *rows)
{
        for (; *rows; rows++) {
                if (*rows == 2) tx_row(t, mag, 2, "~P%03X~S%04X~R02~v%d~ZYXWVUTSRQPONMLKJIHG", pgno, sub, ver);
                else tx_row(t, mag, *rows, ROWF, pgno, sub, *rows, ver);
        }
}
#define ROWS(...) ((const int[]){ __VA_ARGS__, 0 })

static struct tx *tx_new(const char *name, int serial)
{
        struct tx *t = &T[nT++];
        memset(t, 0, sizeof *t);
        t->name = name; t->serial = serial;
        for (int m = 0; m < 8; m++) t->cur[m] = -1;
        return t;
}

static void build_transmissions(void)
{
        struct tx *t;

        t = tx_new("plain", 0);
        tx_header(t, 1, 0x00, 0, 0);      std_rows(t, 1, 0x100, 0, 1, ROWS(1, 2, 3, 12, 23, 24));
        tx_header(t, 1, 0x01, 0, 0);      std_rows(t, 1, 0x101, 0, 1, ROWS(1, 2));
        tx_finish(t);

        t = tx_new("update over cached copy", 0);
        tx_header(t, 1, 0x00, 0, 0);      std_rows(t, 1, 0x100, 0, 1, ROWS(1, 2, 3));
        tx_header(t, 1, 0x01, 0, 0);      std_rows(t, 1, 0x101, 0, 1, ROWS(1));
        tx_header(t, 1, 0x00, 0, F_C8);   std_rows(t, 1, 0x100, 0, 2, ROWS(1, 2));
        tx_header(t, 1, 0x02, 0, 0);      std_rows(t, 1, 0x102, 0, 1, ROWS(1));
        tx_header(t, 1, 0x00, 0, F_C4);   std_rows(t, 1, 0x100, 0, 3, ROWS(2));
        tx_finish(t);

        t = tx_new("subpages", 0);
        tx_header(t, 1, 0x20, 0x0001, 0); std_rows(t, 1, 0x120, 1, 1, ROWS(1, 2));
        tx_header(t, 1, 0x21, 0, 0);      std_rows(t, 1, 0x121, 0, 1, ROWS(1));
        tx_header(t, 1, 0x20, 0x0002, 0); std_rows(t, 1, 0x120, 2, 1, ROWS(1, 2));
        tx_header(t, 1, 0x21, 0, 0);      std_rows(t, 1, 0x121, 0, 2, ROWS(1));
        tx_header(t, 1, 0x20, 0x0001, 0); std_rows(t, 1, 0x120, 1, 2, ROWS(1));
        tx_finish(t);

        t = tx_new("subcode and control bits", 0);
        tx_header(t, 1, 0x30, 0x1234, 0);                 std_rows(t, 1, 0x130, 0x1234, 1, ROWS(1));
        tx_header(t, 1, 0x50, 0, F_C6);                   std_rows(t, 1, 0x150, 0, 1, ROWS(22));
        tx_header(t, 1, 0x51, 0, F_C5 | F_C7);            std_rows(t, 1, 0x151, 0, 1, ROWS(1));
        tx_header(t, 1, 0x52, 0, F_C13 | F_C9);           std_rows(t, 1, 0x152, 0, 1, ROWS(1));
        tx_finish(t);

        unsigned x26_a[13] = { TRIP(41, 0x04, 0), TRIP(5, 0x0F, 0x2A), TRIP(6, 0x09, 0x41), TRIP(10, 0x12, 0x65),
                               TRIP(42, 0x04, 0), TRIP(0, 0x0F, 0x30), TRIP(39, 0x0F, 0x31), TRIP(43, 0x04, 0),
                               TRIP(7, 0x0F, 0x32), TRIP(8, 0x11, 0x61), TRIP(9, 0x09, 0x42), TRIP(20, 0x0F, 0x33), TRIP(21, 0x0F, 0x34) };
        /* the PDC triplet (row group, mode 0x08) carries 43 in its address field without moving the active position:
         * the character behind it still belongs to row 12, and row 3 column 3 stays a level one cell (seed C03-8) */
        unsigned x26_b[13] = { TRIP(22, 0x0F, 0x35), TRIP(52, 0x04, 0), TRIP(1, 0x0F, 0x36), TRIP(2, 0x13, 0x6F),
                               TRIP(43, 0x08, 0x10), TRIP(3, 0x0F, 0x37), TRIP(63, 0x1F, 0x07), TRIP(63, 0x1F, 0x07),
                               TRIP(63, 0x1F, 0x07), TRIP(63, 0x1F, 0x07), TRIP(63, 0x1F, 0x07), TRIP(63, 0x1F, 0x07), TRIP(63, 0x1F, 0x07) };
        static const int x27_links[6] = { 0x101, 0x102, 0x203, 0x104, 0x8FF, 0x100 };

        t = tx_new("X/26 enhancement", 0);
        {
                const unsigned *a = x26_a, *b = x26_b;
                int rs = 0;
                tx_header(t, 1, 0x00, 0, 0);
                tx_x26(t, 1, 0, a); note_x26(t, 1, a, 13, &rs);
                tx_x26(t, 1, 1, b); note_x26(t, 1, b, 13, &rs);
                std_rows(t, 1, 0x100, 0, 1, ROWS(1, 2, 3, 12));
                tx_header(t, 1, 0x01, 0, 0);      std_rows(t, 1, 0x101, 0, 1, ROWS(1));
                tx_header(t, 1, 0x00, 0, F_C8);   std_rows(t, 1, 0x100, 0, 2, ROWS(1, 4));
        }
        tx_finish(t); spread_x26(t);

        t = tx_new("X/27 links", 0);
        {
                const int *links = x27_links;
                unsigned l4[13];
                for (int i = 0; i < 13; i++) l4[i] = (0x2A5A5 + 0x1357 * i) & 0x3FFFF;
                tx_header(t, 1, 0x00, 0, 0);
                tx_x27_0(t, 1, links);
                tx_triplets(t, PK_X27, 1, 27, 4, l4, t->cur[1]);
                std_rows(t, 1, 0x100, 0, 1, ROWS(1, 24));
                tx_header(t, 1, 0x01, 0, 0);      std_rows(t, 1, 0x101, 0, 1, ROWS(1));
        }
        tx_finish(t);

        t = tx_new("X/28 and M/29", 0);
        tx_header(t, 1, 0x00, 0, 0);
        tx_x28(t, PK_X28, 1, 0, 1);
        tx_x28(t, PK_X28, 1, 4, 2);
        std_rows(t, 1, 0x100, 0, 1, ROWS(1));
        tx_x28(t, PK_M29, 1, 0, 3);
        tx_header(t, 1, 0x01, 0, 0);      std_rows(t, 1, 0x101, 0, 1, ROWS(1));
        tx_x28(t, PK_M29, 1, 4, 4);
        tx_finish(t);

        t = tx_new("8/30 format 1", 0);
        tx_header(t, 1, 0x00, 0, 0);      std_rows(t, 1, 0x100, 0, 1, ROWS(1));
        tx_8301(t, 0, 0x4440);
        tx_header(t, 1, 0x01, 0, 0);      std_rows(t, 1, 0x101, 0, 1, ROWS(1));
        tx_8301(t, 0, 0x4440);
        tx_8301(t, 1, 0x4440);
        tx_finish(t);

        t = tx_new("8/30 format 2", 0);
        tx_header(t, 1, 0x00, 0, 0);      std_rows(t, 1, 0x100, 0, 1, ROWS(1));
        tx_8302(t, 2, 0x2C40, 0x5A5A5, 1, 0x3C);
        tx_header(t, 1, 0x01, 0, 0);      std_rows(t, 1, 0x101, 0, 1, ROWS(1));
        tx_8302(t, 2, 0x2C40, 0x5A5A5, 1, 0x3C);
        tx_8302(t, 3, 0x2C40, 0x12345, 2, 0x81);
        tx_finish(t);

        t = tx_new("two magazines interleaved", 0);
        tx_header(t, 1, 0x00, 0, 0);
        tx_header(t, 2, 0x00, 0, 0);
        std_rows(t, 1, 0x100, 0, 1, ROWS(1)); std_rows(t, 2, 0x200, 0, 1, ROWS(1));
        std_rows(t, 1, 0x100, 0, 1, ROWS(2)); std_rows(t, 2, 0x200, 0, 1, ROWS(2));
        tx_header(t, 1, 0x01, 0, 0);
        std_rows(t, 2, 0x200, 0, 1, ROWS(3)); std_rows(t, 1, 0x101, 0, 1, ROWS(1));
        tx_header(t, 2, 0x01, 0, 0);      std_rows(t, 2, 0x201, 0, 1, ROWS(1));
        tx_finish(t);

        t = tx_new("magazine serial", 1);
        tx_header(t, 1, 0x00, 0, 0);      std_rows(t, 1, 0x100, 0, 1, ROWS(1, 2));
        tx_header(t, 2, 0x00, 0, 0);      std_rows(t, 2, 0x200, 0, 1, ROWS(1));
        tx_header(t, 1, 0x01, 0, 0);      std_rows(t, 1, 0x101, 0, 1, ROWS(1));
        tx_header(t, 2, 0x01, 0, 0);      std_rows(t, 2, 0x201, 0, 1, ROWS(1));
        tx_header(t, 1, 0xFF, 0x3F7F, 0); tx_header(t, 2, 0xFF, 0x3F7F, 0);
        /* second cycle: pages are cached, the decoder takes its magazine serial path */
        tx_header(t, 1, 0x00, 0, F_C8);   std_rows(t, 1, 0x100, 0, 2, ROWS(1));
        tx_header(t, 2, 0x00, 0, F_C8);   std_rows(t, 2, 0x200, 0, 2, ROWS(2));
        tx_header(t, 1, 0x01, 0, 0);      std_rows(t, 1, 0x101, 0, 2, ROWS(1));
        tx_header(t, 2, 0x01, 0, 0);      std_rows(t, 2, 0x201, 0, 2, ROWS(1));
        tx_finish(t);

        t = tx_new("Hamming coded MOT page", 0);
        {
                uint8_t n1[40], n2[40];
                for (int i = 0; i < 40; i++) { n1[i] = (i * 7 + 3) & 15; n2[i] = (i * 5 + 1) & 15; }
                tx_header(t, 1, 0x00, 0, 0);      std_rows(t, 1, 0x100, 0, 1, ROWS(1));
                tx_header(t, 1, 0xFE, 0, 0);
                tx_hrow(t, 1, 1, n1); tx_hrow(t, 1, 2, n2); tx_hrow(t, 1, 19, n1); tx_hrow(t, 1, 21, n2);
                tx_header(t, 1, 0x01, 0, 0);      std_rows(t, 1, 0x101, 0, 1, ROWS(1));
        }
        tx_finish(t);

        /* >= 3 pages of one magazine after the rolling header reference is established, none retransmitted:
         * a fault in a later page's header must not disturb the pages cached before */
        t = tx_new("four pages, rolling header", 0);
        tx_header(t, 1, 0x00, 0, 0);      std_rows(t, 1, 0x100, 0, 1, ROWS(1));
        tx_header(t, 1, 0x01, 0, 0);      std_rows(t, 1, 0x101, 0, 1, ROWS(1));
        tx_header(t, 1, 0x02, 0, 0);      std_rows(t, 1, 0x102, 0, 1, ROWS(1, 2));
        tx_header(t, 1, 0x03, 0, 0);      std_rows(t, 1, 0x103, 0, 1, ROWS(1));
        tx_finish(t);

        /* ---- seed C03 round 5: enhancement packets transmitted a second time over the cached, fault free copy.
         * Faults are enumerated in the second cycle only (first_fault). ---- */

        /* Page 100 carries X/28/0 alone, with non Latin character sets (G0 Greek, second G0 Cyrillic), its own colour map,
         * screen / row colour and CLUT remapping; magazine 1 gets M/29/0 + M/29/4 with other values (Cyrillic), so page
         * defaults (X/28), magazine defaults (M/29) and decoder defaults all differ, and page 101 (no X/28) shows the M/29
         * values at level 2.5.  Second cycle: X/28/0 and M/29/0 with new contents (page update), M/29/4 repeated.
         * The X/28/0 must be the only X/28 of the page: the decoder starts the page extension afresh from the magazine
         * defaults at the first X/28 behind every header, so a good X/28/4 behind a lost X/28/0 legitimately resets it. */
        t = tx_new("X/28/0 and M/29 retransmitted over the cached copy", 0);
        tx_header(t, 1, 0x00, 0, 0);
        tx_x28cs(t, PK_X28, 1, 0, 1, 55, 36);
        std_rows(t, 1, 0x100, 0, 1, ROWS(1, 2));
        tx_x28cs(t, PK_M29, 1, 0, 3, 36, 0);
        tx_header(t, 1, 0x01, 0, 0);      std_rows(t, 1, 0x101, 0, 1, ROWS(1));
        tx_x28cs(t, PK_M29, 1, 4, 4, 36, 0);
        t->first_fault = t->n;
        tx_header(t, 1, 0x00, 0, F_C8);
        tx_x28cs(t, PK_X28, 1, 0, 5, 55, 36);
        std_rows(t, 1, 0x100, 0, 2, ROWS(1));
        tx_x28cs(t, PK_M29, 1, 0, 6, 36, 0);
        tx_header(t, 1, 0x01, 0, 0);      std_rows(t, 1, 0x101, 0, 2, ROWS(1));
        tx_x28cs(t, PK_M29, 1, 4, 4, 36, 0);
        tx_finish(t);

        /* Page 100 carries X/28/4 alone (Cyrillic / Greek), page 101 X/28/0 followed by X/28/4; no M/29: the magazine
         * defaults are the decoder's.  Second cycle: the same packets again, X/28/4 of page 100 with new contents. */
        t = tx_new("X/28/4 retransmitted over the cached copy", 0);
        tx_header(t, 1, 0x00, 0, 0);
        tx_x28cs(t, PK_X28, 1, 4, 1, 36, 55);
        std_rows(t, 1, 0x100, 0, 1, ROWS(1));
        tx_header(t, 1, 0x01, 0, 0);
        tx_x28cs(t, PK_X28, 1, 0, 2, 55, 36);
        tx_x28cs(t, PK_X28, 1, 4, 3, 55, 36);
        std_rows(t, 1, 0x101, 0, 1, ROWS(1));
        t->first_fault = t->n;
        tx_header(t, 1, 0x00, 0, F_C8);
        tx_x28cs(t, PK_X28, 1, 4, 4, 36, 55);
        std_rows(t, 1, 0x100, 0, 2, ROWS(1));
        tx_header(t, 1, 0x01, 0, 0);
        tx_x28cs(t, PK_X28, 1, 0, 2, 55, 36);
        tx_x28cs(t, PK_X28, 1, 4, 3, 55, 36);
        std_rows(t, 1, 0x101, 0, 2, ROWS(1));
        tx_finish(t);

        /* Page 100 carries X/26/0-1, X/27/0 and X/27/4; second cycle: the same enhancement packets again (identical
         * contents, as a real service repeats them), rows updated. */
        t = tx_new("X/26 and X/27 retransmitted over the cached copy", 0);
        {
                unsigned l4[13];
                int rs = 0;
                for (int i = 0; i < 13; i++) l4[i] = (0x2A5A5 + 0x1357 * i) & 0x3FFFF;
                tx_header(t, 1, 0x00, 0, 0);
                tx_x26(t, 1, 0, x26_a); note_x26(t, 1, x26_a, 13, &rs);
                tx_x26(t, 1, 1, x26_b); note_x26(t, 1, x26_b, 13, &rs);
                tx_x27_0(t, 1, x27_links);
                tx_triplets(t, PK_X27, 1, 27, 4, l4, t->cur[1]);
                std_rows(t, 1, 0x100, 0, 1, ROWS(1, 2, 3, 12));
                tx_header(t, 1, 0x01, 0, 0);      std_rows(t, 1, 0x101, 0, 1, ROWS(1));
                t->first_fault = t->n;
                rs = 0;
                tx_header(t, 1, 0x00, 0, F_C8);
                tx_x26(t, 1, 0, x26_a); note_x26(t, 1, x26_a, 13, &rs);
                tx_x26(t, 1, 1, x26_b); note_x26(t, 1, x26_b, 13, &rs);
                tx_x27_0(t, 1, x27_links);
                tx_triplets(t, PK_X27, 1, 27, 4, l4, t->cur[1]);
                std_rows(t, 1, 0x100, 0, 2, ROWS(1, 3));
                tx_header(t, 1, 0x01, 0, 0);      std_rows(t, 1, 0x101, 0, 2, ROWS(1));
        }
        tx_finish(t); spread_x26(t);

        if (nT != NT) die("transmission count %d", nT);
}

/* ---- running a transmission on a fresh decoder ---------------------------------- */

static uint64_t mix64(uint64_t x) { x ^= x >> 33; x *= 0xff51afd7ed558ccdULL; x ^= x >> 33; x *= 0xc4ceb9fe1a85ec53ULL; x ^= x >> 33; return x; }

struct hx { uint64_t a, b; };
static void hx_init(struct hx *h) { h->a = 0x243F6A8885A308D3ULL; h->b = 0x13198A2E03707344ULL; }
static void hx_u64(struct hx *h, uint64_t v)
{
        h->a = (h->a ^ v) * 0x9E3779B97F4A7C15ULL; h->a ^= h->a >> 29;
        h->b = (h->b + v + 1) * 0xC2B2AE3D27D4EB4FULL; h->b ^= h->b >> 31;
}
static void hx_add(struct hx *h, const void *p, size_t n)
{
        const uint8_t *s = p;
        while (n >= 8) { uint64_t v; memcpy(&v, s, 8); hx_u64(h, v); s += 8; n -= 8; }
        if (n) { uint64_t v = 0; memcpy(&v, s, n); hx_u64(h, v ^ ((uint64_t) n << 56)); }
}
static uint64_t hx_fin(const struct hx *h) { return mix64(h->a ^ mix64(h->b)); }

enum { C_EVSEQ, C_EVSET, C_KEYS, C_CACHE, C_FMT, C_NET, C_RAW, C_N };
static const char *comp_name[C_N] = { "event sequence", "event set", "cached page numbers", "cached page contents", "fetched pages", "network data", "pages in progress" };
#define FULL_MASK ((1 << C_N) - 1)
#define OBS_MASK  ((1 << C_EVSET) | (1 << C_KEYS) | (1 << C_CACHE) | (1 << C_FMT) | (1 << C_NET))

struct pgkey { int pgno, subno; };

struct snap {
        uint64_t c[C_N];
        int nkeys; struct pgkey key[32];
        int nev;   struct pgkey evk[64];
        int nevents;
        /* focus page (the page the faulted packet belongs to): per row detail; all other pages as one hash */
        uint64_t evkeys, oth_cache, oth_fmt;
        int f_present; unsigned f_lop;
        uint64_t f_rest, f_rowraw[26], f_rowfmt[25];
        char lastev[128];              /* (h): the last non TTX_PAGE event written out, for the violation detail */
};

static int focus_pgno = -1, focus_subno = -1;

/* (c) probe: where and what to look at while the run proceeds */
struct cprobe {
        int active, from, to;          /* steps from..to-1 (after the packet of that index) */
        int pgno, subno, row;
        int header;                    /* header row: cell wise on `cells' only */
        uint64_t cells;                /* header: damaged columns; rows: columns NOT addressed by X/26 */
        const uint8_t *earlier;        /* 40 (rows) / 32 (header text, column 8..39) transmitted characters or NULL */
        /* results */
        int seen, kept, blank, bad, bad_col; unsigned bad_char; int bad_step;
        /* (e): capture the page as fetched at level 1.5 after the last packet */
        int capture, cap_ok; uint16_t cap[25][40]; int nav_ok; int nav[6][2];
        /* (g): observe what X/28 and M/29 control, all transmitted pages at four levels, after the last packet */
        struct gobs *g;
};

#define G_NLEV 4
#define G_MAXPG 6
static const vbi_wst_level g_level[G_NLEV] = { VBI_WST_LEVEL_1, VBI_WST_LEVEL_1p5, VBI_WST_LEVEL_2p5, VBI_WST_LEVEL_3p5 };
static const char *g_level_name[G_NLEV] = { "1", "1.5", "2.5", "3.5" };
struct gpage { int ok, font[2], screen_color, screen_opacity; vbi_rgba color_map[40]; vbi_char text[25][40]; };
struct gobs { int np; struct gpage pg[G_MAXPG][G_NLEV]; };

struct evctx { struct hx seq, keys; uint64_t set; int n; int nev; struct pgkey evk[64]; char last[128]; };

#define EV_ALL (VBI_EVENT_TTX_PAGE | VBI_EVENT_NETWORK | VBI_EVENT_NETWORK_ID | VBI_EVENT_LOCAL_TIME | VBI_EVENT_PROG_ID)
static unsigned run_ev_mask = EV_ALL;   /* event types run_tx() registers its handler for; only phase (h) changes it */

static const char *run_label = "";
static int verbose;

static void on_event(vbi_event *e, void *ud)
{
        struct evctx *x = ud;
        if (verbose) {
                if (e->type == VBI_EVENT_TTX_PAGE)
                        fprintf(stderr, "  [%s] event TTX_PAGE %03x.%04x roll=%d hdr_upd=%d clk_upd=%d pn_offset=%d raw_header=%s\n", run_label,
                                e->ev.ttx_page.pgno, e->ev.ttx_page.subno, e->ev.ttx_page.roll_header, e->ev.ttx_page.header_update,
                                e->ev.ttx_page.clock_update, e->ev.ttx_page.pn_offset, e->ev.ttx_page.raw_header ? "yes" : "no");
                else fprintf(stderr, "  [%s] event type %#x\n", run_label, e->type);
        }
        struct hx h; hx_init(&h);
        hx_u64(&h, e->type);
        switch (e->type) {
        case VBI_EVENT_TTX_PAGE:
                hx_u64(&h, e->ev.ttx_page.pgno); hx_u64(&h, e->ev.ttx_page.subno);
                /* store_lop() leaves clock_update uninitialised when the page does not roll the header */
                hx_u64(&h, e->ev.ttx_page.roll_header | e->ev.ttx_page.header_update << 1
                           | (e->ev.ttx_page.roll_header ? e->ev.ttx_page.clock_update << 2 : 0));
                hx_u64(&h, (uint64_t)(int64_t) e->ev.ttx_page.pn_offset);
                if (e->ev.ttx_page.raw_header) hx_add(&h, e->ev.ttx_page.raw_header, 40);
                if (x->nev < 64) { x->evk[x->nev].pgno = e->ev.ttx_page.pgno; x->evk[x->nev].subno = e->ev.ttx_page.subno; x->nev++; }
                break;
        case VBI_EVENT_NETWORK:
        case VBI_EVENT_NETWORK_ID:
                hx_add(&h, &e->ev.network, sizeof e->ev.network);
                snprintf(x->last, sizeof x->last, "%s nuid %x cni_8301 %x cni_8302 %x", e->type == VBI_EVENT_NETWORK ? "NETWORK" : "NETWORK_ID",
                         e->ev.network.nuid, e->ev.network.cni_8301, e->ev.network.cni_8302);
                break;
        case VBI_EVENT_LOCAL_TIME:
                hx_u64(&h, (uint64_t) e->ev.local_time->time); hx_u64(&h, (uint64_t)(int64_t) e->ev.local_time->seconds_east);
                hx_u64(&h, e->ev.local_time->seconds_east_valid); hx_u64(&h, e->ev.local_time->dst_state);
                snprintf(x->last, sizeof x->last, "LOCAL_TIME %lld east %d", (long long) e->ev.local_time->time, e->ev.local_time->seconds_east);
                break;
        case VBI_EVENT_PROG_ID: {
                const vbi_program_id *p = e->ev.prog_id;
                hx_u64(&h, p->channel); hx_u64(&h, p->cni_type); hx_u64(&h, p->cni); hx_u64(&h, p->pil);
                hx_u64(&h, p->luf | p->mi << 1 | p->prf << 2); hx_u64(&h, p->pcs_audio); hx_u64(&h, p->pty);
                snprintf(x->last, sizeof x->last, "PROG_ID LCI %d CNI %04x PIL %05x LUF %d MI %d PRF %d PCS %d PTY %02x", (int) p->channel, p->cni, p->pil,
                         p->luf, p->mi, p->prf, (int) p->pcs_audio, p->pty);
                break; }
        default:
                break;
        }
        uint64_t v = hx_fin(&h);
        if (e->type == VBI_EVENT_TTX_PAGE) { hx_u64(&x->keys, e->type); hx_u64(&x->keys, e->ev.ttx_page.pgno); hx_u64(&x->keys, e->ev.ttx_page.subno); }
        else hx_u64(&x->keys, v);
        hx_u64(&x->seq, v);
        x->set += mix64(v);
        x->n++;
}

static int cmp_cp(const void *a, const void *b)
{
        const cache_page *x = *(cache_page * const *) a, *y = *(cache_page * const *) b;
        if (x->pgno != y->pgno) return x->pgno < y->pgno ? -1 : 1;
        if (x->subno != y->subno) return x->subno < y->subno ? -1 : 1;
        return 0;
}

static void hash_page_fields(struct hx *h, const cache_page *cp, size_t datalen)
{
        hx_u64(h, (uint64_t)(int64_t) cp->function); hx_u64(h, cp->pgno); hx_u64(h, cp->subno); hx_u64(h, cp->national);
        hx_u64(h, cp->flags); hx_u64(h, cp->lop_packets); hx_u64(h, cp->x26_designations);
        hx_u64(h, cp->x27_designations); hx_u64(h, cp->x28_designations);
        /* raw[0][0..7] keep the header's address/control bytes as received (uncorrected); nothing
         * decodes them again, the formatter prints pgno/subno instead: not part of the canonical state */
        if (cp->function == PAGE_FUNCTION_MOT || cp->function == PAGE_FUNCTION_BTT
            || cp->function == PAGE_FUNCTION_MPT || cp->function == PAGE_FUNCTION_MPT_EX)
                return;         /* parsed into network data row by row; the data union only holds leftovers of the page before */
        if (cp->function != PAGE_FUNCTION_POP && cp->function != PAGE_FUNCTION_GPOP && cp->function != PAGE_FUNCTION_AIT)
                hx_add(h, (const uint8_t *) &cp->data + 8, datalen - 8);
        else
                hx_add(h, &cp->data, datalen);
}

static void hash_fetched(struct hx *h, vbi_decoder *vbi, int pgno, int subno)
{
        static vbi_page pg;
        memset(&pg, 0, sizeof pg);
        vbi_bool ok = vbi_fetch_vt_page(vbi, &pg, pgno, subno, VBI_WST_LEVEL_2p5, 25, TRUE);
        hx_u64(h, ok);
        if (!ok) return;
        hx_u64(h, pg.pgno); hx_u64(h, pg.subno); hx_u64(h, pg.rows); hx_u64(h, pg.columns);
        hx_add(h, pg.text, sizeof pg.text);
        hx_u64(h, pg.screen_color); hx_u64(h, pg.screen_opacity);
        hx_add(h, pg.color_map, sizeof pg.color_map);
        hx_add(h, pg.nav_link, sizeof pg.nav_link); hx_add(h, pg.nav_index, sizeof pg.nav_index);
        hx_u64(h, pg.font[0] ? (uint64_t)(pg.font[0] - vbi_font_descriptors) : 9999);
        hx_u64(h, pg.font[1] ? (uint64_t)(pg.font[1] - vbi_font_descriptors) : 9999);
        hx_u64(h, pg.double_height_lower);
        hx_add(h, pg.page_opacity, sizeof pg.page_opacity); hx_add(h, pg.boxed_opacity, sizeof pg.boxed_opacity);
}

static void take_snapshot(vbi_decoder *vbi, struct evctx *ev, struct snap *s)
{
        cache_page *pages[64]; int np = 0;
        vbi_cache *ca = vbi->ca;
        for (int i = 0; i < HASH_SIZE; i++) {
                cache_page *cp, *cp1;
                FOR_ALL_NODES (cp, cp1, ca->hash + i, hash_node)
                        if (cp->network == vbi->cn && np < 64) pages[np++] = cp;
        }
        qsort(pages, np, sizeof pages[0], cmp_cp);
        struct hx hk, hc, hf, hoc, hof; hx_init(&hk); hx_init(&hc); hx_init(&hf); hx_init(&hoc); hx_init(&hof);
        s->nkeys = 0; s->f_present = 0;
        for (int i = 0; i < np; i++) {
                cache_page *cp = pages[i];
                hx_u64(&hk, cp->pgno); hx_u64(&hk, cp->subno);
                if (s->nkeys < 32) { s->key[s->nkeys].pgno = cp->pgno; s->key[s->nkeys].subno = cp->subno; s->nkeys++; }
                hash_page_fields(&hc, cp, cache_page_size(cp) - (sizeof *cp - sizeof cp->data));
                hx_u64(&hc, cp->priority);
                if (cp->pgno == focus_pgno && cp->subno == focus_subno && (cp->function == PAGE_FUNCTION_LOP || cp->function == PAGE_FUNCTION_UNKNOWN)) {
                        size_t dl = cache_page_size(cp) - (sizeof *cp - sizeof cp->data);
                        struct hx h; hx_init(&h);
                        hx_u64(&h, (uint64_t)(int64_t) cp->function); hx_u64(&h, cp->national); hx_u64(&h, cp->flags);
                        hx_u64(&h, cp->x26_designations); hx_u64(&h, cp->x27_designations); hx_u64(&h, cp->x28_designations); hx_u64(&h, cp->priority);
                        hx_add(&h, (const uint8_t *) &cp->data + sizeof cp->data.lop.raw, dl - sizeof cp->data.lop.raw);
                        s->f_rest = hx_fin(&h); s->f_lop = cp->lop_packets; s->f_present = 1;
                        for (int r = 0; r < 26; r++) s->f_rowraw[r] = mc_hash64(cp->data.lop.raw[r] + (r ? 0 : 8), r ? 40 : 32);
                        static vbi_page pg; memset(&pg, 0, sizeof pg);
                        if (vbi_fetch_vt_page(vbi, &pg, cp->pgno, cp->subno, VBI_WST_LEVEL_2p5, 25, TRUE))
                                for (int r = 0; r < 25; r++) s->f_rowfmt[r] = mc_hash64(pg.text + r * pg.columns, 40 * sizeof pg.text[0]);   /* not the artificial column 41 */
                        else memset(s->f_rowfmt, 0, sizeof s->f_rowfmt);
                } else {
                        hash_page_fields(&hoc, cp, cache_page_size(cp) - (sizeof *cp - sizeof cp->data));
                        hx_u64(&hoc, cp->priority);
                        hash_fetched(&hof, vbi, cp->pgno, cp->subno);
                }
                if (verbose) {
                        struct hx h1; hx_init(&h1); hash_page_fields(&h1, cp, cache_page_size(cp) - (sizeof *cp - sizeof cp->data));
                        fprintf(stderr, "  [%s] cached %03x.%04x function=%d flags=%06x national=%d lop_packets=%08x x26=%x x27=%x x28=%x pri=%d hash=%016llx\n", run_label,
                                cp->pgno, cp->subno, cp->function, cp->flags, cp->national, cp->lop_packets, cp->x26_designations,
                                cp->x27_designations, cp->x28_designations, cp->priority, (unsigned long long) hx_fin(&h1));
                }
        }
        for (int i = 0; i < np; i++) hash_fetched(&hf, vbi, s->key[i < 32 ? i : 31].pgno, s->key[i < 32 ? i : 31].subno);
        s->c[C_KEYS] = hx_fin(&hk); s->c[C_CACHE] = hx_fin(&hc); s->c[C_FMT] = hx_fin(&hf);
        s->oth_cache = hx_fin(&hoc); s->oth_fmt = hx_fin(&hof); s->evkeys = hx_fin(&ev->keys);

        struct hx hn; hx_init(&hn);
        cache_network *cn = vbi->cn;
        hx_add(&hn, &cn->initial_page, sizeof cn->initial_page);
        hx_add(&hn, cn->btt_link, sizeof cn->btt_link);
        hx_u64(&hn, cn->have_top);
        hx_add(&hn, cn->_magazines, sizeof cn->_magazines);
        hx_add(&hn, cn->status, sizeof cn->status);
        hx_add(&hn, cn->_pages, sizeof cn->_pages);
        hx_u64(&hn, cn->n_cached_pages);
        hx_add(&hn, &vbi->network.ev.network, sizeof vbi->network.ev.network);
        s->c[C_NET] = hx_fin(&hn);

        struct hx hr; hx_init(&hr);
        hx_add(&hr, &vbi->vt.header_page, sizeof vbi->vt.header_page);
        hx_add(&hr, vbi->vt.header, sizeof vbi->vt.header);
        hx_u64(&hr, vbi->vt.current ? (uint64_t)(vbi->vt.current - vbi->vt.raw_page) : 99);
        for (int m = 0; m < 8; m++) {
                struct raw_page *rp = &vbi->vt.raw_page[m];
                hash_page_fields(&hr, rp->page, sizeof rp->page->data);
                hx_add(&hr, rp->lop_raw, sizeof rp->lop_raw);
                hx_u64(&hr, rp->lop_packets); hx_u64(&hr, (uint64_t)(int64_t) rp->num_triplets);
        }
        s->c[C_RAW] = hx_fin(&hr);

        s->c[C_EVSEQ] = hx_fin(&ev->seq); s->c[C_EVSET] = ev->set + ev->n;
        s->nev = ev->nev; memcpy(s->evk, ev->evk, sizeof s->evk);
        s->nevents = ev->n;
        memcpy(s->lastev, ev->last, sizeof s->lastev);
}

/* independent level one character model for the alphabet the transmissions use */
static unsigned l1_char(unsigned c) { c &= 0x7F; return c < 0x20 ? 0x20 : c; }

static void do_probe(vbi_decoder *vbi, struct cprobe *pr, int step)
{
        static vbi_page pg;
        if (!vbi_fetch_vt_page(vbi, &pg, pr->pgno, pr->subno, VBI_WST_LEVEL_1, 25, FALSE)) return;
        pr->seen++;
        const vbi_char *rowp = pg.text + pr->row * pg.columns;
        if (pr->header) {
                for (int c = 8; c < 40; c++) {
                        if (!(pr->cells >> c & 1)) continue;
                        unsigned u = rowp[c].unicode;
                        if (u == 0x20) { pr->blank++; continue; }
                        if (pr->earlier && u == l1_char(pr->earlier[c - 8])) { pr->kept++; continue; }
                        if (!pr->bad) { pr->bad = 1; pr->bad_col = c; pr->bad_char = u; pr->bad_step = step; }
                }
                return;
        }
        int is_blank = 1, is_kept = pr->earlier != NULL, col_b = -1, col_k = -1;
        for (int c = 0; c < 40; c++) {
                if (!(pr->cells >> c & 1)) continue;
                unsigned u = rowp[c].unicode;
                if (u != 0x20 && is_blank) { is_blank = 0; col_b = c; }
                if (pr->earlier && u != l1_char(pr->earlier[c]) && is_kept) { is_kept = 0; col_k = c; }
        }
        if (is_kept) pr->kept++;
        else if (is_blank) pr->blank++;
        else if (!pr->bad) {
                pr->bad = pr->earlier ? 2 : 1;
                pr->bad_col = pr->earlier ? col_k : col_b; pr->bad_char = rowp[pr->bad_col].unicode; pr->bad_step = step;
        }
}

static uint64_t n_runs;

/* skip[i] != 0: packet i is not transmitted (the frame carries no line).
 * fk >= 0: packet fk is XORed with mask. */
static void run_tx(const struct tx *t, const uint8_t *skip, int fk, const uint8_t *mask, struct cprobe *pr, struct snap *out)
{
        vbi_decoder *vbi = vbi_decoder_new();
        if (!vbi) die("vbi_decoder_new");
        struct evctx ev; memset(&ev, 0, sizeof ev); hx_init(&ev.seq); hx_init(&ev.keys);
        if (!vbi_event_handler_register(vbi, run_ev_mask, on_event, &ev))
                die("event handler");
        for (int i = 0; i < t->n; i++) {
                double tm = 1000.0 + 0.04 * i;
                if (skip && skip[i]) {
                        vbi_decode(vbi, NULL, 0, tm);
                } else {
                        vbi_sliced sl; memset(&sl, 0, sizeof sl);
                        sl.id = VBI_SLICED_TELETEXT_B; sl.line = 7 + (i % 16);
                        memcpy(sl.data, t->p[i].b, 42);
                        if (i == fk) for (int j = 0; j < 42; j++) sl.data[j] ^= mask[j];
                        vbi_decode(vbi, &sl, 1, tm);
                }
                if (pr && pr->active && i >= pr->from && i < pr->to) do_probe(vbi, pr, i);
        }
        take_snapshot(vbi, &ev, out);
        if (pr && pr->capture) {
                static vbi_page cpg;
                pr->cap_ok = vbi_fetch_vt_page(vbi, &cpg, pr->pgno, pr->subno, VBI_WST_LEVEL_1p5, 25, FALSE);
                if (pr->cap_ok) for (int r = 0; r < 25; r++) for (int c = 0; c < 40; c++) pr->cap[r][c] = cpg.text[r * cpg.columns + c].unicode;
                pr->nav_ok = vbi_fetch_vt_page(vbi, &cpg, pr->pgno, pr->subno, VBI_WST_LEVEL_1p5, 25, TRUE);
                if (pr->nav_ok) for (int i = 0; i < 6; i++) { pr->nav[i][0] = cpg.nav_link[i].pgno; pr->nav[i][1] = cpg.nav_link[i].subno; }
        }
        if (pr && pr->g) {
                static vbi_page gpg;
                struct gobs *g = pr->g;
                g->np = t->ntx < G_MAXPG ? t->ntx : G_MAXPG;
                for (int i = 0; i < g->np; i++) for (int l = 0; l < G_NLEV; l++) {
                        struct gpage *gp = &g->pg[i][l];
                        memset(gp, 0, sizeof *gp);
                        memset(&gpg, 0, sizeof gpg);
                        gp->ok = vbi_fetch_vt_page(vbi, &gpg, t->txset[i].pgno, t->txset[i].subno, g_level[l], 25, FALSE);
                        if (!gp->ok) continue;
                        for (int j = 0; j < 2; j++) gp->font[j] = gpg.font[j] ? (int)(gpg.font[j] - vbi_font_descriptors) : -1;
                        gp->screen_color = gpg.screen_color; gp->screen_opacity = gpg.screen_opacity;
                        memcpy(gp->color_map, gpg.color_map, sizeof gp->color_map);
                        for (int r = 0; r < 25; r++) memcpy(gp->text[r], gpg.text + r * gpg.columns, sizeof gp->text[r]);
                }
        }
        vbi_event_handler_unregister(vbi, on_event, &ev);
        vbi_decoder_delete(vbi);
        n_runs++;
}

static int snap_diff(const struct snap *a, const struct snap *b, int mask)
{
        int d = 0;
        for (int i = 0; i < C_N; i++) if ((mask >> i & 1) && a->c[i] != b->c[i]) d |= 1 << i;
        return d;
}

static const char *diff_str(int d)
{
        static char b[200]; b[0] = 0;
        for (int i = 0; i < C_N; i++) if (d >> i & 1) { if (b[0]) strcat(b, ", "); strcat(b, comp_name[i]); }
        return b;
}

static int in_txset(const struct tx *t, int pgno, int subno)
{
        for (int i = 0; i < t->ntx; i++) if (t->txset[i].pgno == pgno && t->txset[i].subno == subno) return 1;
        return 0;
}

/* ---- fault free self check ------------------------------------------------------ */

static void self_check(void)
{
        for (unsigned d = 0; d < 16; d++) if (enc_h8(d) != vbi_ham8(d)) die("Hamming 8/4 encoder differs at %u", d);
        for (unsigned c = 0; c < 256; c++) if (enc_par(c) != vbi_par8(c & 0x7F)) die("parity encoder differs at %u", c);
        for (unsigned d = 0; d < (1u << 18); d++) {
                uint8_t a[3], b[3]; enc_h24(a, d); vbi_ham24p(b, d);
                if (memcmp(a, b, 3)) die("Hamming 24/18 encoder differs at %05x", d);
                if (vbi_unham24p(a) != (int) d) die("Hamming 24/18 decode of %05x", d);
        }
        for (int ti = 0; ti < nT; ti++) {
                const struct tx *t = &T[ti];
                struct snap s;
                vbi_decoder *vbi = vbi_decoder_new();
                struct evctx ev; memset(&ev, 0, sizeof ev); hx_init(&ev.seq); hx_init(&ev.keys);
                vbi_event_handler_register(vbi, VBI_EVENT_TTX_PAGE, on_event, &ev);
                for (int i = 0; i < t->n; i++) {
                        vbi_sliced sl; memset(&sl, 0, sizeof sl);
                        sl.id = VBI_SLICED_TELETEXT_B; sl.line = 7; memcpy(sl.data, t->p[i].b, 42);
                        vbi_decode(vbi, &sl, 1, 1000.0 + 0.04 * i);
                }
                take_snapshot(vbi, &ev, &s);
                /* every level one page of the transmission is cached, nothing else */
                for (int k = 0; k < s.nkeys; k++)
                        if (!in_txset(t, s.key[k].pgno, s.key[k].subno)) mc_violation(KFF, "%s: fault free run cached %03x.%04x", t->name, s.key[k].pgno, s.key[k].subno);
                /* final content of each page per the transmitter model */
                for (int k = 0; k < t->ntx; k++) {
                        uint8_t rows[26][40]; int have_any = 0, lop = 0;
                        memset(rows, ' ', sizeof rows);
                        for (int i = 0; i < t->ni; i++) {
                                const struct inst *in = &t->in[i];
                                if (in->filler || in->pgno != t->txset[k].pgno || in->subno != t->txset[k].subno) continue;
                                lop = in->lop && !in->nonlatin; have_any = 1;
                                if (in->flags & F_C4) memset(rows, ' ', sizeof rows);
                                for (int r = 1; r < 26; r++) if (in->have[r]) memcpy(rows[r], in->row[r], 40);
                        }
                        if (!have_any || !lop) continue;
                        static vbi_page pg;
                        if (!vbi_fetch_vt_page(vbi, &pg, t->txset[k].pgno, t->txset[k].subno, VBI_WST_LEVEL_1, 25, FALSE)) {
                                mc_violation(KFF, "%s: fault free run did not cache %03x.%04x", t->name, t->txset[k].pgno, t->txset[k].subno);
                                continue;
                        }
                        int bad_cell = 0;
                        for (int r = 1; r < 25 && !bad_cell; r++) for (int c = 0; c < 40 && !bad_cell; c++)
                                if (pg.text[r * pg.columns + c].unicode != l1_char(rows[r][c])) {
                                        mc_violation(KFF, "%s: page %03x.%04x row %d col %d shows U+%04x, model %02x", t->name, t->txset[k].pgno, t->txset[k].subno,
                                            r, c, pg.text[r * pg.columns + c].unicode, rows[r][c]);
                                        bad_cell = 1;
                                }
                        for (int c = 8; c < 40; c++) {
                                int last = -1;
                                for (int i = 0; i < t->ni; i++) if (!t->in[i].filler && t->in[i].pgno == t->txset[k].pgno && t->in[i].subno == t->txset[k].subno) last = i;
                                if (pg.text[c].unicode != l1_char(t->in[last].htext[c - 8])) { mc_violation(KFF, "%s: header row col %d", t->name, c); break; }
                        }
                }
                vbi_event_handler_unregister(vbi, on_event, &ev);
                vbi_decoder_delete(vbi);
        }
}

/* ---- evaluation of one fault pattern -------------------------------------------- */

struct casectx {
        int ti, k;
        int have_base;  struct snap base;
        int have_drop;  struct snap drop;
        int nprog; int prog[8];               /* instances in progress at k (other than the one k introduces) */
        int have_ref[512]; struct snap ref[512];     /* [variant * 256 + set] */
        uint64_t n_eval;
        uint64_t cls[8];
};

enum { CL_A, CL_BDROP, CL_BHDR, CL_C, CL_CHDR, CL_G, CL_DONLY, CL_NONE };
/* (e) is judged in addition to (d): X/26 packet, address and designation at most corrected, a triplet with two flips */

/* reference captures of the current case (one packet), made once: (e)/(f) fault free run and run without the
 * X/26 packets of the page / without the packet; (g) run with the packet dropped */
static struct cprobe ref_eb, ref_en;
static struct gobs g_faulted, g_dropped;
static int have_ref_e, have_g_dropped;

static void mask_str(const uint8_t *m, char *o, size_t n)
{
        size_t l = 0; o[0] = 0;
        for (int i = 0; i < 42 && l + 12 < n; i++)
                if (m[i]) l += snprintf(o + l, n - l, "%sbyte %d^%02x", l ? " " : "", i, m[i]);
}

static const struct snap *get_base(struct casectx *cx)
{
        if (!cx->have_base) { run_label = "fault free"; run_tx(&T[cx->ti], NULL, -1, NULL, NULL, &cx->base); cx->have_base = 1; }
        return &cx->base;
}

static const struct snap *get_drop(struct casectx *cx)
{
        if (!cx->have_drop) {
                uint8_t skip[MAXP] = { 0 }; skip[cx->k] = 1;
                run_label = "packet dropped"; run_tx(&T[cx->ti], skip, -1, NULL, NULL, &cx->drop); cx->have_drop = 1;
        }
        return &cx->drop;
}

/* reference: the page instance packet k introduces removed, plus the in-progress pages selected by `sel'.
 * variant 0: the header itself is removed too; variant 1: a time filling header of the same magazine
 * stands in its place (the header was recognised as a header of that magazine and ends the page before). */
static void ref_skip(const struct casectx *cx, int sel, uint8_t *skip)
{
        const struct tx *t = &T[cx->ti];
        int own = t->p[cx->k].inst;
        memset(skip, 0, MAXP);
        for (int i = 0; i < t->n; i++) {
                int in = t->p[i].inst;
                if (in < 0) continue;
                if (in == own) skip[i] = 1;
                for (int j = 0; j < cx->nprog; j++) if ((sel >> j & 1) && in == cx->prog[j]) skip[i] = 1;
        }
}

static void run_ref(const struct casectx *cx, int sel, int variant, struct snap *out)
{
        const struct tx *t = &T[cx->ti];
        uint8_t skip[MAXP], fill[42], m[42];
        ref_skip(cx, sel, skip);
        if (variant) {
                filler_bytes(t, t->p[cx->k].mag, fill);
                for (int j = 0; j < 42; j++) m[j] = t->p[cx->k].b[j] ^ fill[j];
                skip[cx->k] = 0;
                run_tx(t, skip, cx->k, m, NULL, out);
        } else run_tx(t, skip, -1, NULL, NULL, out);
}

static const struct snap *get_ref(struct casectx *cx, int sel, int variant)
{
        int i = variant * 256 + sel;
        if (!cx->have_ref[i]) { run_label = "reference"; run_ref(cx, sel, variant, &cx->ref[i]); cx->have_ref[i] = 1; }
        return &cx->ref[i];
}

/* does the observable state equal some admissible "abandoned" reference?  1: one reference matches as a
 * whole.  2: a system page (MOT, MIP, BTT: parsed row by row into the network data when received) is in
 * progress and one reference matches in events, cache and fetched pages; abandoning such a page keeps the
 * rows already parsed but not the cached page, which no transmission with packets removed reproduces, so
 * the network data is left un-compared in that case.  0: no. */
static int match_abandon(struct casectx *cx, const struct snap *s, int *nsel, int *variant)
{
        const struct tx *t = &T[cx->ti];
        int sys = 0, partial = 0;
        for (int j = 0; j < cx->nprog; j++) if (!t->in[cx->prog[j]].lop) sys = 1;
        for (int v = 1; v >= 0; v--)
                for (int sel = 0; sel < (1 << cx->nprog); sel++) {
                        int d = snap_diff(s, get_ref(cx, sel, v), OBS_MASK);
                        if (!d) { *nsel = __builtin_popcount(sel); *variant = v; return 1; }
                        if (sys && d == (1 << C_NET)) partial = 1;
                }
        *nsel = -1; *variant = -1;
        return partial ? 2 : 0;
}

static void case_init(struct casectx *cx, int ti, int k)
{
        memset(cx, 0, sizeof *cx);
        cx->ti = ti; cx->k = k;
        have_ref_e = have_g_dropped = 0;
        const struct tx *t = &T[ti];
        focus_pgno = focus_subno = -1;
        if (t->p[k].inst >= 0) { focus_pgno = t->in[t->p[k].inst].pgno; focus_subno = t->in[t->p[k].inst].subno; }
        if (t->p[k].kind == PK_HEADER) {
                /* pages in progress: last header of every magazine before k */
                for (int m = 0; m < 8; m++) {
                        int last = -1;
                        for (int i = 0; i < k; i++) if (t->p[i].kind == PK_HEADER && t->p[i].mag == m) last = t->p[i].inst;
                        if (last >= 0 && !t->in[last].filler) cx->prog[cx->nprog++] = last;
                }
        }
}

/* replay mode: show the runs behind a violation (events and cache of the faulted run and its references) */
static void explain(struct casectx *cx, const uint8_t *mask, int with_refs)
{
        static int shown;
        if (!mc_replaying || shown++ >= 2) return;
        const struct tx *t = &T[cx->ti];
        struct snap s; uint8_t skip[MAXP] = { 0 };
        verbose = 1;
        fprintf(stderr, "--- transmission %s:", t->name);
        for (int i = 0; i < t->n; i++) {
                const struct pkt *p = &t->p[i];
                if (p->kind == PK_HEADER) fprintf(stderr, "\n  %2d header %03x.%04x flags %03x:", i, t->in[p->inst].pgno, t->in[p->inst].subno, t->in[p->inst].flags);
                else if (p->kind == PK_ROW || p->kind == PK_HROW) fprintf(stderr, " R%d(m%d)", p->row, p->mag);
                else fprintf(stderr, " [%d %s]", i, pk_name[p->kind]);
        }
        fprintf(stderr, "\n--- faulted packet %d as sent:", cx->k);
        for (int j = 0; j < 42; j++) fprintf(stderr, " %02x", t->p[cx->k].b[j]);
        fprintf(stderr, "\n--- faulted packet %d received:", cx->k);
        for (int j = 0; j < 42; j++) fprintf(stderr, " %02x", t->p[cx->k].b[j] ^ mask[j]);
        fprintf(stderr, "\n");
        run_label = "faulted";    run_tx(t, NULL, cx->k, mask, NULL, &s);
        run_label = "fault free"; run_tx(t, NULL, -1, NULL, NULL, &s);
        skip[cx->k] = 1;
        run_label = "packet dropped"; run_tx(t, skip, -1, NULL, NULL, &s);
        if (with_refs) {
                int all = (1 << cx->nprog) - 1;
                run_label = "new page removed, filler header in place"; run_ref(cx, 0, 1, &s);
                run_label = "new page removed, header removed"; run_ref(cx, 0, 0, &s);
                if (all) {
                        run_label = "new page + pages in progress removed, filler header in place"; run_ref(cx, all, 1, &s);
                        run_label = "new page + pages in progress removed, header removed"; run_ref(cx, all, 0, &s);
                }
        }
        verbose = 0;
}

static void evaluate(struct casectx *cx, const uint8_t *mask, const char *family)
{
        const struct tx *t = &T[cx->ti];
        const struct pkt *p = &t->p[cx->k];
        int k = cx->k;
        char ms[160]; mask_str(mask, ms, sizeof ms);
        mc_case(NULL, "%s: T=%s packet %d (%s) %s", family, t->name, k, pk_name[p->kind], ms);

        /* classify by the layout table */
        int f[42], maxH = 0, nH = 0, nOther = 0, over2 = 0, ctl2 = -1, ctlmax = 0, desig = -1, parodd = 0, pareven = 0, worst = 0;
        int nflips = 0;
        for (int u = 0; u < p->nu; u++) {
                int c = 0;
                for (int j = 0; j < p->u[u].len; j++) c += __builtin_popcount(mask[p->u[u].off + j]);
                f[u] = c; nflips += c;
                if (p->u[u].kind == K_H8 || p->u[u].kind == K_H24) { if (c > maxH) maxH = c; if (c) nH++; }
                else if (c) nOther++;
                if (p->u[u].kind != K_RAW && c > 2) over2 = 1;
                if (p->u[u].role >= R_PAGE && p->u[u].role <= R_CTL) { if (c == 2 && ctl2 < 0) ctl2 = u; if (c > ctlmax) ctlmax = c; }
                if (p->u[u].role == R_DESIG) desig = u;
                if (p->u[u].kind == K_PAR && p->u[u].role == R_TEXT && (c & 1)) parodd = 1;
                if (p->u[u].kind == K_PAR && c && !(c & 1)) pareven = 1;    /* undetectable change of that character */
        }
        if (!nflips) return;
        for (int u = 1; u < p->nu; u++) if (f[u] > f[worst]) worst = u;
        int mragOK = f[0] <= 1 && f[1] <= 1;
        int mragBad = (f[0] == 2 || f[1] == 2) && f[0] <= 2 && f[1] <= 2;
        const struct inst *in = p->inst >= 0 ? &t->in[p->inst] : NULL;
        int cl = CL_NONE;
        if (maxH <= 1 && !nOther) cl = CL_A;
        else if (mragBad) { cl = CL_BDROP; worst = f[0] == 2 ? 0 : 1; }
        else if (mragOK && p->kind != PK_HEADER && desig >= 0 && f[desig] == 2) { cl = CL_BDROP; worst = desig; }
        else if (mragOK && p->kind == PK_HEADER && ctl2 >= 0 && ctlmax <= 2) { cl = CL_BHDR; worst = ctl2; }
        else if (mragOK && p->kind == PK_ROW && in && in->lop && !in->nonlatin && parodd) cl = CL_C;
        else if (mragOK && p->kind == PK_HEADER && in && in->lop && !in->nonlatin && ctlmax <= 1 && parodd && !pareven) cl = CL_CHDR;
        else if (mragOK && (p->kind == PK_X28 || p->kind == PK_M29) && desig >= 0 && f[desig] <= 1 && !over2 && !nOther && maxH == 2) {
                cl = CL_G;      /* an uncorrectable triplet, everything else at most corrected */
                for (int u = 0; u < p->nu; u++) if (p->u[u].kind == K_H24 && f[u] == 2) { worst = u; break; }
        }
        else if (!over2) cl = CL_DONLY;

        /* (c): set up the probe */
        struct cprobe pr; memset(&pr, 0, sizeof pr);
        if (cl == CL_C) {
                uint64_t odd = 0, claim = ~in->x26mask[p->row] & ((1ull << 40) - 1);
                for (int u = 0; u < p->nu; u++) if (p->u[u].kind == K_PAR && (f[u] & 1)) odd |= 1ull << (p->u[u].off - 2);
                if (!(odd & claim)) cl = over2 ? CL_NONE : CL_DONLY;     /* only X/26 addressed cells damaged: excepted */
                else {
                        pr.active = 1; pr.from = k; pr.to = in->next_same; pr.pgno = in->pgno; pr.subno = in->subno; pr.row = p->row;
                        pr.cells = claim;
                        pr.earlier = in->earlier[p->row] >= 0 ? t->in[in->earlier[p->row]].row[p->row] : NULL;
                }
        } else if (cl == CL_CHDR) {
                uint64_t odd = 0;
                for (int u = 0; u < p->nu; u++) if (p->u[u].kind == K_PAR && (f[u] & 1)) odd |= 1ull << (p->u[u].off - 2);
                pr.active = 1; pr.header = 1; pr.from = k; pr.to = in->next_same; pr.pgno = in->pgno; pr.subno = in->subno; pr.row = 0;
                pr.cells = odd;
                pr.earlier = in->earlier_hdr >= 0 ? t->in[in->earlier_hdr].htext : NULL;
        }

        /* (e), (f): capture the page at level 1.5 (text, links) in the faulted run; (g): the observer */
        int enh_ok = mragOK && (desig < 0 || f[desig] <= 1) && !over2 && !nOther && maxH == 2 && in && in->lop;
        int want_e = enh_ok && p->kind == PK_X26, want_f = enh_ok && p->kind == PK_X27;
        if (want_e || want_f) { pr.capture = 1; pr.pgno = in->pgno; pr.subno = in->subno; }
        if (cl == CL_G) pr.g = &g_faulted;

        struct snap s;
        run_label = "faulted";
        run_tx(t, NULL, k, mask, &pr, &s);
        cx->n_eval++; cx->cls[cl]++;
        {
                struct hx h; hx_init(&h); hx_u64(&h, cx->ti * 64 + k); hx_add(&h, mask, 42);
                mc_distinct(hx_fin(&h));
        }

        const struct unit *wu = &p->u[worst];
        char key[200];

        switch (cl) {
        case CL_A: {
                int d = snap_diff(&s, get_base(cx), FULL_MASK);
                if (d) {
                        snprintf(key, sizeof key, "(a) single bit error not corrected: %s, %s%s%s", pk_name[p->kind], kind_name[wu->kind],
                                 wu->role == R_DATA ? "" : " ", wu->role == R_DATA ? "" : role_name[wu->role]);
                        mc_violation(key, "T=%s packet %d %s: differs from the fault free run in: %s", t->name, k, ms, diff_str(d));
                        explain(cx, mask, 0);
                } else mc_outcome("(a) %d corrected unit(s) in %s: state equal to fault free run", nH, pk_name[p->kind]);
                break; }
        case CL_BDROP: {
                int d = snap_diff(&s, get_drop(cx), FULL_MASK), ok = !d, how = 0;
                if (!ok && p->kind == PK_HEADER && wu->role == R_ADDR) {
                        int ns, v;
                        if (match_abandon(cx, &s, &ns, &v)) { ok = 1; how = 1; }
                }
                if (!ok) {
                        snprintf(key, sizeof key, "(b) packet with uncorrectable %s not ignored: %s", role_name[wu->role], pk_name[p->kind]);
                        mc_violation(key, "T=%s packet %d %s: differs from the run without this packet in: %s", t->name, k, ms, diff_str(d));
                        explain(cx, mask, p->kind == PK_HEADER);
                } else mc_outcome("(b) uncorrectable %s in %s: %s", wu->role == R_ADDR ? "MRAG" : "designation", pk_name[p->kind],
                                  how ? "pages in progress abandoned" : "state equal to run without the packet");
                break; }
        case CL_BHDR: {
                int ns = 0, v = 0;
                int ok = match_abandon(cx, &s, &ns, &v);
                if (!ok) {
                        int d0 = snap_diff(&s, get_ref(cx, 0, 1), OBS_MASK), db = snap_diff(&s, get_base(cx), OBS_MASK);
                        snprintf(key, sizeof key, "(b) header with uncorrectable %s not contained", role_name[wu->role]);
                        mc_violation(key, "T=%s packet %d (page %03x.%04x flags %03x) %s: no run with the new page and any set of pages in progress removed gives this state; "
                                     "vs new page removed differs in: %s; %s the fault free run", t->name, k, in->pgno, in->subno, in->flags, ms, diff_str(d0),
                                     db ? "differs from" : "EQUALS");
                        explain(cx, mask, 1);
                } else if (ok == 2) mc_outcome("(b) header %s uncorrectable: abandoned; system page in progress, network data not compared", role_short[wu->role]);
                else mc_outcome("(b) header %s uncorrectable: new page + %d/%d in progress abandoned, %s", role_short[wu->role],
                                  ns, cx->nprog, v ? "ends page before" : "as if not sent");
                break; }
        case CL_C:
        case CL_CHDR:
                if (pr.bad) {
                        snprintf(key, sizeof key, cl == CL_C ? (pr.bad == 2 ? "(c) text row with parity error replaces the earlier good row" : "(c) text row with parity error is displayed")
                                                               : "(c) header character with parity error is displayed");
                        mc_violation(key, "T=%s packet %d (page %03x.%04x row %d) %s: after packet %d column %d shows U+%04x", t->name, k, in->pgno, in->subno,
                                     pr.row, ms, pr.bad_step, pr.bad_col, pr.bad_char);
                } else if (!pr.seen) mc_outcome("(c) %s with parity error: page not cached afterwards", cl == CL_C ? "row" : "header");
                else mc_outcome("(c) %s with parity error: %s%s", cl == CL_C ? "row" : "header cell", pr.kept ? "keeps earlier content" : "",
                                pr.blank ? (pr.kept ? " / blank" : "blank") : "");
                if (pr.seen) mc_count("c_fetches_checked", pr.seen);
                if (cl == CL_C || !pareven) {
                        /* containment: nothing but the damaged row may differ from the fault free run */
                        const struct snap *b = get_base(cx);
                        const char *what = NULL; int wr = -1;
                        if (s.c[C_KEYS] != b->c[C_KEYS]) what = "set of cached pages changes";
                        else if (s.oth_cache != b->oth_cache || s.oth_fmt != b->oth_fmt) what = "another page changes";
                        else if (s.c[C_NET] != b->c[C_NET]) what = "network data changes";
                        else if (cl == CL_C ? s.c[C_EVSEQ] != b->c[C_EVSEQ] : s.evkeys != b->evkeys) what = "event log changes";
                        else if (s.f_present != b->f_present) what = "set of cached pages changes";
                        else if (s.f_present) {
                                if (s.f_rest != b->f_rest || ((s.f_lop ^ b->f_lop) & ~(1u << pr.row))) what = "other data of this page changes";
                                for (int r = 0; r < 26 && !what; r++) {
                                        if (r == pr.row) continue;
                                        if (s.f_rowraw[r] != b->f_rowraw[r] || (r < 25 && s.f_rowfmt[r] != b->f_rowfmt[r])) { what = "another row of this page changes"; wr = r; }
                                }
                        }
                        if (what) {
                                snprintf(key, sizeof key, "(c) parity error in %s not contained: %s", cl == CL_C ? "text row" : "header text", what);
                                mc_violation(key, "T=%s packet %d (page %03x.%04x row %d) %s%s: faulted run caches %d pages / %d events, fault free run %d / %d (row %d)", t->name, k, in->pgno, in->subno,
                                             pr.row, ms, "", s.nkeys, s.nevents, b->nkeys, b->nevents, wr);
                                explain(cx, mask, 0);
                        } else mc_count("c_containment_checked", 1);
                }
                break;
        case CL_G: {
                /* observer first: what X/28 / M/29 control, as fetched, against the packet-dropped run */
                if (!have_g_dropped) {
                        struct cprobe dp; memset(&dp, 0, sizeof dp); dp.g = &g_dropped;
                        uint8_t skip[MAXP] = { 0 }; skip[k] = 1;
                        run_label = "packet dropped (observer)"; run_tx(t, skip, -1, NULL, &dp, &cx->drop); cx->have_drop = 1;
                        have_g_dropped = 1;
                }
                const char *aspect = NULL; char what[200] = ""; int nonlatin = 0; uint64_t ncmp = 0;
                for (int i = 0; i < g_dropped.np && !aspect; i++) for (int l = 0; l < G_NLEV && !aspect; l++) {
                        const struct gpage *a = &g_faulted.pg[i][l], *b = &g_dropped.pg[i][l];
                        if (b->ok && b->font[0] >= 32) nonlatin = 1;    /* G0 set is Cyrillic / Greek / ...: the extension is in effect */
                        ncmp++;
                        if (a->ok != b->ok) { aspect = "fetch result"; snprintf(what, sizeof what, "fetch %s, without the packet %s", a->ok ? "succeeds" : "fails", b->ok ? "succeeds" : "fails"); }
                        else if (!a->ok) continue;
                        else if (a->font[0] != b->font[0] || a->font[1] != b->font[1]) {
                                aspect = "character set"; snprintf(what, sizeof what, "character sets %d/%d, without the packet %d/%d", a->font[0], a->font[1], b->font[0], b->font[1]);
                        } else {
                                int ar = -1, ac = -1;
                                for (int r = 0; r < 25 && !aspect; r++) for (int c = 0; c < 40; c++) {
                                        if (a->text[r][c].unicode != b->text[r][c].unicode) {
                                                aspect = "character set"; snprintf(what, sizeof what, "row %d column %d shows U+%04X, without the packet U+%04X", r, c, a->text[r][c].unicode, b->text[r][c].unicode);
                                                break;
                                        }
                                        if (ar < 0 && memcmp(&a->text[r][c], &b->text[r][c], sizeof(vbi_char))) { ar = r; ac = c; }
                                }
                                for (int j = 0; j < 40 && !aspect; j++) if (a->color_map[j] != b->color_map[j]) {
                                        aspect = "colour map"; snprintf(what, sizeof what, "colour map entry %d is %08x, without the packet %08x", j, a->color_map[j], b->color_map[j]);
                                }
                                if (!aspect && a->screen_color != b->screen_color) {
                                        aspect = "screen colour"; snprintf(what, sizeof what, "screen colour %d, without the packet %d", a->screen_color, b->screen_color);
                                }
                                if (!aspect && a->screen_opacity != b->screen_opacity) {
                                        aspect = "screen opacity"; snprintf(what, sizeof what, "screen opacity %d, without the packet %d", a->screen_opacity, b->screen_opacity);
                                }
                                if (!aspect && ar >= 0) {
                                        aspect = "cell attributes"; snprintf(what, sizeof what, "row %d column %d foreground %d background %d opacity %d, without the packet %d %d %d", ar, ac,
                                                a->text[ar][ac].foreground, a->text[ar][ac].background, a->text[ar][ac].opacity,
                                                b->text[ar][ac].foreground, b->text[ar][ac].background, b->text[ar][ac].opacity);
                                }
                        }
                        if (aspect) {
                                snprintf(key, sizeof key, "(g) uncorrectable triplet in %s changes the fetched page: %s", pk_name[p->kind], aspect);
                                mc_violation(key, "T=%s packet %d %s: page %03x.%04x fetched at level %s: %s", t->name, k, ms,
                                             t->txset[i].pgno, t->txset[i].subno, g_level_name[l], what);
                        }
                }
                mc_count("g_page_level_fetches_compared", ncmp);
                if (nonlatin) mc_count("g_checked_with_non_latin_page", 1);
                int d = snap_diff(&s, get_drop(cx), FULL_MASK);
                if (d) {
                        snprintf(key, sizeof key, "(g) packet with uncorrectable Hamming 24/18 triplet not ignored: %s", pk_name[p->kind]);
                        mc_violation(key, "T=%s packet %d %s: differs from the run without this packet in: %s", t->name, k, ms, diff_str(d));
                }
                if (d || aspect) explain(cx, mask, 0);
                else mc_outcome("(g) uncorrectable triplet in %s: state and pages fetched at levels 1-3.5 equal to run without the packet", pk_name[p->kind]);
                break; }
        default:
                break;
        }

        /* (e) containment of an uncorrectable X/26 triplet: the triplets of the packet are "dropped, not misplaced" -
         * every cell of the page as fetched at level 1.5 shows what the fault free run shows there or what the page
         * shows without its X/26 packets (the level one character), never a third character. */
        if (want_e) {
                if (!have_ref_e) {
                        memset(&ref_eb, 0, sizeof ref_eb); ref_eb.capture = 1; ref_eb.pgno = in->pgno; ref_eb.subno = in->subno; ref_en = ref_eb;
                        struct snap s2; uint8_t skip[MAXP] = { 0 };
                        for (int i = 0; i < t->n; i++) if (t->p[i].inst == p->inst && t->p[i].kind == PK_X26) skip[i] = 1;
                        run_label = "fault free (capture)"; run_tx(t, NULL, -1, NULL, &ref_eb, &s2);
                        run_label = "without X/26 (capture)"; run_tx(t, skip, -1, NULL, &ref_en, &s2);
                        have_ref_e = 1;
                }
                const struct cprobe ef = pr, eb = ref_eb, en = ref_en;
                if (ef.cap_ok && eb.cap_ok && en.cap_ok) {
                        int bad = 0, br = 0, bc = 0;
                        for (int r = 1; r < 25 && !bad; r++) for (int c = 0; c < 40; c++)
                                if (ef.cap[r][c] != eb.cap[r][c] && ef.cap[r][c] != en.cap[r][c]) { bad = 1; br = r; bc = c; break; }
                        if (bad) {
                                mc_violation("(e) uncorrectable X/26 triplet: a cell shows neither the enhanced nor the level one character (triplets misplaced)",
                                             "T=%s packet %d (page %03x.%04x) %s: row %d column %d shows U+%04x, fault free U+%04x, without X/26 U+%04x",
                                             t->name, k, in->pgno, in->subno, ms, br, bc, ef.cap[br][bc], eb.cap[br][bc], en.cap[br][bc]);
                        } else { mc_count("e_x26_containment_checked", 1); mc_outcome("(e) uncorrectable X/26 triplet: every cell enhanced as sent or level one"); }
                } else if (eb.cap_ok && !ef.cap_ok) mc_outcome("(e) uncorrectable X/26 triplet: page not cached in the faulted run (contained)");
        }

        /* (f) containment of an uncorrectable X/27/0 link byte: every FLOF link of the fetched page is the link of the fault free
         * run or what the page shows without this packet, never a third page ("never shown as data") */
        if (want_f) {
                if (!have_ref_e) {
                        memset(&ref_eb, 0, sizeof ref_eb); ref_eb.capture = 1; ref_eb.pgno = in->pgno; ref_eb.subno = in->subno; ref_en = ref_eb;
                        struct snap s2; uint8_t skip[MAXP] = { 0 }; skip[k] = 1;
                        run_label = "fault free (capture)"; run_tx(t, NULL, -1, NULL, &ref_eb, &s2);
                        run_label = "packet dropped (capture)"; run_tx(t, skip, -1, NULL, &ref_en, &s2);
                        have_ref_e = 1;
                }
                const struct cprobe ef = pr, eb = ref_eb, en = ref_en;
                if (ef.nav_ok && eb.nav_ok && en.nav_ok) {
                        int bad = -1;
                        for (int i = 0; i < 6 && bad < 0; i++)
                                if ((ef.nav[i][0] != eb.nav[i][0] || ef.nav[i][1] != eb.nav[i][1]) && (ef.nav[i][0] != en.nav[i][0] || ef.nav[i][1] != en.nav[i][1])) bad = i;
                        if (bad >= 0)
                                mc_violation("(f) uncorrectable X/27 link byte: a FLOF link of the fetched page is neither the transmitted link nor the link without the packet",
                                             "T=%s packet %d (page %03x.%04x) %s: link %d is %03x.%04x, fault free %03x.%04x, without the packet %03x.%04x",
                                             t->name, k, in->pgno, in->subno, ms, bad, ef.nav[bad][0], ef.nav[bad][1], eb.nav[bad][0], eb.nav[bad][1], en.nav[bad][0], en.nav[bad][1]);
                        else { mc_count("f_x27_containment_checked", 1); mc_outcome("(f) uncorrectable X/27 link byte: every link as sent or as without the packet"); }
                }
        }

        /* (d) */
        if (!over2) {
                for (int i = 0; i < s.nkeys; i++)
                        if (!in_txset(t, s.key[i].pgno, s.key[i].subno)) {
                                snprintf(key, sizeof key, "(d) page cached under a number never transmitted: fault in %s %s", pk_name[p->kind], role_name[wu->role]);
                                mc_violation(key, "T=%s packet %d %s: cache holds %03x.%04x", t->name, k, ms, s.key[i].pgno, s.key[i].subno);
                                break;
                        }
                for (int i = 0; i < s.nev; i++)
                        if (!in_txset(t, s.evk[i].pgno, s.evk[i].subno)) {
                                snprintf(key, sizeof key, "(d) page event for a number never transmitted: fault in %s %s", pk_name[p->kind], role_name[wu->role]);
                                mc_violation(key, "T=%s packet %d %s: TTX_PAGE event %03x.%04x", t->name, k, ms, s.evk[i].pgno, s.evk[i].subno);
                                break;
                        }
                if (cl == CL_DONLY) mc_outcome("(d) only: %s: stored numbers within the transmitted set", pk_name[p->kind]);
        } else mc_outcome("no claim (more than two flips in a protected unit): survived");
}

static void case_done(struct casectx *cx)
{
        static const char *cn[] = { "class_a_corrected", "class_b_dropped", "class_b_header", "class_c_row", "class_c_header", "class_g_enhancement_triplet", "class_d_only", "class_unclaimed" };
        mc_count("evaluations", cx->n_eval);
        for (int i = 0; i <= CL_NONE; i++) if (cx->cls[i]) mc_count(cn[i], cx->cls[i]);
        mc_count("decoder_runs", n_runs); n_runs = 0;
}

/* ---- phases --------------------------------------------------------------------- */

static int npk_total;
static struct { int ti, k; } pkidx[NT * MAXP];

static void set_case_key(const struct tx *t, int k, const char *fam)
{
        char key[120]; snprintf(key, sizeof key, "%s fault in %s", fam, pk_name[t->p[k].kind]);
        mc_case(key, "T=%s packet %d", t->name, k);
}

static void single_case(uint64_t idx, void *arg)
{
        struct casectx cx; case_init(&cx, pkidx[idx].ti, pkidx[idx].k);
        set_case_key(&T[cx.ti], cx.k, "single bit");
        for (int bit = 0; bit < 336; bit++) {
                uint8_t m[42] = { 0 }; m[bit / 8] = 1u << (bit % 8);
                evaluate(&cx, m, "single bit");
        }
        if (cx.k == T[cx.ti].first_fault) mc_sample("T=%s: %d packets; packet %d (%s): each of 336 single bit flips on a fresh decoder vs fault free run", T[cx.ti].name, T[cx.ti].n, cx.k, pk_name[T[cx.ti].p[cx.k].kind]);
        case_done(&cx);
}

static int double_kinds;        /* bit set of unit kinds whose internal pairs are enumerated */

static void double_case(uint64_t idx, void *arg)
{
        struct casectx cx; case_init(&cx, pkidx[idx].ti, pkidx[idx].k);
        const struct pkt *p = &T[cx.ti].p[cx.k];
        set_case_key(&T[cx.ti], cx.k, "double bit");
        for (int u = 0; u < p->nu; u++) {
                if (!(double_kinds >> p->u[u].kind & 1)) continue;
                int nb = p->u[u].len * 8;
                for (int a = 0; a < nb; a++) for (int b = a + 1; b < nb; b++) {
                        uint8_t m[42] = { 0 };
                        m[p->u[u].off + a / 8] |= 1u << (a % 8); m[p->u[u].off + b / 8] |= 1u << (b % 8);
                        evaluate(&cx, m, "two bits in one unit");
                }
        }
        if (cx.k == 1) mc_sample("T=%s packet 1 (%s): every pair of flips inside each protected unit", T[cx.ti].name, pk_name[p->kind]);
        case_done(&cx);
}

static int burst_min, burst_max;

static void burst_case(uint64_t idx, void *arg)
{
        struct casectx cx; case_init(&cx, pkidx[idx].ti, pkidx[idx].k);
        set_case_key(&T[cx.ti], cx.k, "burst");
        for (int len = burst_min; len <= burst_max; len++)
                for (int s = 0; s + len <= 336; s++) {
                        uint8_t m[42] = { 0 };
                        for (int b = s; b < s + len; b++) m[b / 8] |= 1u << (b % 8);
                        evaluate(&cx, m, "burst");
                }
        case_done(&cx);
}

static void drop_case(uint64_t idx, void *arg)
{
        int ti = (int) idx; const struct tx *t = &T[ti];
        mc_case("dropped packet", "T=%s", t->name);
        uint64_t n = 0;
        for (int k = 0; k < t->n; k++) {
                uint8_t skip[MAXP] = { 0 }; skip[k] = 1;
                struct snap s;
                mc_case(NULL, "T=%s packet %d (%s) dropped", t->name, k, pk_name[t->p[k].kind]);
                run_tx(t, skip, -1, NULL, NULL, &s); n++;
                mc_distinct(mix64(0xD0000 + ti * 64 + k));
                char key[160];
                for (int i = 0; i < s.nkeys; i++)
                        if (!in_txset(t, s.key[i].pgno, s.key[i].subno)) {
                                snprintf(key, sizeof key, "(d) page cached under a number never transmitted: dropped %s", pk_name[t->p[k].kind]);
                                mc_violation(key, "T=%s packet %d: cache holds %03x.%04x", t->name, k, s.key[i].pgno, s.key[i].subno); break;
                        }
                for (int i = 0; i < s.nev; i++)
                        if (!in_txset(t, s.evk[i].pgno, s.evk[i].subno)) {
                                snprintf(key, sizeof key, "(d) page event for a number never transmitted: dropped %s", pk_name[t->p[k].kind]);
                                mc_violation(key, "T=%s packet %d: TTX_PAGE event %03x.%04x", t->name, k, s.evk[i].pgno, s.evk[i].subno); break;
                        }
                mc_outcome("(d) dropped %s: stored numbers within the transmitted set", pk_name[t->p[k].kind]);
        }
        mc_count("evaluations", n); mc_count("class_drop", n); mc_count("decoder_runs", n_runs); n_runs = 0;
}

/* ---- (h) packet 8/30 under every subset of event handlers (seed C03 round 6) --------- */
/* idx = 8/30 packet * 31 + (handler subset - 1); subset bit i selects hm_ev[i] */

#define NHM 31
static const struct { unsigned bit; const char *name; } hm_ev[5] = {
        { VBI_EVENT_TTX_PAGE, "TTX_PAGE" }, { VBI_EVENT_NETWORK, "NETWORK" }, { VBI_EVENT_NETWORK_ID, "NETWORK_ID" },
        { VBI_EVENT_LOCAL_TIME, "LOCAL_TIME" }, { VBI_EVENT_PROG_ID, "PROG_ID" } };
static int n830; static struct { int ti, k; } idx830[NT * MAXP];

static const char *hm_name(int sub)
{
        static char b[80]; b[0] = 0;
        for (int i = 0; i < 5; i++) if (sub >> i & 1) { if (b[0]) strcat(b, "+"); strcat(b, hm_ev[i].name); }
        return b;
}

static int pid_differs(const vbi_program_id *a, const vbi_program_id *b)
{
        return a->channel != b->channel || a->cni_type != b->cni_type || a->cni != b->cni || a->pil != b->pil || a->luf != b->luf || a->mi != b->mi
               || a->prf != b->prf || a->pcs_audio != b->pcs_audio || a->pty != b->pty;
}

static const char *h_role(const struct pkt *p, const struct unit *u)
{
        if (u->role == R_ADDR) return "address (MRAG)";
        if (u->role == R_DESIG) return "designation code";
        if (u->off < 9) return "initial page link byte";
        return p->kind == PK_8302 ? "PDC byte" : "data byte";
}

static void hmask_eval(struct casectx *cx, int sub, int u, const uint8_t *mask, int nfl)
{
        const struct tx *t = &T[cx->ti]; const struct pkt *p = &t->p[cx->k]; const struct unit *wu = &p->u[u];
        char ms[160], key[200]; mask_str(mask, ms, sizeof ms);
        mc_case(NULL, "8/30 handler subset %s: T=%s packet %d (%s) %s", hm_name(sub), t->name, cx->k, pk_name[p->kind], ms);
        struct snap s;
        run_label = "faulted"; run_tx(t, NULL, cx->k, mask, NULL, &s);
        cx->n_eval++;
        { struct hx h; hx_init(&h); hx_u64(&h, 0x830000 + sub); hx_u64(&h, cx->ti * 64 + cx->k); hx_add(&h, mask, 42); mc_distinct(hx_fin(&h)); }
        int dbase = snap_diff(&s, get_base(cx), FULL_MASK);
        if (nfl == 1) {
                if (dbase) {
                        snprintf(key, sizeof key, "(h) single bit error in %s not corrected under a handler subset: %s", pk_name[p->kind], h_role(p, wu));
                        mc_violation(key, "handlers %s, T=%s packet %d %s: differs from the fault free run in: %s; %d events (last: %s), fault free %d (last: %s)", hm_name(sub), t->name, cx->k, ms,
                                     diff_str(dbase), s.nevents, s.lastev, cx->base.nevents, cx->base.lastev);
                        explain(cx, mask, 0);
                } else mc_outcome("(h) %s, single flip in %s: state equal to fault free run", pk_name[p->kind], h_role(p, wu));
                return;
        }
        int ddrop = snap_diff(&s, get_drop(cx), FULL_MASK);
        int link = wu->role == R_DATA && wu->off < 9;
        if (ddrop && !(link && !dbase)) {
                snprintf(key, sizeof key, "(h) %s with uncorrectable %s not ignored under a handler subset", pk_name[p->kind], h_role(p, wu));
                mc_violation(key, "handlers %s, T=%s packet %d %s: differs from the run without this packet in: %s; %d events (last: %s), without the packet %d (last: %s), fault free %d (last: %s)",
                             hm_name(sub), t->name, cx->k, ms, diff_str(ddrop), s.nevents, s.lastev, cx->drop.nevents, cx->drop.lastev, get_base(cx)->nevents, cx->base.lastev);
                explain(cx, mask, 0);
        } else mc_outcome("(h) %s, uncorrectable %s: %s", pk_name[p->kind], h_role(p, wu), ddrop ? "link unused, equal to fault free run" : "state equal to run without the packet");
}

/* the public decoder of the PDC label on the same patterns (it looks at bytes 9..21 only) */
static void hmask_direct(struct casectx *cx, int u, const uint8_t *mask, int nfl)
{
        const struct tx *t = &T[cx->ti]; const struct pkt *p = &t->p[cx->k]; const struct unit *wu = &p->u[u];
        if (p->kind != PK_8302) return;
        char ms[160]; mask_str(mask, ms, sizeof ms);
        mc_case(NULL, "vbi_decode_teletext_8302_pdc: T=%s packet %d %s", t->name, cx->k, ms);
        uint8_t clean[42], buf[42];
        memcpy(clean, p->b, 42); for (int j = 0; j < 42; j++) buf[j] = p->b[j] ^ mask[j];
        vbi_program_id ref, got; memset(&ref, 0, sizeof ref); memset(&got, 0, sizeof got);
        int rok = vbi_decode_teletext_8302_pdc(&ref, clean), gok = vbi_decode_teletext_8302_pdc(&got, buf);
        mc_count("h_direct_calls", 1);
        int pdc = wu->role == R_DATA && wu->off >= 9;
        if (!rok) { mc_violation("(h) vbi_decode_teletext_8302_pdc refuses a fault free packet", "T=%s packet %d", t->name, cx->k); return; }
        if (nfl == 2 && pdc) {
                if (gok) mc_violation("(h) vbi_decode_teletext_8302_pdc accepts an uncorrectable PDC byte", "T=%s packet %d %s: returns LCI %d CNI %04x PIL %05x LUF %d MI %d PRF %d PTY %02x, transmitted LCI %d CNI %04x PIL %05x LUF %d MI %d PRF %d PTY %02x",
                                      t->name, cx->k, ms, (int) got.channel, got.cni, got.pil, got.luf, got.mi, got.prf, got.pty, (int) ref.channel, ref.cni, ref.pil, ref.luf, ref.mi, ref.prf, ref.pty);
                else mc_outcome("(h) direct call: uncorrectable PDC byte refused");
        } else {
                if (!gok || pid_differs(&got, &ref)) mc_violation("(h) vbi_decode_teletext_8302_pdc: label changes with an error outside the PDC bytes or a single bit error", "T=%s packet %d %s: %s", t->name, cx->k, ms, gok ? "different label" : "refused");
                else mc_outcome("(h) direct call: label equal to fault free label");
        }
}

static void hmask_case(uint64_t idx, void *arg)
{
        int pi = (int)(idx / NHM), sub = (int)(idx % NHM) + 1;
        struct casectx cx; case_init(&cx, idx830[pi].ti, idx830[pi].k);
        const struct tx *t = &T[cx.ti]; const struct pkt *p = &t->p[cx.k];
        run_ev_mask = 0;
        for (int i = 0; i < 5; i++) if (sub >> i & 1) run_ev_mask |= hm_ev[i].bit;
        char key[160]; snprintf(key, sizeof key, "(h) fault in %s under a handler subset", pk_name[p->kind]);
        mc_case(key, "T=%s packet %d handlers %s", t->name, cx.k, hm_name(sub));
        /* not vacuous: what the fault free run raises under this subset */
        mc_count("h_fault_free_events", get_base(&cx)->nevents);
        if (cx.base.nevents != get_drop(&cx)->nevents) mc_count("h_cases_packet_raises_event", 1);
        for (int u = 0; u < p->nu; u++) {
                if (p->u[u].kind != K_H8) continue;
                for (int a = 0; a < 8; a++) for (int b = a; b < 8; b++) {
                        uint8_t m[42] = { 0 };
                        m[p->u[u].off] = (1u << a) | (1u << b);
                        hmask_eval(&cx, sub, u, m, a == b ? 1 : 2);
                        if (sub == NHM) hmask_direct(&cx, u, m, a == b ? 1 : 2);
                }
        }
        if (pi == 0 && (sub == 16 || sub == NHM)) mc_sample("T=%s packet %d (%s), handlers %s: each single flip and each pair of flips inside every Hamming 8/4 byte vs fault free / packet dropped run with the same handlers (fault free run: %d events)",
                                                            t->name, cx.k, pk_name[p->kind], hm_name(sub), cx.base.nevents);
        mc_count("evaluations", cx.n_eval); mc_count("class_h_handler_subset", cx.n_eval); mc_count("decoder_runs", n_runs); n_runs = 0;
        run_ev_mask = EV_ALL;
}

/* thorough: every pair of flips anywhere in one packet, for the first packet of every (kind, designation)
 * of every transmission and every header of the "subcode and control bits" transmission;
 * idx = selected packet * 42 + byte of the first flip */
static int nsel; static int selidx[NT * MAXP];

static void select_pair_packets(void)
{
        for (int i = 0; i < npk_total; i++) {
                const struct tx *t = &T[pkidx[i].ti]; const struct pkt *p = &t->p[pkidx[i].k];
                int first = 1;
                for (int j = t->first_fault; j < pkidx[i].k; j++)
                        if (t->p[j].kind == p->kind && t->p[j].b[2] == p->b[2]) first = 0;
                if (p->kind == PK_HEADER || p->kind == PK_ROW) {
                        first = 1;
                        for (int j = t->first_fault; j < pkidx[i].k; j++) if (t->p[j].kind == p->kind) first = 0;
                        if (p->kind == PK_HEADER && pkidx[i].ti == 3 && !t->in[p->inst].filler) first = 1;
                }
                if (first) selidx[nsel++] = i;
        }
}

static void pair_case(uint64_t idx, void *arg)
{
        int pi = selidx[idx / 42], byte = idx % 42;
        struct casectx cx; case_init(&cx, pkidx[pi].ti, pkidx[pi].k);
        set_case_key(&T[cx.ti], cx.k, "two bits anywhere");
        for (int a = byte * 8; a < byte * 8 + 8; a++)
                for (int b = a + 1; b < 336; b++) {
                        uint8_t m[42] = { 0 };
                        m[a / 8] |= 1u << (a % 8); m[b / 8] |= 1u << (b % 8);
                        evaluate(&cx, m, "two bits anywhere");
                }
        case_done(&cx);
}

/* ---- memory oracle: the same fault space under AddressSanitizer --------------------- */
/* The differential oracle runs on the uninstrumented `fast' library (0.2 ms per decoder run
 * instead of 0.8 ms).  bin/C03_asan is this file built against the ASan-only library
 * variant; it only executes the faulted transmissions (decode, snapshot, fetch), one packet per
 * process, and a sanitizer report aborts it.  The main harness runs it as a pool phase. */

#ifdef C03_ASAN_PASS

static char cur_fault[300] = "start up";
void __asan_on_error(void) { fprintf(stderr, "C03-FAULT: %s\n", cur_fault); }

static void asan_run(const struct tx *t, int k, const uint8_t *m, const char *fam)
{
        char ms[160]; mask_str(m, ms, sizeof ms);
        snprintf(cur_fault, sizeof cur_fault, "%s: T=%s packet %d (%s) %s", fam, t->name, k, pk_name[t->p[k].kind], ms);
        struct snap s; struct cprobe pr; memset(&pr, 0, sizeof pr);
        if (t->p[k].inst >= 0) {       /* level 1 fetch of the page after every later packet */
                const struct inst *in = &t->in[t->p[k].inst];
                pr.active = 1; pr.from = k; pr.to = t->n; pr.pgno = in->pgno; pr.subno = in->subno; pr.row = 1; pr.cells = 0;
        }
        run_tx(t, NULL, k, m, pr.active ? &pr : NULL, &s);
}

int main(int argc, char **argv)
{
        if (argc < 4) { fprintf(stderr, "usage: C03_asan <transmission> <packet> <level>\n"); return 2; }
        int ti = atoi(argv[1]), k = atoi(argv[2]), level = atoi(argv[3]);
        build_transmissions();
        if (ti < 0 || ti >= nT || k < 0 || k >= T[ti].n) return 2;
        const struct tx *t = &T[ti]; const struct pkt *p = &t->p[k];
        for (int bit = 0; bit < 336; bit++) {
                uint8_t m[42] = { 0 }; m[bit / 8] = 1u << (bit % 8);
                asan_run(t, k, m, "single bit");
        }
        for (int u = 0; u < p->nu; u++) {
                if (p->u[u].kind != K_H8 && !(level >= 1 && p->u[u].kind == K_H24)) continue;
                int nb = p->u[u].len * 8;
                for (int a = 0; a < nb; a++) for (int b = a + 1; b < nb; b++) {
                        uint8_t m[42] = { 0 };
                        m[p->u[u].off + a / 8] |= 1u << (a % 8); m[p->u[u].off + b / 8] |= 1u << (b % 8);
                        asan_run(t, k, m, "two bits in one unit");
                }
        }
        if (level >= 1)
                for (int len = 2; len <= 8; len += 3)
                        for (int st = 0; st + len <= 336; st++) {
                                uint8_t m[42] = { 0 };
                                for (int b = st; b < st + len; b++) m[b / 8] |= 1u << (b % 8);
                                asan_run(t, k, m, "burst");
                        }
        uint8_t skip[MAXP] = { 0 }; skip[k] = 1; struct snap s;
        snprintf(cur_fault, sizeof cur_fault, "T=%s packet %d dropped", t->name, k);
        run_tx(t, skip, -1, NULL, NULL, &s);
        fprintf(stderr, "C03-RUNS: %llu\n", (unsigned long long) n_runs);
        return 0;
}

#else

static void asan_case(uint64_t idx, void *arg)
{
        if (arg) idx = selidx[idx];            /* quick: the selected packets only */
        int ti = pkidx[idx].ti, k = pkidx[idx].k;
        const struct tx *t = &T[ti];
        char bin[600], log[600], a1[16], a2[16], a3[16];
        const char *b = getenv("VERIF_BUILD"); if (!b) b = "build";
        snprintf(bin, sizeof bin, "%s/bin/C03_asan", b);
        snprintf(log, sizeof log, "%s/run/C03/asan.%llu.log", b, (unsigned long long) idx);
        snprintf(a1, sizeof a1, "%d", ti); snprintf(a2, sizeof a2, "%d", k); snprintf(a3, sizeof a3, "%d", mc_tier == MC_THOROUGH);
        char key[200];
        snprintf(key, sizeof key, "asan pass: fault in %s", pk_name[t->p[k].kind]);
        mc_case(key, "T=%s packet %d", t->name, k);
        pid_t pid = fork();
        if (pid == 0) {
                int fd = open(log, O_WRONLY | O_CREAT | O_TRUNC, 0666);
                dup2(fd, 2); dup2(fd, 1);
                alarm(600);
                execl(bin, bin, a1, a2, a3, (char *) NULL);
                _exit(127);
        }
        int st; waitpid(pid, &st, 0);
        if (WIFEXITED(st) && WEXITSTATUS(st) == 127) { fprintf(stderr, "cannot exec %s\n", bin); _exit(42); }
        FILE *f = fopen(log, "r"); char line[1024], kind[80] = "abnormal exit", fn[80] = "?", fault[300] = ""; unsigned long long runs = 0;
        int have_fn = 0;
        while (f && fgets(line, sizeof line, f)) {
                char *q;
                if ((q = strstr(line, "ERROR: AddressSanitizer: ")) && !strcmp(kind, "abnormal exit")) sscanf(q + 25, "%79[^ \n]", kind);
                if (!strncmp(line, "C03-FAULT: ", 11) && !fault[0]) { snprintf(fault, sizeof fault, "%.290s", line + 11); fault[strcspn(fault, "\n")] = 0; }
                if (!strncmp(line, "C03-RUNS: ", 10)) runs = strtoull(line + 10, NULL, 10);
                int fno; char fname[80], fpath[400];
                if (!have_fn && sscanf(line, " #%d %*s in %79s %399s", &fno, fname, fpath) == 3 && strstr(fpath, "/src/") && !strstr(fpath, "/verif/")) { strcpy(fn, fname); have_fn = 1; }
        }
        if (f) fclose(f);
        if (WIFEXITED(st) && WEXITSTATUS(st) == 0) { unlink(log); mc_count("asan_pass_decoder_runs", runs); return; }
        if (WIFSIGNALED(st) && WTERMSIG(st) == SIGALRM) { mc_violation("asan pass: decoder hangs on a faulted transmission", "T=%s packet %d, log %s", t->name, k, log); return; }
        snprintf(key, sizeof key, "asan pass: %s in %s (fault in %s)", kind, fn, pk_name[t->p[k].kind]);
        mc_violation(key, "%s; status %#x, log %s", fault[0] ? fault : "no fault recorded", st, log);
}

int main(int argc, char **argv)
{
        mc_init(argc, argv, "C03");
        mc_set_budget(240, 1500);
        build_transmissions();
        self_check();
        for (int ti = 0; ti < nT; ti++) for (int k = T[ti].first_fault; k < T[ti].n; k++) { pkidx[npk_total].ti = ti; pkidx[npk_total].k = k; npk_total++; }

        for (int i = 0; i < npk_total; i++) { int kd = T[pkidx[i].ti].p[pkidx[i].k].kind; if (kd == PK_8301 || kd == PK_8302) idx830[n830++] = (typeof(idx830[0])){ pkidx[i].ti, pkidx[i].k }; }

        mc_meta("level", "fault_enumeration");
        mc_meta("technique", "bounded-exhaustive fault injection into transmissions of a transmitter model; each faulted transmission runs through vbi_decode() on a fresh decoder and is compared with fault free / packet dropped / page removed reference runs (canonical state hash: events, cache, fetched pages, network data, pages in progress); an X/28 or M/29 with an uncorrectable triplet must in addition leave every transmitted page, fetched at levels 1, 1.5, 2.5 and 3.5, with the character set, colour map, screen colour / opacity and cell attributes of the packet dropped run; packets 8/30 are in addition faulted under every non-empty subset of the five event handler types (the decoder validates a different part of the packet for each), compared with fault free / packet dropped runs under the same subset including every event's payload, and fed to vbi_decode_teletext_8302_pdc() directly");
        mc_meta("rule", "one evaluation = one fault pattern (bit mask on one packet, or one dropped packet) of one base transmission; distinct = distinct (transmission, packet, mask); every pattern flips at least one transmitted bit and the decoder is run on it, so none is trivial; the class counters say which clause judged it; in the three 'retransmitted over the cached copy' transmissions only the packets of the second cycle are faulted, the first cycle is the fault free history that puts the page with its enhancement packets into the cache; phase handler-subsets-830: one evaluation = (8/30 packet, handler subset, single flip or pair of flips inside one Hamming 8/4 byte), the counter h_cases_packet_raises_event says in how many (packet, subset) cases the packet raises an event when received intact");
        mc_meta("assume", "page contents limited to the transmitter model's alphabet: letters, digits, space, colon, hyphen, alpha colour codes; 16 base transmissions (plain, update over cached copy with C8 and C4, subpages, clock subcode / C5 / C6 / C7 / C9 / C13, X/26 two packets, X/27/0 + X/27/4, X/28/0 + X/28/4 + M/29/0 + M/29/4, 8/30 format 1, 8/30 format 2, two magazines parallel, magazine serial, Hamming coded MOT rows, four pages with rolling header, and three transmitted twice, identical or updated enhancement packets over the cached first copy: page with X/28/0 (Greek / Cyrillic character sets, own colour map and screen colour) in a magazine with M/29/0 + M/29/4; page with X/28/4 alone and page with X/28/0 + X/28/4; page with X/26/0-1 + X/27/0 + X/27/4)");
        mc_meta("assume", "all phases but handler-subsets-830 register one handler for all five event types; handler subsets are only varied for packets 8/30, the only packets whose validation depends on the event mask (parse_8_30: TTX_EVENTS, BSDATA_EVENTS, LOCAL_TIME, PROG_ID); one handler per decoder, registered before the first packet");
        mc_meta("assume", "one faulted packet per run (faults in two different packets of one transmission are not combined)");
        mc_meta("assume", "packet types not in the transmissions: X/27/1-3 and 5-7, X/28/1 and 3, MIP/BTT/AIT/POP/DRCS page rows, 8/30 via packet 31");
        mc_meta("assume", "canonical state leaves out bytes raw[0][0..7] of a stored page (the header's address/control bytes kept as received, never decoded again; exp-vtx writes them out verbatim) and the clock_update bit of a TTX_PAGE event whose roll_header is 0 (store_lop() leaves it uninitialised)");
        mc_meta("assume", "(b) for a header while a MOT page is in progress: network data not compared (rows of system pages are parsed into magazine data on receipt)");
        int thorough = mc_tier == MC_THOROUGH;
        select_pair_packets();
        mc_meta("bound", "%d faulted packets in %d transmissions (all packets; of the three retransmission shapes the second cycle): all 336 single flips per packet; all pairs inside every Hamming 8/4 byte and 24/18 triplet%s; bursts of %s adjacent bits at every position; every single dropped packet%s; %d packets 8/30 (format 1 and 2) x 31 non-empty subsets of the event handler types { TTX_PAGE, NETWORK, NETWORK_ID, LOCAL_TIME, PROG_ID } x all 8 single flips and all 28 pairs of flips inside every Hamming 8/4 byte of the packet",
                npk_total, nT, thorough ? " and inside every parity / unprotected byte" : "", thorough ? "2..8" : "2, 3 and 8",
                thorough ? "; every pair of flips anywhere in one packet (C(336,2) = 56280 per packet) for the first packet of each kind/designation per transmission" : "", n830);
        if (thorough) mc_meta("assume", "pair-anywhere phase covers %d of %d packets (first of each kind and designation in each transmission, all headers of the subcode/control transmission)", nsel, npk_total);
        mc_meta("assume", "memory oracle (phase asan-pass, bin/C03_asan against the ASan-only library): single flips, pairs inside Hamming 8/4 bytes%s, each dropped packet, on %d of %d packets; the differential oracle itself runs on the uninstrumented library",
                thorough ? " and 24/18 triplets, bursts of 2, 5, 8" : "", thorough ? npk_total : nsel, npk_total);

        mc_pool("single-bit", npk_total, single_case, NULL, 120);
        double_kinds = thorough ? 0xF : (1 << K_H8 | 1 << K_H24);
        mc_pool("double-in-unit", npk_total, double_case, NULL, 300);
        if (thorough) { burst_min = 2; burst_max = 8; mc_pool("burst", npk_total, burst_case, NULL, 300); }
        else {
                burst_min = 2; burst_max = 3; mc_pool("burst-2-3", npk_total, burst_case, NULL, 300);
                burst_min = 8; burst_max = 8; mc_pool("burst-8", npk_total, burst_case, NULL, 300);
        }
        mc_pool("drop", nT, drop_case, NULL, 120);
        mc_pool("handler-subsets-830", (uint64_t) n830 * NHM, hmask_case, NULL, 300);
        if (thorough) mc_pool("pair-anywhere", (uint64_t) nsel * 42, pair_case, NULL, 600);
        if (thorough) mc_pool("asan-pass", npk_total, asan_case, NULL, 900);
        else mc_pool("asan-pass-selected", nsel, asan_case, &nsel, 900);
        return mc_finish();
}
#endif /* C03_ASAN_PASS */
