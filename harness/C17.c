/* C17 - Search finds exactly the pages containing the pattern, in page order, and ends.
 *
 * Bounded-exhaustive exploration of the real vbi_search_new / vbi_search_next /
 * _vbi_cache_foreach_page / ure code over cache populations x start positions x
 * call histories (DESIGN.md "## C17").  Every scenario builds a fresh decoder,
 * stores real cache pages with _vbi_cache_put_page and drives vbi_search_next;
 * a reference model (below) predicts every single answer.
 *
 * Oracle (independent of search.c / ure.c):
 *   - page text: vbi_fetch_vt_page() of the same page on a mirror decoder, rows
 *     1..23, enlarged characters counted once at their upper left cell;
 *   - matcher: naive substring / small backtracking matcher for the subset
 *     { literal, '.', 'x*', 'x+', 'x?', [set], [a-z], a|b, \x, \pN1,..,Nn, \PN1,..,Nn, [:name:], [^:name:] },
 *     case folding by ASCII tolower; the character properties are written out for ASCII and the Teletext
 *     graphics ranges from the table in the documentation of vbi_search_new() (see cls_has(), init_class_pats());
 *   - pass model: one pass returns every matching (pgno,subno) exactly once in
 *     cyclic ascending (descending) order from the start position, consecutive
 *     returns of one page collapse (but a page is never returned more often in
 *     a row than it has occurrences), then NOT_FOUND; a direction change starts
 *     a new pass at the page returned last; a call after NOT_FOUND starts a new
 *     pass at the same origin;
 *   - termination: the progress callback counts page visits of one call; more
 *     than 2*|cache|+2 visits cancels the call and is a violation (no clock);
 *   - the returned page: the highlighted cells are one run in one row 1..23
 *     and their text is an occurrence of the pattern.
 *
 * Deviations from / refinements of DESIGN.md, forced by the code:
 *   - Store order is part of a population: _vbi_cache_put_page(P.0) replaces an
 *     arbitrary cached subpage of P, so 100.0 can only coexist with 100.1/100.2
 *     when it is stored first; 100.1 and 100.2 are stored in both orders.  The
 *     harness verifies (exit 42 otherwise) that the cache really holds the
 *     modelled population.
 *   - Backward passes: the property says "starting at the start page", the API
 *     documentation says the start page is the last page visited backwards.
 *     The oracle therefore accepts the start page (any of its subpages when
 *     VBI_ANY_SUBNO was given) first or last in a backward pass; every other
 *     page has its position fixed.  That each matching page is returned exactly
 *     once is demanded without exception.
 *   - After a cache update between two calls only termination, a legal status
 *     and the highlight of the returned page are demanded (the result set is
 *     documented as undefined then).
 *   - Direction changes are explored twice: every single switch point on the
 *     flat population product, and all F/R/update sequences up to a depth with
 *     the E2 explicit-state search (canonical state = search context + model)
 *     on a 4-slot universe.  struct vbi_search is opaque, therefore search.c is
 *     compiled into this harness (#include), the archive member is not linked.
 *   - Start pages are taken from 0x100..0x8FF (other numbers violate an assert
 *     precondition of the cache and are not Teletext page numbers).
 *   - A cache that holds only non-displayable pages is not explored: the walk
 *     would spin without a single progress call and only the watchdog could tell.
 *   - Quick tier bounds are subsets of the DESIGN bounds (see the "bound" meta
 *     line); the thorough tier runs the full 3^7 product with every switch point.
 *
 *   - Seed C17 round 5 (two different property-only character classes in one regular expression were compiled
 *     into one symbol, '\p4\p2' searched for '\p4\p4'): the pattern alphabet had no regular expression with two
 *     different range-less classes.  The phase "property classes" enumerates a family of such expressions (pairs,
 *     triples, one class twice as the control, negated classes, union lists, operators, both notations) against
 *     texts which tell the classes apart ('7B' / '42' / 'AB' ...), see init_class_pats().  Their violation keys
 *     name the family of the pattern, the details the pattern itself.
 *
 *   - Seed C17 round 6 (the subset construction of ure.c merged different NFA state sets, '10?00' / 'ab?bb' / '(a|ab)b' found
 *     nothing): the pattern alphabet had a handful of hand written regular expressions.  The phase "enumerated regular
 *     expressions" runs ALL expressions of a small grammar (letters, ? * + |, grouping) up to a source length against pages
 *     which hold every short word alone, judged by a position set matcher (g_match()), see the comment above e_gen().
 *     Their violation keys name the set of operators the expression uses, the details the expression itself.
 *
 * Violation keys name the symptom and the input class (never the concrete
 * population): "<direction>: call never ends [<where the start lies>]",
 * "<direction>: ... never visits <which page>", "... returned twice ...",
 * "... visited page with an occurrence is not reported [<pattern>]", ...  The page
 * statistics of the cache (subno_min) are read only to *name* the class of a
 * failure the model has already established, never to decide a verdict.
 */
#include <stdio.h>
#include <stdlib.h>
#include <string.h>
#include <unistd.h>
#include <stdarg.h>
#include "mc.h"
#include "src/search.c"
#include "src/cache-priv.h"
#include "src/hamm.h"

/* ---- universe --------------------------------------------------------------- */

#define NSLOT 7
struct slotdef { int pgno, subno; };
static const struct slotdef slot_u0[NSLOT] = {
        { 0x100, 0 }, { 0x100, 1 }, { 0x100, 2 }, { 0x150, 0 }, { 0x1AB, 0 }, { 0x899, 0 }, { 0x8FE, 0 },
};
/* second universe (phases "hex subpages"): pages with a hexadecimal number keep the S1 digit 0..F as subpage number,
 * all of them cached side by side; subpage numbers with the digits A..F, next to decimal ones and on the last page */
static const struct slotdef slot_u1[NSLOT] = {
        { 0x150, 0 }, { 0x1AB, 1 }, { 0x1AB, 0xA }, { 0x1AB, 0xC }, { 0x2BD, 0xF }, { 0x899, 0 }, { 0x8FE, 0xB },      /* ascending, like slot_u0 */
};
static const struct slotdef *slot = slot_u0;
#define KEY(p, s) (((p) << 16) + (s))
static int slot_key(int i) { return KEY(slot[i].pgno, slot[i].subno); }

static const int start_pgno[8] = { 0x100, 0x120, 0x150, 0x1AB, 0x300, 0x899, 0x8FE, 0x8FF };        /* 0x300 lies behind 2BD of the second universe */
static const int start_subno[3] = { 0, VBI_ANY_SUBNO, 2 };

/* text variants of a page */
enum {
        T_ABSENT, T_NONE, T_ONCE, T_TWOROWS, T_SAMEROW, T_DW, T_DS, T_DH, T_ROW0, T_ROW24, T_ROW1,
        T_ROW23END, T_PREFIX, T_PREFIX2, T_SPACED, T_DOUBLED, T_LOWER, T_MIXED, T_TOP, T_XAP, T_ZP,
        T_ZAAAP, T_ZAXP, T_BLANK,
        T_CLS0,                         /* + index into cls_txt[]: texts that tell character property classes apart */
        T_META0 = T_CLS0 + 24           /* + index into metas[] */
};
#define NCLS (T_META0 - T_CLS0)
/* texts of the phase "property classes" (seed C17 round 5): the 12 even permutations of the four characters
 * B (upper case, also a hex digit), k (lower case), 7 (digit), - (punctuation): every ordered pair of two different
 * kinds is adjacent on exactly 3 of them, every ordered triple on exactly 1; then one kind twice, the texts which tell
 * two negated classes in a row apart, a page with many occurrences and two pages with Teletext block mosaics.
 * They are stored at row 5 column 3 of an otherwise blank page (no 'HELLO WORLD'), i.e. never next to a row boundary. */
static char cls_txt[NCLS][24] = {
        "", "", "", "", "", "", "", "", "", "", "", "",         /* init_pats(): the permutations */
        "7B", "42", "AB", "kq", "-+", "AB17", "ABC7", "A1 B2 C3 - 5 - 66", "X9y",
        "\x17" "Z5P" "\x07",            /* mosaics on: blast-through Z, mosaic U+EE35, blast-through P, mosaics off */
        "\x17" "5j" "\x07",             /* two mosaics */
        "ROOM 7b, GATE 3C.",
};
static const char metas[] = "!\"#$%&()*+,-./:;=?@[\\]^_{|}~";
#define NMETA ((int) sizeof metas - 1)
/* texts of the phase "enumerated regular expressions" (seed C17 round 6), see init_enum_texts(): every word of 1..4 letters
 * over {a,b,c} alone on an otherwise blank page (120 pages), de Bruijn sequences which hold every 3 letter word over {a,b,c}
 * resp. every word of up to 5 letters over two of the letters, and a blank page */
#define T_ENUM0 (T_META0 + NMETA)
#define NENT 126
#define NENPOP (NENT / 6)       /* populations of 6 pages */
static char enum_txt[NENT][40];
#define NTEXT (T_ENUM0 + NENT)

static const char *text_name(int t)
{
        static const char *n[] = { "absent", "ZIP+ZA/P split", "ZAP", "ZAP on 2 rows", "ZAPZAP", "ZAP double width",
                "ZAP double size", "ZAP double height", "ZAP in row 0 only", "ZAP in row 24 only", "ZAP at row 1 col 0",
                "ZAP at row 23 col 37", "ZZAP", "ZAZAP", "Z A P", "ZZAAPP", "zap", "zAp", "TOP", "XAP", "ZP", "ZAAAP",
                "ZAXP", "blank" };
        static char b[NMETA][8];
        if (t >= T_CLS0 && t < T_META0) {
                static char cb[NCLS][40]; char *o = cb[t - T_CLS0]; size_t n = 0; *o = 0;
                for (const char *q = cls_txt[t - T_CLS0]; *q && n + 8 < sizeof cb[0]; q++)
                        n += (unsigned char) *q < 0x20 ? snprintf(o + n, 8, "<%02x>", *q) : snprintf(o + n, 8, "%c", *q);
                return cb[t - T_CLS0];
        }
        if (t < T_META0) return n[t];
        if (t >= T_ENUM0) return enum_txt[t - T_ENUM0][0] ? enum_txt[t - T_ENUM0] : "blank, no HELLO WORLD";
        snprintf(b[t - T_META0], 8, "Z%cP", metas[t - T_META0]);
        return b[t - T_META0];
}

static void tx(uint8_t raw[26][40], int r, int c, const char *s)
{
        for (; *s && c < 40; s++, c++) raw[r][c] = vbi_par8((unsigned char) *s);
}

static void build_text(int t, uint8_t raw[26][40])
{
        for (int r = 0; r < 26; r++) for (int c = 0; c < 40; c++) raw[r][c] = vbi_par8(0x20);
        tx(raw, 2, 4, "HELLO WORLD");
        switch (t) {
        case T_NONE:      tx(raw, 5, 3, "ZIP"); tx(raw, 7, 38, "ZA"); tx(raw, 8, 0, "P"); break;
        case T_ONCE:      tx(raw, 5, 3, "ZAP"); break;
        case T_TWOROWS:   tx(raw, 3, 10, "ZAP"); tx(raw, 9, 0, "ZAP"); break;
        case T_SAMEROW:   tx(raw, 4, 5, "ZAPZAP"); break;
        case T_DW:        tx(raw, 6, 2, "\x0eZqAqPq\x0c"); break;
        case T_DS:        tx(raw, 6, 2, "\x0fZqAqPq\x0c"); tx(raw, 7, 0, "IGNORED ROW"); break;
        case T_DH:        tx(raw, 6, 2, "\x0dZAP\x0c"); tx(raw, 7, 0, "IGNORED ROW"); break;
        case T_ROW0:      tx(raw, 0, 10, "ZAP"); break;
        case T_ROW24:     tx(raw, 24, 10, "ZAP"); break;
        case T_ROW1:      tx(raw, 1, 0, "ZAP"); break;
        case T_ROW23END:  tx(raw, 23, 37, "ZAP"); break;
        case T_PREFIX:    tx(raw, 5, 3, "ZZAP"); break;
        case T_PREFIX2:   tx(raw, 5, 3, "ZAZAP"); break;
        case T_SPACED:    tx(raw, 5, 3, "Z A P"); break;
        case T_DOUBLED:   tx(raw, 5, 3, "ZZAAPP"); break;
        case T_LOWER:     tx(raw, 5, 3, "zap"); break;
        case T_MIXED:     tx(raw, 5, 3, "zAp"); break;
        case T_TOP:       tx(raw, 11, 20, "TOP"); break;
        case T_XAP:       tx(raw, 5, 3, "XAP"); break;
        case T_ZP:        tx(raw, 5, 3, "ZP"); break;
        case T_ZAAAP:     tx(raw, 5, 3, "ZAAAP"); break;
        case T_ZAXP:      tx(raw, 5, 3, "ZAXP"); break;
        case T_BLANK:     break;
        default:
                if (t >= T_CLS0 && t < T_META0) { tx(raw, 2, 4, "           "); tx(raw, 5, 3, cls_txt[t - T_CLS0]); }
                if (t >= T_ENUM0 && t < NTEXT) { tx(raw, 2, 4, "           "); tx(raw, 5, 3, enum_txt[t - T_ENUM0]); }
                if (t >= T_META0 && t < T_ENUM0) { char b[4] = { 'Z', metas[t - T_META0], 'P', 0 }; tx(raw, 5, 3, b); }
                break;
        }
}

/* patterns */
typedef struct { const char *name, *src; int regexp, casefold; const char *fam; int grp; /* judged by the position set matcher g_match() */ } pat_t;
#define P_ZAP 0
#define MAXPAT 320
static pat_t pats[MAXPAT] = {
        { "literal ZAP", "ZAP", 0, 0 },
        { "literal zap casefold", "zap", 0, 1 },
        { "literal zAP casefold", "zAP", 0, 1 },
        { "literal zap", "zap", 0, 0 },
        { "regex Z.P", "Z.P", 1, 0 },
        { "regex ZA*P", "ZA*P", 1, 0 },
        { "regex [XZ]AP", "[XZ]AP", 1, 0 },
        { "regex ZAP|TOP", "ZAP|TOP", 1, 0 },
        { "regex \\.", "\\.", 1, 0 },
        { "regex z.p casefold", "z.p", 1, 1 },
        { "regex ZA*XP|TOP", "ZA*XP|TOP", 1, 0 },
};
#define NPAT_FIXED 11
static int npats = NPAT_FIXED;
static int npats_zap;           /* pats[0..npats_zap): the patterns about 'ZAP'; pats[npats_zap..npats): the property class family */

/* ---- regular expressions made of character property classes (seed C17 round 5) ----------------------------------
 * Syntax as src/ure.c parses it and vbi_search_new() documents it:
 *   \pN1,..,Nn   one character which has at least one of the listed properties (table of vbi_search_new():
 *                1 alphanumeric, 2 alpha, 4 digit, 5 graphical, 6 lowercase, 7 printable, 8 punctuation, 9 space,
 *                10 uppercase, 11 hex digit, 16 Teletext G1 or G3 graphics, 17 Teletext DRCS)
 *   \PN1,..,Nn   one character which has none of them
 *   [ ... ]      a class of literals, ranges a-z, \p lists and the POSIX colon delimited names :alpha: :digit: ...,
 *                :gfx: and :drcs: (the extensions the table of vbi_search_new() lists)
 *                (ure.c probes for them *inside* the brackets: "[:alpha:]" is the class of letters, "[:alpha::digit:]"
 *                the union, "[^:digit:]" its negation)
 * The family is enumerated, not sampled: every ordered pair over 5 classes in both notations (one class twice is the
 * control), mixed notations, ordered triples, negated classes before / after / between positive ones and two negated
 * classes in a row, union lists, the wider classes, the operators * + ? | over disjoint classes, case folding with
 * classes which case folding cannot change, graphics, and a class next to a literal or a range.
 * Left out because nothing can be stated about them from the documentation: properties 12-15 (title, defined, wide,
 * nonspacing), upper/lower under case folding, a negated class at a row boundary (is the row separator a character?),
 * overlapping classes under * + ? |, and every pattern without a positive class (it would occur ~900 times a page).
 * Four classes of input have a family / violation key of their own, because the unchanged tree fails on them (reported,
 * not hidden; the keys must stay apart from the keys of the other families):
 *   "[:graph:]" and "[:gfx:]" are not recognised as class names (cclass_trie[] of ure.c: the alternatives f / r after
 *   ':g' are counted 1, 2 instead of 2, 1; the closing colon is accepted at the 7th or 8th character only),
 *   "[:drcs:]x" makes _ure_posix_ccl() read past the end of cclass_trie[] (ASan: global-buffer-overflow),
 *   '.', \PN and [^ ] do not match a Teletext graphics character (_ure_issep() passes its arguments to
 *   _ure_matches_properties() in the wrong order, every code with bit 14 set "is a separator"). */
static const struct { int n; const char *name; } K5[5] = { { 2, "alpha" }, { 4, "digit" }, { 8, "punct" }, { 10, "upper" }, { 6, "lower" } };
#define K3 3                    /* the first three: alpha, digit, punct */
static char cls_names[MAXPAT][64], cls_src[MAXPAT][56];

static void add_cls(const char *fam, int casefold, const char *fmt, ...)
{
        va_list ap;
        if (npats >= MAXPAT) { fprintf(stderr, "C17: pats[] too small\n"); _exit(42); }
        va_start(ap, fmt); vsnprintf(cls_src[npats], sizeof cls_src[0], fmt, ap); va_end(ap);
        snprintf(cls_names[npats], sizeof cls_names[0], "regex %s%s", cls_src[npats], casefold ? " casefold" : "");
        pats[npats] = (pat_t){ cls_names[npats], cls_src[npats], 1, casefold, fam };
        npats++;
}
/* class k of K5 in notation f (0: \pN, 1: [:name:]), negated or not */
static const char *cl(int k, int f, int neg)
{
        static char b[8][16]; static int w;
        char *o = b[w++ & 7];
        if (f) snprintf(o, 16, "[%s:%s:]", neg ? "^" : "", K5[k].name); else snprintf(o, 16, "\\%c%d", neg ? 'P' : 'p', K5[k].n);
        return o;
}
static void init_class_pats(void)
{
        static const char *F1 = "property classes: one class twice", *F2 = "property classes: 2 different classes",
                *F3 = "property classes: 3 classes", *FN = "property classes: negated classes", *FU = "property classes: union lists and wider classes",
                *FO = "property classes: with * + ? |", *FC = "property classes: casefold", *FG = "property classes: Teletext graphics",
                *FL = "property classes: next to a literal or a range", *FGR = "property classes: [:graph:]",
                *FGX = "property classes: [:gfx:]", *FDR = "property classes: [:drcs:]";
        /* the texts: even permutations of "Bk7-" in lexicographic order */
        static const char sym[5] = "7-Bk";
        int nperm = 0;
        for (int a = 0; a < 4; a++) for (int b = 0; b < 4; b++) for (int c = 0; c < 4; c++) for (int d = 0; d < 4; d++) {
                int q[4] = { a, b, c, d }, inv = 0, bad = 0;
                for (int i = 0; i < 4; i++) for (int j = i + 1; j < 4; j++) { if (q[i] == q[j]) bad = 1; if (q[i] > q[j]) inv++; }
                if (bad || (inv & 1)) continue;
                for (int i = 0; i < 4; i++) cls_txt[nperm][i] = sym[q[i]];
                cls_txt[nperm++][4] = 0;
        }
        if (nperm != 12) _exit(42);
        /* pairs */
        for (int f = 0; f < 2; f++) for (int i = 0; i < 5; i++) for (int j = 0; j < 5; j++)
                add_cls(i == j ? F1 : F2, 0, "%s%s", cl(i, f, 0), cl(j, f, 0));
        for (int f = 0; f < 2; f++) for (int i = 0; i < K3; i++) for (int j = 0; j < K3; j++)
                if (i != j) add_cls(F2, 0, "%s%s", cl(i, f, 0), cl(j, !f, 0));
        /* triples: all different over {digit, punct, upper, lower}; over {alpha, digit, punct} in the other notation; ABA, AAB, ABB */
        for (int i = 1; i < 5; i++) for (int j = 1; j < 5; j++) for (int k = 1; k < 5; k++)
                if (i != j && j != k && i != k) add_cls(F3, 0, "%s%s%s", cl(i, 0, 0), cl(j, 0, 0), cl(k, 0, 0));
        for (int i = 0; i < K3; i++) for (int j = 0; j < K3; j++) for (int k = 0; k < K3; k++)
                if (i != j && j != k && i != k) add_cls(F3, 0, "%s%s%s", cl(i, 1, 0), cl(j, 1, 0), cl(k, 1, 0));
        for (int i = 0; i < K3; i++) for (int j = 0; j < K3; j++) if (i != j) {
                add_cls(F3, 0, "%s%s%s", cl(i, 0, 0), cl(j, 0, 0), cl(i, 0, 0));
                add_cls(F3, 0, "%s%s%s", cl(i, 0, 0), cl(i, 0, 0), cl(j, 0, 0));
                add_cls(F3, 0, "%s%s%s", cl(i, 0, 0), cl(j, 0, 0), cl(j, 0, 0));
        }
        /* negated classes: after, before, between positive ones; two in a row between alphanumerics (same one twice = control) */
        for (int i = 0; i < K3; i++) for (int j = 0; j < K3; j++) {
                add_cls(FN, 0, "%s%s", cl(i, 0, 0), cl(j, 0, 1));
                add_cls(FN, 0, "%s%s", cl(i, 0, 1), cl(j, 0, 0));
                add_cls(FN, 0, "%s%s%s", cl(i, 1, 0), cl(j, 1, 1), cl(i, 1, 0));
                add_cls(FN, 0, "\\p1%s%s\\p1", cl(i, 0, 1), cl(j, 0, 1));
                if (i != j) add_cls(FN, 0, "[:alnum:]%s%s[:alnum:]", cl(i, 1, 1), cl(j, 1, 1));
        }
        /* union lists, wider classes */
        add_cls(FU, 0, "\\p2,4\\p8"); add_cls(FU, 0, "\\p8\\p2,4"); add_cls(FU, 0, "\\p2,4\\p2"); add_cls(FU, 0, "\\p2\\p2,4");
        add_cls(FU, 0, "\\p2,4\\p4,8"); add_cls(FU, 0, "\\p4,8\\p2,4"); add_cls(FU, 0, "\\p10,6\\p4");
        add_cls(FU, 0, "[:alpha::digit:][:punct:]"); add_cls(FU, 0, "[:punct:][:alpha::digit:]"); add_cls(FU, 0, "[\\p2,4][\\p8]");
        add_cls(FU, 0, "\\p1\\p8"); add_cls(FU, 0, "\\p8\\p1"); add_cls(FU, 0, "\\p11\\p6"); add_cls(FU, 0, "\\p6\\p11");
        add_cls(FU, 0, "\\p5\\p9"); add_cls(FU, 0, "\\p7\\p8"); add_cls(FU, 0, "[:xdigit:][:lower:]"); add_cls(FU, 0, "[:alnum:][:space:]");
        add_cls(FGR, 0, "[:graph:][:space:]"); add_cls(FGR, 0, "[:space:][:graph:]");
        /* operators, the classes on both sides of each are disjoint */
        add_cls(FO, 0, "\\p10+\\p4"); add_cls(FO, 0, "\\p4+\\p6"); add_cls(FO, 0, "\\p4\\p6*\\p8"); add_cls(FO, 0, "\\p10\\p6?\\p4");
        add_cls(FO, 0, "\\p2\\p8|\\p4\\p4"); add_cls(FO, 0, "[:upper:]+[:digit:]"); add_cls(FO, 0, "[:digit:][:lower:]*[:punct:]");
        /* case folding cannot change these classes */
        add_cls(FC, 1, "\\p4\\p2"); add_cls(FC, 1, "\\p2\\p4"); add_cls(FC, 1, "[:alpha:][:punct:]"); add_cls(FC, 1, "[:punct:][:digit:]");
        /* Teletext block mosaics */
        add_cls(FG, 0, "\\p16\\p10"); add_cls(FG, 0, "\\p10\\p16"); add_cls(FG, 0, "\\p16\\p16"); add_cls(FG, 0, "\\p9\\p16"); add_cls(FG, 0, "\\p16,4\\p2");
        add_cls(FG, 0, "\\p10.\\p10"); add_cls(FG, 0, "\\p10\\P4\\p10"); add_cls(FG, 0, "\\p10[^:digit:]\\p10");
        /* the class names vbi_search_new() documents as extensions */
        add_cls(FGX, 0, "[:gfx:][:upper:]"); add_cls(FGX, 0, "[:upper:][:gfx:]"); add_cls(FDR, 0, "[:drcs:][:upper:]");
        /* a class next to a literal or a range */
        add_cls(FL, 0, "\\p4k"); add_cls(FL, 0, "B\\p6"); add_cls(FL, 0, "[0-9]\\p2"); add_cls(FL, 0, "\\p4[A-Z]"); add_cls(FL, 0, "[7\\p6]\\p8");
        add_cls(FL, 0, "[0-9]\\p2\\p8"); add_cls(FL, 0, "\\p2[0-9]\\p2"); add_cls(FL, 0, ".\\p4\\p2");
}

/* ---- enumerated regular expressions (seed C17 round 6) -----------------------------------------------------------
 * Seed C17 round 6 (_ure_add_state() compared only the first half of two NFA state sets: the subset construction merged
 * DFA states for expressions in which an optional or alternative element is followed by the same symbol again, '10?00',
 * 'ab?bb', 'b?ba*a', '(a|ab)b' found nothing) showed that the pattern alphabet held a handful of hand written regular
 * expressions only.  This family is enumerated, not sampled: ALL source strings of at most E_LEN3 characters over the tokens
 * a b c ? * + | ( ) and all of exactly E_LEN2 (thorough: E_LEN2 and E_LEN2 + 1) characters over a b ? * + | ( ) which
 * the grammar
 *      alt := seq { '|' seq }      seq := item { item }      item := letter [?*+] | '(' alt2 ')' [?*+] | '(' seq2 ')' (?|*|+)
 * derives (alt2: at least one '|', seq2: at least two items; i.e. no doubled operator and no parentheses without a function),
 * except the expressions which match the empty string (where an empty occurrence lies and what it highlights is not stated
 * anywhere).  Every expression is searched on NENPOP populations of 6 pages which together hold the NENT texts of
 * init_enum_texts(): every word of 1..4 letters alone on a page, so that one missing or one additional word of the language
 * changes the set of pages returned.  The oracle is g_match() below, a position set matcher written for this family. */
#define EL 8
#define E_LEN3 5
#define E_LEN2 6
typedef struct { char (*s)[EL]; int n, cap; } elist;
enum { E_ITEM, E_SEQ, E_SEQ2, E_ALT, E_ALT2, E_NT };      /* SEQ2: at least two items; ALT2: at least one '|' at the top level */
static elist e_memo[E_NT][EL]; static char e_done[E_NT][EL];
static int e_nletters;
static void e_add(elist *l, const char *a, const char *b, const char *c)
{
        if (l->n == l->cap) { l->cap = l->cap ? 2 * l->cap : 64; l->s = realloc(l->s, (size_t) l->cap * EL); if (!l->s) _exit(42); }
        snprintf(l->s[l->n++], EL, "%s%s%s", a, b, c);
}
static const elist *e_gen(int nt, int n)
{
        static elist empty;
        if (n <= 0 || n >= EL) return &empty;
        elist *l = &e_memo[nt][n];
        if (e_done[nt][n]) return l;
        e_done[nt][n] = 1;
        switch (nt) {
        case E_ITEM:
                for (int k = 0; k < e_nletters; k++) {
                        char a[2] = { (char) ('a' + k), 0 };
                        if (n == 1) e_add(l, a, "", "");
                        if (n == 2) { e_add(l, a, "?", ""); e_add(l, a, "*", ""); e_add(l, a, "+", ""); }
                }
                { const elist *g = e_gen(E_ALT2, n - 2); char b[EL + 2];
                  for (int i = 0; i < g->n; i++) { snprintf(b, sizeof b, "(%s)", g->s[i]); e_add(l, b, "", ""); } }
                for (int w = 0; w < 2; w++) { const elist *g = e_gen(w ? E_SEQ2 : E_ALT2, n - 3); char b[EL + 2];
                  for (int i = 0; i < g->n; i++) { snprintf(b, sizeof b, "(%s)", g->s[i]); e_add(l, b, "?", ""); e_add(l, b, "*", ""); e_add(l, b, "+", ""); } }
                break;
        case E_SEQ: case E_SEQ2:
                if (nt == E_SEQ) { const elist *g = e_gen(E_ITEM, n); for (int i = 0; i < g->n; i++) e_add(l, g->s[i], "", ""); }
                for (int i = 1; i < n; i++) { const elist *x = e_gen(E_ITEM, i), *y = e_gen(E_SEQ, n - i);
                        for (int a = 0; a < x->n; a++) for (int b = 0; b < y->n; b++) e_add(l, x->s[a], y->s[b], ""); }
                break;
        case E_ALT: case E_ALT2:
                if (nt == E_ALT) { const elist *g = e_gen(E_SEQ, n); for (int i = 0; i < g->n; i++) e_add(l, g->s[i], "", ""); }
                for (int i = 1; i < n - 1; i++) { const elist *x = e_gen(E_SEQ, i), *y = e_gen(E_ALT, n - 1 - i);
                        for (int a = 0; a < x->n; a++) for (int b = 0; b < y->n; b++) e_add(l, x->s[a], "|", y->s[b]); }
                break;
        }
        return l;
}
static void e_reset(int nletters)
{
        for (int i = 0; i < E_NT; i++) for (int j = 0; j < EL; j++) { free(e_memo[i][j].s); memset(&e_memo[i][j], 0, sizeof e_memo[i][j]); e_done[i][j] = 0; }
        e_nletters = nletters;
}

/* The independent matcher of this family: the set of text positions (bit i = "i characters consumed") an expression can
 * reach from a set of positions, computed by recursive descent over the source; '*' and '+' iterate to the fixed point.
 * Nothing of ure.c is used, no automaton is built. */
typedef struct { const char *p; const uint16_t *t; int tn; } gm_t;
static uint64_t g_alt(gm_t *g, uint64_t in);
static uint64_t g_atom(gm_t *g, uint64_t in)
{
        if (*g->p == '(') { g->p++; uint64_t o = g_alt(g, in); if (*g->p == ')') g->p++; return o; }
        uint64_t o = 0; int c = (unsigned char) *g->p++;
        for (int i = 0; i < g->tn; i++) if ((in >> i & 1) && g->t[i] == c) o |= (uint64_t) 1 << (i + 1);
        return o;
}
static uint64_t g_item(gm_t *g, uint64_t in)
{
        const char *at = g->p;
        uint64_t o = g_atom(g, in);
        if (*g->p == '?') { g->p++; return o | in; }
        if (*g->p == '*' || *g->p == '+') {
                const char *end = g->p + 1; uint64_t all = o, fresh = o;
                while (fresh) { g->p = at; uint64_t n = g_atom(g, fresh); fresh = n & ~all; all |= n; }
                o = *(end - 1) == '*' ? all | in : all;
                g->p = end;
        }
        return o;
}
static uint64_t g_alt(gm_t *g, uint64_t in)
{
        uint64_t o = 0;
        for (;;) {
                uint64_t cur = in;
                while (*g->p && *g->p != '|' && *g->p != ')') cur = g_item(g, cur);
                o |= cur;
                if (*g->p != '|') return o;
                g->p++;
        }
}
static int g_match(const char *p, const uint16_t *t, int tn, int full)
{
        gm_t g = { p, t, tn > 60 ? 60 : tn };
        uint64_t o = g_alt(&g, 1);
        return full ? (tn <= 60 && (o >> tn & 1)) : o != 0;
}

static pat_t *epats; static int nepats, g_enum_quick;
/* names a class of failure, never decides one: is every occurrence on the rows followed by text which a longer match attempt
 * could still take (the occurrence plus the next character is the beginning of a word of the language at most 3 letters longer)? */
static int g_shadowed(const char *p, const uint16_t *t, int tn)
{
        int any = 0;
        for (int s = 0; s < tn; s++) {
                gm_t g = { p, t + s, tn - s }; uint64_t o = g_alt(&g, 1);
                if (!o) continue;
                int e = 63 - __builtin_clzll(o), viable = 0;            /* longest occurrence from s */
                any = 1;
                if (s + e >= tn) return 0;
                for (int x = 0; x < 40 && !viable; x++) {               /* extensions: "", then 1..3 letters */
                        uint16_t b[64]; int n = e + 1, v = x - 1 - (x > 3 ? 3 : 0) - (x > 12 ? 9 : 0), l = x == 0 ? 0 : x <= 3 ? 1 : x <= 12 ? 2 : 3;
                        memcpy(b, t + s, sizeof b[0] * (size_t) n);
                        for (int i = 0; i < l; i++) { b[n++] = (uint16_t) ('a' + v % 3); v /= 3; }
                        viable = g_match(p, b, n, 1);
                }
                if (!viable) return 0;
        }
        return any;
}
static struct epat_s { char src[EL]; char name[EL + 8]; } *epat_s;
static char efam[64][64];
static void add_enum_pats(int nletters, int len_lo, int len_hi)
{
        e_reset(nletters);
        for (int n = len_lo; n <= len_hi; n++) {
                const elist *g = e_gen(E_ALT, n);
                epats = realloc(epats, (size_t) (nepats + g->n) * sizeof *epats); epat_s = realloc(epat_s, (size_t) (nepats + g->n) * sizeof *epat_s);
                if (!epats || !epat_s) _exit(42);
                for (int i = 0; i < g->n; i++) {
                        if (g_match(g->s[i], NULL, 0, 1)) continue;             /* matches the empty string */
                        if (nletters == 2 && n <= E_LEN3 && !g_enum_quick) continue;            /* already in the three letter set */
                        memcpy(epat_s[nepats].src, g->s[i], EL); nepats++;
                }
        }
}
static void init_enum_pats(int thorough)
{
        if (!thorough) { g_enum_quick = 1; add_enum_pats(2, 1, E_LEN3); }    /* quick tier: the two letter subset up to E_LEN3 characters */
        else { add_enum_pats(3, 1, E_LEN3); add_enum_pats(2, E_LEN2, E_LEN2 + 1); }
        e_reset(0);
        for (int i = 0; i < nepats; i++) {              /* the arrays no longer move */
                static const char ops[] = "?*+|(";
                int m = 0;
                for (int k = 0; k < 5; k++) if (strchr(epat_s[i].src, ops[k])) m |= 1 << k;
                if (!efam[m][0]) {
                        int o = snprintf(efam[m], sizeof efam[m], m ? "enumerated regex with " : "enumerated regex: letters only");
                        for (int k = 0; k < 5; k++) if (m >> k & 1) o += snprintf(efam[m] + o, sizeof efam[m] - o, k == 4 ? "()" : "%c", ops[k]);
                }
                snprintf(epat_s[i].name, sizeof epat_s[i].name, "regex %s", epat_s[i].src);
                epats[i] = (pat_t){ epat_s[i].name, epat_s[i].src, 1, 0, efam[m], 1 };
        }
}
static const pat_t *pat_of(int i) { return i < MAXPAT ? &pats[i] : &epats[i - MAXPAT]; }

/* de Bruijn sequence B(k, n) over the letters in `sym', written out linearly (the first n-1 letters repeated at the end):
 * every word of n letters occurs exactly once ("prefer the largest" construction; a dead end is a harness error on any tree) */
static void debruijn(const char *sym, int k, int n, char *out)
{
        int len = 0;    /* greedy: start with n times the first letter, always append the last letter which gives a word not seen yet */
        char seen[1 << 10] = { 0 }; int total = 1; for (int i = 0; i < n; i++) total *= k;
        for (int i = 0; i < n; i++) out[len++] = sym[0];
        seen[0] = 1;
        for (int cnt = 1; cnt < total; cnt++) {
                int c;
                for (c = k - 1; c >= 0; c--) {
                        int code = 0;
                        for (int i = len - (n - 1); i < len; i++) code = code * k + (int) (strchr(sym, out[i]) - sym);
                        code = code * k + c;
                        if (!seen[code]) { seen[code] = 1; out[len++] = sym[c]; break; }
                }
                if (c < 0) { fprintf(stderr, "C17: de Bruijn construction failed\n"); _exit(42); }
        }
        out[len] = 0;
}
static void init_enum_texts(void)
{
        int n = 0;
        for (int len = 1; len <= 4; len++) {
                int total = 1; for (int i = 0; i < len; i++) total *= 3;
                for (int w = 0; w < total; w++, n++) { int v = w; for (int i = len - 1; i >= 0; i--) { enum_txt[n][i] = (char) ('a' + v % 3); v /= 3; } enum_txt[n][len] = 0; }
        }
        if (n != 120) _exit(42);
        debruijn("abc", 3, 3, enum_txt[n++]);           /* 29 characters */
        debruijn("ab", 2, 5, enum_txt[n++]);            /* 36 characters */
        debruijn("bc", 2, 5, enum_txt[n++]);
        debruijn("ca", 2, 5, enum_txt[n++]);
        enum_txt[n++][0] = 0;                           /* blank */
        debruijn("cba", 3, 3, enum_txt[n++]);
        if (n != NENT) _exit(42);
        for (int i = 120; i < NENT; i++) if (strlen(enum_txt[i]) > 36) _exit(42);
}

static const char *pkey(const pat_t *pt) { return pt->fam ? pt->fam : pt->name; }     /* violation keys name the family, the details the pattern */

static char meta_names[NMETA][24], meta_src[NMETA][4];
static void init_pats(void)
{
        for (int i = 0; i < NMETA; i++) {          /* literal Z<meta>P: every escaped character */
                snprintf(meta_src[i], 4, "Z%cP", metas[i]);
                snprintf(meta_names[i], 24, "literal Z%cP", metas[i]);
                pats[npats].name = meta_names[i]; pats[npats].src = meta_src[i]; pats[npats].regexp = 0; pats[npats].casefold = 0;
                npats++;
        }
        npats_zap = npats;
        init_class_pats();
        init_enum_texts();
        init_enum_pats(mc_tier == MC_THOROUGH);
}

/* ---- independent matcher ---------------------------------------------------- */

static int fold_c(int c, int fold) { return (fold && c >= 'A' && c <= 'Z') ? c + 32 : c; }

/* The character properties as the table of vbi_search_new() names them, stated for the characters the class texts are
 * made of: ASCII (C locale) and, for 16, the Teletext G1 / G3 graphics ranges the ure.c comment gives.  Written out, not
 * taken from <ctype.h> or ure.c. */
static int cls_has(int prop, int c)
{
        int up = c >= 'A' && c <= 'Z', lo = c >= 'a' && c <= 'z', dg = c >= '0' && c <= '9', graph = c > 0x20 && c < 0x7F;
        switch (prop) {
        case 1:  return up || lo || dg;
        case 2:  return up || lo;
        case 3:  return c < 0x20 || c == 0x7F;
        case 4:  return dg;
        case 5:  return graph;
        case 6:  return lo;
        case 7:  return c >= 0x20 && c < 0x7F;
        case 8:  return graph && !(up || lo || dg);
        case 9:  return c == 0x20 || (c >= 0x09 && c <= 0x0D);
        case 10: return up;
        case 11: return dg || (c >= 'A' && c <= 'F') || (c >= 'a' && c <= 'f');
        case 16: return (c >= 0xEE00 && c <= 0xEE7F) || (c >= 0xEF20 && c <= 0xEF7F);
        case 17: return c >= 0xF000 && c <= 0xF7FF;
        default: return 0;      /* 12..15 are not used by any pattern */
        }
}
/* "N1,N2,...": length of the list at p */
static int plist_len(const char *p, int pn) { int i = 0; while (i < pn && ((p[i] >= '0' && p[i] <= '9') || p[i] == ',')) i++; return i; }
static int plist_has(const char *p, int n, int c)
{
        int v = 0, hit = 0;
        for (int i = 0; i <= n; i++) {
                if (i < n && p[i] != ',') { v = v * 10 + (p[i] - '0'); continue; }
                if (v) hit |= cls_has(v, c);
                v = 0;
        }
        return hit;
}
static const struct { const char *name; int prop; } posix_cls[] = {
        { "alnum", 1 }, { "alpha", 2 }, { "cntrl", 3 }, { "digit", 4 }, { "graph", 5 }, { "lower", 6 },
        { "print", 7 }, { "punct", 8 }, { "space", 9 }, { "upper", 10 }, { "xdigit", 11 }, { "gfx", 16 }, { "drcs", 17 },
};
static int is_plist(const char *p, int pn) { return pn >= 3 && p[0] == '\\' && (p[1] == 'p' || p[1] == 'P') && p[2] >= '0' && p[2] <= '9'; }

static int atom_len(const char *p, int pn)
{
        if (is_plist(p, pn)) return 2 + plist_len(p + 2, pn - 2);
        if (p[0] == '\\' && pn >= 2) return 2;
        if (p[0] == '[') { int i = 1; while (i < pn && p[i] != ']') i++; return i + 1; }
        return 1;
}
static int atom_match(const char *p, int alen, int c0, int fold)
{
        int c = fold_c(c0, fold);       /* literals and ranges compare case folded, properties are those of the character on the page */
        if (is_plist(p, alen)) return plist_has(p + 2, alen - 2, c0) ? p[1] == 'p' : p[1] == 'P';
        if (p[0] == '\\') return c == fold_c((unsigned char) p[1], fold);
        if (p[0] == '.') return 1;
        if (p[0] == '[') {
                int i = 1, end = alen - 1, neg = 0, hit = 0;
                if (i < end && p[i] == '^') { neg = 1; i++; }
                while (i < end) {
                        if (p[i] == ':') {
                                unsigned k;
                                for (k = 0; k < sizeof posix_cls / sizeof posix_cls[0]; k++) {
                                        int l = (int) strlen(posix_cls[k].name);
                                        if (i + 1 + l < end && !strncmp(p + i + 1, posix_cls[k].name, l) && p[i + 1 + l] == ':') {
                                                hit |= cls_has(posix_cls[k].prop, c0); i += l + 2; break;
                                        }
                                }
                                if (k < sizeof posix_cls / sizeof posix_cls[0]) continue;
                        }
                        if (is_plist(p + i, end - i) && p[i + 1] == 'p') { int l = plist_len(p + i + 2, end - i - 2); hit |= plist_has(p + i + 2, l, c0); i += 2 + l; continue; }
                        if (i + 2 < end && p[i + 1] == '-') {
                                hit |= c >= fold_c((unsigned char) p[i], fold) && c <= fold_c((unsigned char) p[i + 2], fold); i += 3; continue;
                        }
                        hit |= c == fold_c((unsigned char) p[i], fold); i++;
                }
                return neg ? !hit : hit;
        }
        return c == fold_c((unsigned char) p[0], fold);
}
/* does p[0..pn) match t[0..k) for some k (exactly k == tn when full)? */
static int m_seq(const char *p, int pn, const uint16_t *t, int tn, int full, int fold)
{
        if (pn == 0) return full ? tn == 0 : 1;
        int al = atom_len(p, pn);
        if (al < pn && (p[al] == '*' || p[al] == '+')) {
                for (int k = 0;; k++) {
                        if ((k > 0 || p[al] == '*') && m_seq(p + al + 1, pn - al - 1, t + k, tn - k, full, fold)) return 1;
                        if (!(k < tn && atom_match(p, al, t[k], fold))) return 0;
                }
        }
        if (al < pn && p[al] == '?') {
                if (m_seq(p + al + 1, pn - al - 1, t, tn, full, fold)) return 1;
                return tn > 0 && atom_match(p, al, t[0], fold) && m_seq(p + al + 1, pn - al - 1, t + 1, tn - 1, full, fold);
        }
        if (tn > 0 && atom_match(p, al, t[0], fold)) return m_seq(p + al, pn - al, t + 1, tn - 1, full, fold);
        return 0;
}
static int m_re(const char *p, const uint16_t *t, int tn, int full, int fold)
{
        int pn = (int) strlen(p), b = 0;
        for (int i = 0; i <= pn; i++) {
                if (i < pn && p[i] == '\\') { i++; continue; }
                if (i < pn && p[i] == '[') { while (i < pn && p[i] != ']') i++; continue; }
                if (i == pn || p[i] == '|') { if (m_seq(p + b, i - b, t, tn, full, fold)) return 1; b = i + 1; }
        }
        return 0;
}
static int m_lit(const char *p, const uint16_t *t, int tn, int full, int fold)
{
        int pn = (int) strlen(p);
        if (tn < pn || (full && tn != pn)) return 0;
        for (int i = 0; i < pn; i++) if (fold_c(t[i], fold) != fold_c((unsigned char) p[i], fold)) return 0;
        return 1;
}
static int m_at(const pat_t *pt, const uint16_t *t, int tn, int full)
{
        if (pt->grp) return g_match(pt->src, t, tn, full);
        return pt->regexp ? m_re(pt->src, t, tn, full, pt->casefold) : m_lit(pt->src, t, tn, full, pt->casefold);
}

/* rows 1..23 of a formatted page, enlarged characters once; col[] = first cell of each character */
struct rows { int n[24]; uint16_t ch[24][40]; uint8_t col[24][40]; };

static void page_rows(const vbi_page *pg, struct rows *R)
{
        memset(R, 0, sizeof *R);
        for (int r = 1; r <= 23; r++) {
                const vbi_char *ac = &pg->text[r * pg->columns];
                for (int c = 0; c < 40; c++) {
                        int sz = ac[c].size;
                        if (sz == VBI_NORMAL_SIZE || sz == VBI_DOUBLE_HEIGHT) { R->col[r][R->n[r]] = c; R->ch[r][R->n[r]++] = ac[c].unicode; }
                        else if (sz == VBI_DOUBLE_WIDTH || sz == VBI_DOUBLE_SIZE) { R->col[r][R->n[r]] = c; R->ch[r][R->n[r]++] = ac[c].unicode; c++; }
                        /* OVER_TOP, OVER_BOTTOM, DOUBLE_HEIGHT2, DOUBLE_SIZE2: covered by an enlarged character */
                }
        }
}
/* number of positions in rows 1..23 where an occurrence starts */
static int count_occ(const pat_t *pt, const struct rows *R)
{
        int n = 0;
        for (int r = 1; r <= 23; r++) for (int s = 0; s < R->n[r]; s++) n += m_at(pt, R->ch[r] + s, R->n[r] - s, 0);
        return n;
}

static int count_occ_row(const pat_t *pt, const struct rows *R, int r)
{
        int n = 0;
        for (int s = 0; s < R->n[r]; s++) n += m_at(pt, R->ch[r] + s, R->n[r] - s, 0);
        return n;
}
/* per process cache of the oracle's page texts, filled through a mirror decoder */
static struct rows *text_rows[NSLOT][NTEXT];

static void put_page(vbi_decoder *v, int s, int t)
{
        cache_page cp; memset(&cp, 0, sizeof cp);
        cp.function = PAGE_FUNCTION_LOP; cp.pgno = slot[s].pgno; cp.subno = slot[s].subno;
        cp.lop_packets = (1u << 26) - 1;
        build_text(t, cp.data.lop.raw);
        cache_page *n = _vbi_cache_put_page(v->ca, v->cn, &cp);
        if (!n) { fprintf(stderr, "C17: put_page failed\n"); _exit(42); }
        cache_page_unref(n);
}

static const struct rows *oracle_rows(int s, int t)
{
        if (!text_rows[s][t]) {
                vbi_decoder *v = vbi_decoder_new();
                vbi_page pg;
                if (!v) _exit(42);
                put_page(v, s, t);
                if (!vbi_fetch_vt_page(v, &pg, slot[s].pgno, slot[s].subno, v->vt.max_level, 25, 1)) {
                        fprintf(stderr, "C17: oracle fetch of %x.%x failed\n", slot[s].pgno, slot[s].subno); _exit(42);
                }
                text_rows[s][t] = malloc(sizeof(struct rows));
                page_rows(&pg, text_rows[s][t]);
                vbi_decoder_delete(v);
        }
        return text_rows[s][t];
}

/* ---- scenario ------------------------------------------------------------------ */

struct cfg {
        uint8_t var[NSLOT];     /* text variant per slot, T_ABSENT = not cached */
        uint8_t swap12;         /* store 100.2 before 100.1 */
        int pat, spg, ssub;
};

/* letters of a history */
enum { L_F, L_R, L_U0 };        /* L_U0 + 2*slot + k : store slot with T_NONE (k=0) / T_ONCE (k=1) */
#define NLETTER (L_U0 + 2 * NSLOT)

static char *cfg_str(const struct cfg *c, char *b, size_t len)
{
        size_t o = 0; b[0] = 0;
        o += snprintf(b + o, len - o, "cache{");
        for (int i = 0, first = 1; i < NSLOT; i++) if (c->var[i] != T_ABSENT && o + 40 < len) {
                o += snprintf(b + o, len - o, "%s%x.%x:'%s'", first ? "" : " ", slot[i].pgno, slot[i].subno, text_name(c->var[i])); first = 0;
        }
        o += snprintf(b + o, len - o, "}%s pattern=[%s] start=%x.", c->swap12 ? " (100.2 stored before 100.1)" : "", pat_of(c->pat)->name, c->spg);
        if (c->ssub == VBI_ANY_SUBNO) snprintf(b + o, len - o, "ANY"); else snprintf(b + o, len - o, "%x", c->ssub);
        return b;
}

/* visits of the current call, reported by the library through the progress callback */
static int g_nvis, g_bound, g_cancelled;
static int g_vis[64];
/* an update armed to happen INSIDE the search: the page is stored again from the progress callback when the walk visits it,
 * i.e. while the walk still holds its reference on the copy being replaced (an application feeding the decoder from the callback) */
static vbi_decoder *g_cb_v; static int g_cb_slot = -1, g_cb_text, g_cb_done;
static void put_page(vbi_decoder *v, int s, int t);
static int progress_cb(vbi_page *pg)
{
        if (getenv("C17_DEBUG")) fprintf(stderr, "visit %x.%x (armed slot %d done %d)\n", pg->pgno, pg->subno, g_cb_slot, g_cb_done);
        if (g_cb_slot >= 0 && !g_cb_done && KEY(pg->pgno, pg->subno) == slot_key(g_cb_slot)) { g_cb_done = 1; put_page(g_cb_v, g_cb_slot, g_cb_text); }
        if (g_nvis < 64) g_vis[g_nvis] = KEY(pg->pgno, pg->subno);
        g_nvis++;
        if (g_nvis > g_bound) { g_cancelled = 1; return 0; }
        return 1;
}

struct run {
        const struct cfg *c;
        vbi_decoder *v;
        vbi_search *s;
        const pat_t *pt;
        uint8_t var[NSLOT];             /* current cache content (after updates) */
        /* model: cached pages, ascending keys */
        int np, key[NSLOT], sl[NSLOT], match[NSLOT], occ[NSLOT];
        int O, P_any, origin_switch;    /* origin of the current pass */
        int origin_unknown;             /* direction change while no page had been returned (empty cache): not modelled */
        int dir, cur, lead, rep, fixed; /* cur, lead: page keys or -1 */
        int req[NSLOT], nreq;           /* required pages (keys) of the pass in base order */
        int exp[NSLOT], nexp, iexp;     /* the rotation the implementation chose */
        int vis[NSLOT], nvis;           /* pages (keys) visited during this pass */
        int nret;                       /* pages returned in this pass */
        int hl_row, hl_c0, hl_c1;       /* cells of the last highlighted occurrence */
        int dead;                       /* after a cache update: termination, status and highlight only */
        int stop;                       /* a violation was reported: end of scenario */
        int ncalls, nupd, last;
        char hist[96]; int nh;
};

static char g_desc[800];
static const char *run_desc(struct run *r)
{
        char b[560];
        snprintf(g_desc, sizeof g_desc, "%s calls=%.*s", cfg_str(r->c, b, sizeof b), r->nh, r->hist);
        return g_desc;
}

/* worker local throttle: the known defects fire in thousands of scenarios */
static void report(struct run *r, const char *key, const char *what)
{
        static struct { char k[200]; int n; } seen[64]; static int ns;
        int i;
        r->stop = 1;
        mc_count("violating_scenarios", 1);
        for (i = 0; i < ns; i++) if (!strcmp(seen[i].k, key)) break;
        if (i == ns) { if (ns < 64) { snprintf(seen[ns].k, sizeof seen[ns].k, "%s", key); seen[ns].n = 0; ns++; } else i = -1; }
        if (i >= 0 && seen[i].n++ >= 2 && !mc_replaying) return;
        mc_violation(key, "%s :: %s", what, run_desc(r));
}

static int idx_of(const struct run *r, int key)
{
        for (int i = 0; i < r->np; i++) if (r->key[i] == key) return i;
        return -1;
}
static int was_visited(const struct run *r, int key)
{
        for (int i = 0; i < r->nvis; i++) if (r->vis[i] == key) return 1;
        return 0;
}

static void model_rebuild(struct run *r)
{
        r->np = 0;
        for (int i = 0; i < NSLOT; i++) if (r->var[i] != T_ABSENT) {
                const struct rows *R = oracle_rows(i, r->var[i]);
                r->key[r->np] = slot_key(i); r->sl[r->np] = i;
                r->occ[r->np] = count_occ(r->pt, R); r->match[r->np] = r->occ[r->np] > 0;
                r->np++;
        }
}

static void model_begin_pass(struct run *r, int d, int lead)
{
        int cyc[NSLOT], n = 0;
        r->dir = d; r->lead = lead; r->fixed = 0; r->nexp = r->iexp = 0; r->rep = 0; r->nvis = 0; r->nret = 0;
        if (d > 0) {
                for (int i = 0; i < r->np; i++) if (r->key[i] >= r->O) cyc[n++] = i;
                for (int i = 0; i < r->np; i++) if (r->key[i] < r->O) cyc[n++] = i;
        } else {
                for (int i = r->np - 1; i >= 0; i--) if (r->key[i] < r->O) cyc[n++] = i;
                for (int i = r->np - 1; i >= 0; i--) if (r->key[i] >= r->O) cyc[n++] = i;
        }
        r->nreq = 0;
        for (int i = 0; i < n; i++) if (r->match[cyc[i]] && r->key[cyc[i]] != lead) r->req[r->nreq++] = r->key[cyc[i]];
}

/* may page x open the pass? */
static int acceptable_first(const struct run *r, int x)
{
        if (r->nreq == 0) return 0;
        if (r->req[0] == x) return 1;
        if (r->dir > 0 || r->lead >= 0) return 0;
        /* backward: the start page (any subpage of it with VBI_ANY_SUBNO) may come first instead of last */
        for (int i = 0; i < r->nreq; i++) if (r->req[i] == x) {
                if (x == r->O) return 1;
                if (r->P_any >= 0 && (x >> 16) == r->P_any) return 1;
        }
        return 0;
}

static const char *dname(int d) { return d > 0 ? "forward" : "backward"; }
static const char *oname(const struct run *r) { return r->origin_switch ? "after a direction change" : "initial"; }

/* does the implementation's page statistic claim a first subpage above a cached subpage of page pg (any page: pg < 0)? */
static int page_has_hidden(const struct run *r, int pg)
{
        for (int i = 0; i < r->np; i++)
                if ((pg < 0 || (r->key[i] >> 16) == pg)
                    && cache_network_page_stat(r->v->cn, r->key[i] >> 16)->subno_min > (r->key[i] & 0xFFFF)) return 1;
        return 0;
}

static int pat_has_any_or_negated(const char *p) { return strstr(p, "\\P") || strstr(p, "[^") || strchr(p, '.'); }
static int rows_have_gfx(const struct rows *R)
{
        for (int r = 1; r <= 23; r++) for (int i = 0; i < R->n[r]; i++) if (cls_has(16, R->ch[r][i])) return 1;
        return 0;
}
/* page y should have been returned now but was not: name the class of the failure */
static void report_missing(struct run *r, int y, const char *got)
{
        char key[200], what[200];
        int pg = y >> 16, sub = y & 0xFFFF, yt = r->var[r->sl[idx_of(r, y)]];
        int lower = 0;          /* is a subpage of y's page cached at or below the start subno? */
        for (int i = 0; i < r->np; i++) if ((r->key[i] >> 16) == (r->O >> 16) && r->key[i] <= r->O) lower = 1;
        snprintf(what, sizeof what, "%s pass: expected %x.%x ('%s'), got %s", dname(r->dir), pg, sub, text_name(yt), got);
        if (was_visited(r, y)) {
                /* the walk offered the page, the matcher said no */
                if (yt == T_PREFIX || yt == T_PREFIX2)
                        snprintf(key, sizeof key, "%s: occurrence that begins inside a failed partial match (ZZAP, ZAZAP) is not reported", dname(r->dir));
                else if (r->pt->fam && pat_has_any_or_negated(r->pt->src) && rows_have_gfx(oracle_rows(r->sl[idx_of(r, y)], yt)))
                        /* names the input class of an established failure: every occurrence on this page needs '.', \P or [^ ] to take a mosaic */
                        snprintf(key, sizeof key, "regex: '.' or a negated class does not match a Teletext graphics character");
                else if (r->pt->grp && ({ const struct rows *R = oracle_rows(r->sl[idx_of(r, y)], yt); int sh = 1, occ = 0;
                                for (int row = 1; row <= 23; row++) if (count_occ_row(r->pt, R, row)) { occ = 1; sh &= g_shadowed(r->pt->src, R->ch[row], R->n[row]); }
                                occ && sh; }))
                        snprintf(key, sizeof key, "regex: occurrence followed by text a longer match attempt takes and then fails on is not reported");
                else
                        snprintf(key, sizeof key, "%s: visited page with an occurrence is not reported [%s]", dname(r->dir), pkey(r->pt));
        } else if (page_has_hidden(r, pg))
                snprintf(key, sizeof key, "%s: page with a cached subpage below its statistics' subno_min is not fully visited", dname(r->dir));
        else if (r->dir < 0 && !r->origin_switch && r->P_any == pg)
                snprintf(key, sizeof key, "backward: pass from a VBI_ANY_SUBNO start never visits the start page");
        else if (r->dir > 0 && !r->origin_switch && pg == (r->O >> 16) && y > r->O && !lower)
                snprintf(key, sizeof key, "forward: start subno below every cached subpage of the start page, its subpages are never visited");
        else if (r->dir < 0 && !r->origin_switch && pg == (r->O >> 16) - 1 && (r->O & 0xFFFF) == 0)
                snprintf(key, sizeof key, "backward: the page directly below the start page is never visited");
        else {
                const char *rel = y == r->O ? "the start page" :
                        ((r->dir > 0) == (y > r->O)) ? "a page beyond the start (before the wrap)" : "a page behind the start (after the wrap)";
                snprintf(key, sizeof key, "%s: pass (%s) never visits %s", dname(r->dir), oname(r), rel);
        }
        report(r, key, what);
}

static void check_highlight(struct run *r, const vbi_page *pg)
{
        struct rows R; char key[160];
        int hr = -1, h0 = -1, h1 = -1, bad = 0, n = 0;
        page_rows(pg, &R);
        for (int row = 1; row <= 23; row++) for (int i = 0; i < R.n[row]; i++) {
                const vbi_char *ac = &pg->text[row * pg->columns + R.col[row][i]];
                if (ac->foreground != 32 + VBI_BLACK || ac->background != 32 + VBI_YELLOW) continue;
                n++;
                if (hr < 0) { hr = row; h0 = h1 = i; }
                else if (row == hr && i == h1 + 1) h1 = i;
                else bad = 1;
        }
        if (n == 0) { snprintf(key, sizeof key, "%s: returned page has no highlighted cell in rows 1-23", dname(r->dir)); report(r, key, "highlight"); return; }
        if (bad) { snprintf(key, sizeof key, "%s: highlighted cells are not one run in one row", dname(r->dir)); report(r, key, "highlight"); return; }
        if (!m_at(r->pt, R.ch[hr] + h0, h1 - h0 + 1, 1)) {
                char w[120]; snprintf(w, sizeof w, "highlight row %d characters %d..%d of %x.%x", hr, h0, h1, pg->pgno, pg->subno);
                snprintf(key, sizeof key, "%s: highlighted text is not an occurrence of the pattern [%s]", dname(r->dir), pkey(r->pt));
                report(r, key, w);
        }
        r->hl_row = hr; r->hl_c0 = R.col[hr][h0];
        r->hl_c1 = h1 + 1 < R.n[hr] ? R.col[hr][h1 + 1] - 1 : 39;
        mc_count("highlights_checked", 1);
}

/* phase "enumerated regular expressions": the cache of a population is built once and searched with many patterns */
static vbi_decoder *g_shared_v;
static void run_begin(struct run *r, const struct cfg *c)
{
        uint16_t pat[64]; int i;
        static const int ord[2][NSLOT] = { { 0, 1, 2, 3, 4, 5, 6 }, { 0, 2, 1, 3, 4, 5, 6 } };
        memset(r, 0, sizeof *r);
        r->c = c; r->pt = pat_of(c->pat);
        memcpy(r->var, c->var, NSLOT);
        mc_case("building the cache crashes", "%s", run_desc(r));
        r->v = g_shared_v ? g_shared_v : vbi_decoder_new();
        if (!r->v) _exit(42);
        /* store order: 100.0 first (see header), then 100.1/100.2 in the chosen order, then the rest */
        if (!g_shared_v) for (i = 0; i < NSLOT; i++) { int s = ord[c->swap12][i]; if (c->var[s] != T_ABSENT) put_page(r->v, s, c->var[s]); }
        model_rebuild(r);
        if ((int) r->v->cn->n_cached_pages != r->np) {
                fprintf(stderr, "C17: cache holds %u pages, model %d\n", r->v->cn->n_cached_pages, r->np); _exit(42);
        }
        for (i = 0; r->pt->src[i]; i++) pat[i] = (unsigned char) r->pt->src[i];
        pat[i] = 0;
        if (r->pt->fam) { char k[120]; snprintf(k, sizeof k, "vbi_search_new crashes [%s]", pkey(r->pt)); mc_case(k, "%s", run_desc(r)); }
        r->s = vbi_search_new(r->v, c->spg, c->ssub, pat, r->pt->casefold, r->pt->regexp, progress_cb);
        r->O = KEY(c->spg, c->ssub == VBI_ANY_SUBNO ? 0 : c->ssub);
        r->P_any = c->ssub == VBI_ANY_SUBNO ? c->spg : -1;
        r->cur = -1; r->lead = -1; r->last = -99;
        if (!r->s) {
                char key[120]; snprintf(key, sizeof key, "vbi_search_new refuses the pattern [%s]", pkey(r->pt));
                report(r, key, "vbi_search_new returned NULL");
        }
}

static void run_end(struct run *r)
{
        if (r->s) vbi_search_delete(r->s);
        if (r->v != g_shared_v) vbi_decoder_delete(r->v);
        r->s = NULL; r->v = NULL;
}

static void never_ends(struct run *r, int d)
{
        char key[200]; int beyond = 0;
        for (int i = 0; i < r->np; i++) if (d > 0 ? r->key[i] >= r->O : r->key[i] < r->O) beyond = 1;
        if (page_has_hidden(r, -1))
                snprintf(key, sizeof key, "%s: call never ends [a cached subpage lies below its page statistics' subno_min]", dname(d));
        else if (r->origin_unknown)
                snprintf(key, sizeof key, "%s: call never ends [direction changed before any page was returned]", dname(d));
        else
                snprintf(key, sizeof key, "%s: call never ends [%s start, %s]", dname(d), oname(r),
                         d > 0 ? (beyond ? "a cached page lies at or above it" : "no cached page at or above it")
                               : (beyond ? "a cached page lies below it" : "no cached page below it"));
        char w[200]; int o = snprintf(w, sizeof w, "call %d cancelled after %d page visits of %d cached pages:", r->ncalls, g_nvis, r->np);
        for (int i = 0; i < g_nvis && i < 8; i++) o += snprintf(w + o, sizeof w - o, " %x.%x", g_vis[i] >> 16, g_vis[i] & 0xFFFF);
        report(r, key, w);
}

/* one letter of a history; returns the status of vbi_search_next (0 for an update), -100 when the scenario is over */
static int run_step(struct run *r, int letter)
{
        char key[200], what[160];
        if (r->stop) return -100;
        if (letter >= L_U0) {
                int s = (letter - L_U0) / 2, t = ((letter - L_U0) & 1) ? T_ONCE : T_NONE;
                if (r->nh + 3 < (int) sizeof r->hist) { r->hist[r->nh++] = 'U'; r->hist[r->nh++] = '0' + s; r->hist[r->nh++] = t == T_ONCE ? '+' : '-'; }
                mc_case("cache update between calls crashes", "%s", run_desc(r));
                put_page(r->v, s, t);
                r->var[s] = t; r->dead = 1; r->nupd++;
                model_rebuild(r);
                if ((int) r->v->cn->n_cached_pages != r->np) { fprintf(stderr, "C17: cache holds %u pages after update, model %d\n", r->v->cn->n_cached_pages, r->np); _exit(42); }
                return 0;
        }
        int d = letter == L_F ? 1 : -1;
        if (r->nh + 1 < (int) sizeof r->hist) r->hist[r->nh++] = d > 0 ? 'F' : 'R';
        if (r->dir == 0) model_begin_pass(r, d, -1);
        else if (d != r->dir) {
                if (r->cur >= 0) { r->O = r->cur; r->origin_switch = 1; r->P_any = -1; model_begin_pass(r, d, r->cur); }
                else { r->origin_unknown = 1; model_begin_pass(r, d, -1); }
        }
        g_nvis = 0; g_cancelled = 0; g_bound = 2 * (int) r->v->cn->n_cached_pages + 2;
        mc_case("vbi_search_next crashes or spins without visiting a page", "%s", run_desc(r));
        vbi_page *pg = NULL;
        int st = vbi_search_next(r->s, &pg, d);
        r->ncalls++; r->last = st;
        if (g_cb_done == 1) {           /* the cache was updated from the progress callback during this call: what it returns is already "after an update" */
                g_cb_done = 2; r->var[g_cb_slot] = g_cb_text; r->dead = 1; r->nupd++; model_rebuild(r);
                if (r->nh + 3 < (int) sizeof r->hist) { r->hist[r->nh++] = 'C'; r->hist[r->nh++] = '0' + g_cb_slot; r->hist[r->nh++] = g_cb_text == T_ONCE ? '+' : '-'; }
        }
        mc_count("evaluations", 1);
        mc_count("page_visits", g_nvis);
        for (int i = 0; i < g_nvis && i < 64; i++)
                if (!was_visited(r, g_vis[i]) && r->nvis < NSLOT && idx_of(r, g_vis[i]) >= 0) r->vis[r->nvis++] = g_vis[i];
        if (g_cancelled || st == VBI_SEARCH_CANCELED) { mc_outcome("%s CANCELED by the visit bound", dname(d)); never_ends(r, d); return st; }
        switch (st) {
        case VBI_SEARCH_SUCCESS: {
                if (!pg) { snprintf(key, sizeof key, "%s: SUCCESS without a page", dname(d)); report(r, key, "pg == NULL"); return st; }
                int x = KEY(pg->pgno, pg->subno), xi = idx_of(r, x);
                snprintf(what, sizeof what, "call %d returned %x.%x", r->ncalls, pg->pgno, pg->subno);
                if (xi < 0) { snprintf(key, sizeof key, "%s: returned page is not in the cache", dname(d)); report(r, key, what); return st; }
                check_highlight(r, pg);
                if (r->stop) return st;
                if (r->dead) { r->cur = x; mc_outcome("%s SUCCESS after a cache update", dname(d)); return st; }
                if (!r->match[xi]) {
                        snprintf(key, sizeof key, "%s: returned page has no occurrence in rows 1-23 [%s, text '%s']", dname(d), pkey(r->pt), r->pt->fam ? "a class text" : text_name(r->var[r->sl[xi]]));
                        report(r, key, what); return st;
                }
                if (x == r->cur) {
                        mc_outcome("%s SUCCESS same page again", dname(d));
                        if (++r->rep > r->occ[xi]) {
                                snprintf(key, sizeof key, "%s: page returned more often in a row than it has occurrences [%s]", dname(d),
                                         d < 0 && r->hl_row == 1 && r->hl_c0 == 0 ? "occurrence starts at row 1 column 0" :
                                         d > 0 && r->hl_row == 23 && r->hl_c1 == 39 ? "occurrence ends at row 23 column 39" : "elsewhere on the page");
                                report(r, key, what);
                        }
                        return st;
                }
                if (!r->fixed) {
                        if (!acceptable_first(r, x)) {
                                int in = 0; for (int i = 0; i < r->nreq; i++) if (r->req[i] == x) in = 1;
                                if (in) report_missing(r, r->req[0], what);
                                else { snprintf(key, sizeof key, "%s: page returned twice in one pass (%s)", dname(d), oname(r)); report(r, key, what); }
                                return st;
                        }
                        int j = 0; while (r->req[j] != x) j++;
                        for (int i = 0; i < r->nreq; i++) r->exp[i] = r->req[(j + i) % r->nreq];
                        r->nexp = r->nreq; r->iexp = 0; r->fixed = 1;
                        if (j) mc_outcome("backward pass opened with the start page");
                }
                if (r->iexp < r->nexp && r->exp[r->iexp] == x) r->iexp++;
                else {
                        int before = 0; for (int i = 0; i < r->iexp; i++) if (r->exp[i] == x) before = 1;
                        if (before || x == r->lead || r->iexp >= r->nexp) {
                                snprintf(key, sizeof key, "%s: page returned twice in one pass (%s, %s)", dname(d), oname(r), x == r->O ? "the start page" : "another page");
                                report(r, key, what);
                        } else report_missing(r, r->exp[r->iexp], what);
                        return st;
                }
                mc_outcome("%s SUCCESS %s", dname(d), ((d > 0) == (x >= r->O)) ? "before the wrap" : "after the wrap");
                r->cur = x; r->rep = 1; r->nret++;
                return st;
        }
        case VBI_SEARCH_NOT_FOUND:
                if (!r->dead) {
                        if (!r->fixed) { if (r->nreq > 0) { report_missing(r, r->req[0], "NOT_FOUND"); return st; } }
                        else if (r->iexp < r->nexp) { report_missing(r, r->exp[r->iexp], "NOT_FOUND"); return st; }
                        mc_outcome("%s NOT_FOUND after %s", dname(d), r->nret ? "all matching pages" : (r->np ? "visiting pages without a match" : "nothing"));
                } else mc_outcome("%s NOT_FOUND after a cache update", dname(d));
                r->dir = 0; r->cur = -1;
                r->dead = 0;            /* the result set is undefined for the pass the update fell into; the next pass is exact again */
                return st;
        case VBI_SEARCH_CACHE_EMPTY:
                if (r->v->cn->n_cached_pages != 0) { snprintf(key, sizeof key, "%s: CACHE_EMPTY although pages are cached", dname(d)); report(r, key, "status"); return st; }
                mc_outcome("%s CACHE_EMPTY", dname(d));
                return st;
        default:
                snprintf(key, sizeof key, "%s: status %d (error)", dname(d), st); report(r, key, "status");
                return st;
        }
}

/* ---- flat drivers -------------------------------------------------------------- */

static uint64_t scen_hash(const struct cfg *c, int drv, int a, int b)
{
        mc_hash h; mc_hash_init(&h);
        mc_hash_add(&h, c->var, NSLOT); mc_hash_u64(&h, c->swap12); mc_hash_u64(&h, c->pat);
        mc_hash_u64(&h, c->spg); mc_hash_u64(&h, c->ssub); mc_hash_u64(&h, drv); mc_hash_u64(&h, a); mc_hash_u64(&h, b);
        return h.a ^ (h.b << 1);
}

static int total_occ(const struct run *r) { int n = 0; for (int i = 0; i < r->np; i++) n += r->occ[i]; return n; }

static void finish_scen(struct run *r, const struct cfg *c, int drv, int a, int b)
{
        /* non trivial: the walk was entered (a page was visited) or the empty cache answered */
        if (r->ncalls > 0) mc_distinct(scen_hash(c, drv, a, b));
        mc_count("scenarios", 1);
        run_end(r);
}

/* d^k until the pass ends, plus one call that must start the pass again */
static int drive_pass(const struct cfg *c, int d)
{
        struct run r; int n = 0;
        run_begin(&r, c);
        int limit = total_occ(&r) + 3, st;
        do { st = run_step(&r, d > 0 ? L_F : L_R); n++; } while (st == VBI_SEARCH_SUCCESS && !r.stop && n < limit);
        if (!r.stop && st == VBI_SEARCH_SUCCESS) report(&r, d > 0 ? "forward: pass does not end" : "backward: pass does not end", "more calls than occurrences + 2");
        if (!r.stop) run_step(&r, d > 0 ? L_F : L_R);
        static int sampled; if (!sampled++ && !r.stop) mc_sample("%s", run_desc(&r));
        finish_scen(&r, c, 1, d, 0);
        return n;
}

/* d^j, then the other direction until that pass ends.  Returns 0 when call j of the first pass did not exist. */
static int drive_switch(const struct cfg *c, int d, int j)
{
        struct run r; int st = VBI_SEARCH_SUCCESS, ok = 1, n = 0;
        run_begin(&r, c);
        int limit = 2 * total_occ(&r) + 4;
        for (int k = 0; k < j && !r.stop; k++) {
                if (st != VBI_SEARCH_SUCCESS) { ok = 0; break; }     /* first pass ended before call j */
                st = run_step(&r, d > 0 ? L_F : L_R);
        }
        if (ok && !r.stop) {
                do { st = run_step(&r, d > 0 ? L_R : L_F); n++; } while (st == VBI_SEARCH_SUCCESS && !r.stop && n < limit);
                if (!r.stop && st == VBI_SEARCH_SUCCESS) report(&r, d > 0 ? "backward: pass does not end" : "forward: pass does not end", "more calls than 2 x occurrences + 4");
                static int sampled; if (sampled++ == 5 && !r.stop) mc_sample("%s", run_desc(&r));
        }
        if (r.stop) ok = 0;
        finish_scen(&r, c, 2, d, j);
        return ok;
}

/* d^j, one cache update, d until the pass ends, one call in the other direction */
static void drive_update(const struct cfg *c, int d, int j, int u)
{
        struct run r; int st = VBI_SEARCH_SUCCESS, n = 0;
        run_begin(&r, c);
        for (int k = 0; k < j && !r.stop && st == VBI_SEARCH_SUCCESS; k++) st = run_step(&r, d > 0 ? L_F : L_R);
        if (!r.stop) {
                run_step(&r, L_U0 + u);
                int limit = 2 * NSLOT * 3 + 4;
                do { st = run_step(&r, d > 0 ? L_F : L_R); n++; } while (st == VBI_SEARCH_SUCCESS && !r.stop && n < limit);
                if (!r.stop && st == VBI_SEARCH_SUCCESS) report(&r, d > 0 ? "forward: pass does not end after a cache update" : "backward: pass does not end after a cache update", "call limit");
                if (!r.stop) run_step(&r, d > 0 ? L_R : L_F);
                static int sampled; if (sampled++ == 7 && !r.stop) mc_sample("%s", run_desc(&r));
        }
        finish_scen(&r, c, 3, d * 16 + j, u);
}

/* ---- phases -------------------------------------------------------------------- */

static int popcount_present(const uint8_t var[NSLOT]) { int n = 0; for (int i = 0; i < NSLOT; i++) n += var[i] != T_ABSENT; return n; }

/* population idx -> states of the slots in `mask' (base 3: absent, no match, match), low bit of idx = store order */
static int decode_pop(uint64_t idx, struct cfg *c, unsigned slots_mask)
{
        memset(c, 0, sizeof *c);
        c->swap12 = idx & 1; idx >>= 1;
        for (int i = 0; i < NSLOT; i++) {
                if (!(slots_mask & (1u << i))) { c->var[i] = T_ABSENT; continue; }
                c->var[i] = idx % 3 == 0 ? T_ABSENT : idx % 3 == 1 ? T_NONE : T_ONCE; idx /= 3;
        }
        if (c->swap12 && (c->var[1] == T_ABSENT || c->var[2] == T_ABSENT)) return 0;   /* same population */
        c->pat = P_ZAP;
        return 1;
}
static uint64_t npop(unsigned slots_mask) { uint64_t n = 2; for (int i = 0; i < NSLOT; i++) if (slots_mask & (1u << i)) n *= 3; return n; }

struct phase_arg {
        unsigned mask;                  /* slots of the population product */
        int minpages, maxpages;         /* population sizes handled by this phase */
        int do_pass, do_switch;
        unsigned pg_mask;               /* start pages (bits into start_pgno[]) */
        int nsub;                       /* start subnos 0, ANY, 2 (first nsub) */
};

static void all_starts(struct cfg *c, const struct phase_arg *a)
{
        for (int p = 0; p < 8; p++) for (int s = 0; s < a->nsub; s++) for (int d = 1; d >= -1; d -= 2) {
                if (!(a->pg_mask & (1u << p))) continue;
                c->spg = start_pgno[p]; c->ssub = start_subno[s];
                if (a->do_pass) drive_pass(c, d);
                if (a->do_switch) for (int j = 1; j < 40; j++) if (!drive_switch(c, d, j)) break;
        }
}

static void pop_case(uint64_t idx, void *arg)
{
        const struct phase_arg *a = arg; struct cfg c;
        if (!decode_pop(idx, &c, a->mask)) return;
        int n = popcount_present(c.var);
        if (n < a->minpages || n > a->maxpages) return;
        all_starts(&c, a);
        mc_leak_check("search or cache leaks memory");
}

/* one text variant at a time in one slot, the other slots all absent / all 'ZIP' / all 'ZAP' */
#define NTEXT_ZAP (T_BLANK)     /* variants 1 .. T_BLANK-1 are about the pattern ZAP */
static void text_case(uint64_t idx, void *arg)
{
        const struct phase_arg *a = arg; struct cfg c; memset(&c, 0, sizeof c);
        int base = 1 + idx % 2, s = (idx / 2) % NSLOT, t = 1 + idx / (2 * NSLOT);
        for (int i = 0; i < NSLOT; i++) c.var[i] = base == 0 ? T_ABSENT : base == 1 ? T_NONE : T_ONCE;
        c.var[s] = t; c.pat = P_ZAP;
        all_starts(&c, a);
}

static void text_case0(uint64_t idx, void *arg)
{
        const struct phase_arg *a = arg; struct cfg c; memset(&c, 0, sizeof c);
        c.var[idx % NSLOT] = 1 + idx / NSLOT; c.pat = P_ZAP;
        all_starts(&c, a);
}

/* every pattern against rotating assignments of the texts that distinguish the patterns */
static const uint8_t pat_texts[] = { T_ONCE, T_NONE, T_LOWER, T_MIXED, T_TOP, T_XAP, T_ZP, T_ZAAAP, T_ZAXP, T_PREFIX,
                                     T_META0 + 12 /* Z.P */, T_BLANK, T_DW, T_META0 + 8 /* Z*P */, T_TWOROWS };
#define NPT ((int) sizeof pat_texts)
static void pattern_case(uint64_t idx, void *arg)
{
        const struct phase_arg *a = arg; struct cfg c; memset(&c, 0, sizeof c);
        int p = idx / NPT, rot = idx % NPT;
        c.pat = p;
        for (int i = 1; i < NSLOT; i++) c.var[i] = pat_texts[(rot + 2 * i) % NPT];
        if (p >= NPAT_FIXED) c.var[3 + rot % 4] = T_META0 + (p - NPAT_FIXED);    /* the literal itself, as far as the character set has it */
        c.var[0] = T_ABSENT;
        all_starts(&c, a);
}

/* seed C17 round 5: every pattern of the property class family against every class text.  The NCT texts rotate through the
 * slots 100.1 .. 8FE.0: slot i holds text (rot + 5 i) mod NCT.  With all NCT rotations (thorough tier) every (pattern, text)
 * pair meets in every slot, with the first NCT / 2 (quick tier) in at least 3 slots; every page has matching and non
 * matching neighbours; each population is searched in straight passes like the phase "patterns". */
#define NCT (NCLS + 2)
#define NROT(T) ((T) ? NCT : NCT / 2)
static int cls_phase_text(int i) { return i < NCLS ? T_CLS0 + i : i == NCLS ? T_BLANK : T_ONCE; }
static void class_case(uint64_t idx, void *arg)
{
        const struct phase_arg *a = arg; struct cfg c; memset(&c, 0, sizeof c);
        int nrot = NROT(mc_tier == MC_THOROUGH), rot = idx % nrot;
        c.pat = npats_zap + idx / nrot;
        /* no page text has a DRCS character: nothing distinguishes the populations for [:drcs:], one of them will do */
        if (rot > 0 && strstr(pats[c.pat].src, ":drcs:")) return;
        for (int i = 1; i < NSLOT; i++) c.var[i] = cls_phase_text((rot + 5 * i) % NCT);
        c.var[0] = T_ABSENT;
        all_starts(&c, a);
}

/* seed C17 round 6: every enumerated regular expression against every population of the enumerated texts.  Population q holds
 * the texts q, q + NENPOP, ... in the slots 100.1 .. 8FE.0 (words of all lengths side by side).  One case = one population x
 * ENUM_CHUNK expressions: the decoder and its cache are built once, every expression gets a search context of its own and is
 * driven through straight passes (+ restart) like the phase "patterns". */
#define ENUM_CHUNK 48
static uint64_t enum_ncases(void) { return (uint64_t) NENPOP * ((nepats + ENUM_CHUNK - 1) / ENUM_CHUNK); }
static void enum_case(uint64_t idx, void *arg)
{
        const struct phase_arg *a = arg; struct cfg c; memset(&c, 0, sizeof c);
        int q = idx % NENPOP, k0 = (int) (idx / NENPOP) * ENUM_CHUNK;
        c.var[0] = T_ABSENT;
        for (int i = 1; i < NSLOT; i++) c.var[i] = T_ENUM0 + q + NENPOP * (i - 1);
        c.pat = MAXPAT + k0;
        mc_case("building the cache crashes", "population %d of the enumerated texts", q);
        g_shared_v = vbi_decoder_new();
        if (!g_shared_v) _exit(42);
        for (int i = 1; i < NSLOT; i++) put_page(g_shared_v, i, c.var[i]);
        for (int k = k0; k < k0 + ENUM_CHUNK && k < nepats; k++) { c.pat = MAXPAT + k; all_starts(&c, a); }
        vbi_decoder_delete(g_shared_v); g_shared_v = NULL;
        mc_leak_check("search or cache leaks memory");
}

/* one cache update between two calls */
/* update from inside the progress callback, then the pass to its end, then one complete pass judged exactly */
static void drive_cb_update(const struct cfg *c, int d, int u)
{
        struct run r; int st = VBI_SEARCH_SUCCESS, n = 0, s = u / 2, t = (u & 1) ? T_ONCE : T_NONE;
        if (c->var[s] == T_ABSENT) return;              /* only a cached page is visited */
        run_begin(&r, c);
        g_cb_v = r.v; g_cb_slot = s; g_cb_text = t; g_cb_done = 0;
        int limit = 2 * NSLOT * 3 + 4;
        do {
                st = run_step(&r, d > 0 ? L_F : L_R); n++;
        } while (st == VBI_SEARCH_SUCCESS && !r.stop && n < limit);
        g_cb_slot = -1;
        if (!r.stop && st == VBI_SEARCH_SUCCESS) report(&r, d > 0 ? "forward: pass does not end after a cache update" : "backward: pass does not end after a cache update", "call limit (update from the progress callback)");
        if (!r.stop && g_cb_done) {
                n = 0;
                do { st = run_step(&r, d > 0 ? L_F : L_R); n++; } while (st == VBI_SEARCH_SUCCESS && !r.stop && n < limit);
                mc_count("passes_after_callback_update", 1);
        }
        finish_scen(&r, c, 4, d, u);
}
static void cb_update_case(uint64_t idx, void *arg)
{
        const struct phase_arg *a = arg; struct cfg c;
        if (!decode_pop(idx, &c, a->mask)) return;
        for (int p = 0; p < 8; p++) for (int s = 0; s < a->nsub; s++) for (int d = 1; d >= -1; d -= 2)
                for (int u = 2; u < 2 * NSLOT; u++) {
                        if (!(a->pg_mask & (1u << p)) || !(a->mask & (1u << (u / 2)))) continue;
                        c.spg = start_pgno[p]; c.ssub = start_subno[s];
                        drive_cb_update(&c, d, u);
                }
}

static void update_case(uint64_t idx, void *arg)
{
        const struct phase_arg *a = arg; struct cfg c;
        if (!decode_pop(idx, &c, a->mask)) return;
        for (int p = 0; p < 8; p++) for (int s = 0; s < a->nsub; s++) for (int d = 1; d >= -1; d -= 2)
                for (int j = 0; j <= 2; j++) for (int u = 2; u < 2 * NSLOT; u++) {       /* never slot 0: storing 100.0 replaces other subpages */
                        if (!(a->pg_mask & (1u << p)) || !(a->mask & (1u << (u / 2)))) continue;
                        c.spg = start_pgno[p]; c.ssub = start_subno[s];
                        drive_update(&c, d, j, u);
                }
}

/* ---- E2: all next(+1) / next(-1) / update sequences on a small universe ------------ */

static struct {
        int nslot, slot[4];             /* configuration letters 0..nslot-1: text of a slot */
        int npg, nsub;                  /* then one letter for the start page, one for the start subno */
        int nupd;                       /* update letters 2 .. 2+nupd-1 */
        int ncfg;
} B;
static const uint8_t bfs_text[4] = { T_ABSENT, T_NONE, T_ONCE, T_TWOROWS };
static const int bfs_pg[4] = { 0x100, 0x120, 0x150, 0x8FE };
static const int bfs_sub[4] = { 0, VBI_ANY_SUBNO, 2, 1 };
static const int bfs_upd[4] = { L_U0 + 2 * 3 + 0, L_U0 + 2 * 6 + 1, L_U0 + 2 * 3 + 1, L_U0 + 2 * 1 + 1 };
#define BFS_NL 6

static const char *bfs_letter(int l, void *arg)
{
        static const char *n[BFS_NL] = { "0|next(+1)", "1|next(-1)", "2|put 150.0 'ZIP'", "3|put 8FE.0 'ZAP'", "put 150.0 'ZAP'", "put 100.1 'ZAP'" };
        return n[l];
}

static int bfs_run(const uint8_t *h, int n, uint64_t out[2], void *arg)
{
        mc_hash hh; mc_hash_init(&hh);
        for (int i = 0; i < n && i < B.ncfg; i++) {
                int lim = i < B.nslot ? 4 : i == B.nslot ? B.npg : B.nsub;
                if (h[i] >= lim) { out[0] = 1; out[1] = 1; return 1; }        /* not a configuration letter */
        }
        if (n < B.ncfg) { mc_hash_u64(&hh, 0xC0F1); mc_hash_add(&hh, h, n); out[0] = hh.a; out[1] = hh.b; return 0; }
        struct cfg c; memset(&c, 0, sizeof c);
        for (int i = 0; i < B.nslot; i++) c.var[B.slot[i]] = bfs_text[h[i]];
        c.pat = P_ZAP; c.spg = bfs_pg[h[B.nslot]]; c.ssub = bfs_sub[h[B.nslot + 1]];
        int nu = 0;
        for (int i = B.ncfg; i < n; i++) if (h[i] >= 2) { nu++; if (h[i] >= 2 + B.nupd) nu = 9; }
        if (nu > 1) { out[0] = 1; out[1] = 1; return 1; }                  /* at most one update per history */
        struct run r;
        run_begin(&r, &c);
        for (int i = B.ncfg; i < n && !r.stop; i++) run_step(&r, h[i] < 2 ? h[i] : bfs_upd[h[i] - 2]);
        int dead_end = r.stop;
        if (r.s) {
                const struct vbi_search *s = r.s;
                int f[] = { s->start_pgno, s->start_subno, s->stop_pgno[0], s->stop_pgno[1], s->stop_subno[0], s->stop_subno[1],
                            s->row[0], s->row[1], s->col[0], s->col[1], s->dir,
                            r.O, r.P_any, r.origin_switch, r.dir, r.cur, r.lead, r.rep, r.fixed, r.iexp, r.nexp, r.nreq, r.dead, r.nupd };
                mc_hash_add(&hh, f, sizeof f);
                mc_hash_add(&hh, r.exp, sizeof(int) * r.nexp); mc_hash_add(&hh, r.req, sizeof(int) * r.nreq);
                mc_hash_add(&hh, r.var, NSLOT); mc_hash_add(&hh, h, B.ncfg);
        }
        if (n > B.ncfg) mc_count("scenarios", 1);
        run_end(&r);
        out[0] = hh.a; out[1] = hh.b;
        return dead_end;
}

/* ---- main ---------------------------------------------------------------------- */

#define ALL_PG 0xFF
#define S(i) (1u << (i))

int main(int argc, char **argv)
{
        mc_init(argc, argv, "C17");
        mc_set_budget(300, 2700);
        init_pats();
        int T = mc_tier == MC_THOROUGH;
        unsigned m6 = 0x7F & ~S(4);             /* without 1AB.0 */
        unsigned m4 = S(0) | S(1) | S(3) | S(6);
        int bfs_ops = T ? 5 : 4;
        if (T) { B.nslot = 4; B.slot[0] = 1; B.slot[1] = 2; B.slot[2] = 3; B.slot[3] = 6; B.npg = 4; B.nsub = 4; B.nupd = 4; }
        else   { B.nslot = 3; B.slot[0] = 1; B.slot[1] = 3; B.slot[2] = 6; B.npg = 4; B.nsub = 2; B.nupd = 2; }
        B.ncfg = B.nslot + 2;

        mc_meta("level", "model_checking");
        mc_meta("technique", "bounded-exhaustive product of cache populations x start positions x call histories on the real search/cache/regex code, "
                "every answer predicted by a reference pass model with an independent matcher (literals, . * + ? | sets, ranges, character property classes \\pN \\PN [:name:] [^:name:]; a position set matcher for grouping and nested alternation); "
                "E2 explicit-state search over all next(+1)/next(-1)/update sequences");
        mc_meta("rule", "a scenario = (text of each of 7 page slots, store order, pattern, start page/subpage, history of calls); it is run on a fresh decoder "
                "and is non-trivial when vbi_search_next was reached; flat phases enumerate straight passes (+ restart), every single direction switch point and one cache update, "
                "every pattern of an enumerated family of property class expressions against every class text in every slot, "
                "every regular expression up to a source length (all strings of a small grammar, not a sample) against every population of texts which hold each short word alone on a page, "
                "the BFS phase all letter sequences with de-duplication on (search context, model state, cache content)");
        mc_meta("assume", "enlarged characters count once (upper left cell); lower halves are not text");
        mc_meta("assume", "backward pass: the start page may be returned first or last (property text vs. API documentation), all other positions are fixed");
        mc_meta("assume", "after a cache update only termination, a legal status and a real highlighted occurrence are demanded");
        mc_meta("assume", "start pages within 0x100..0x8FF; caches holding only undisplayable pages are not explored");
        mc_meta("assume", "character properties are those of the C locale on ASCII plus the Teletext graphics ranges; class texts never touch a row boundary (whether the row "
                "separator belongs to a negated class is not judged); properties 12-15, upper/lower under case folding and overlapping classes under * + ? | are not explored");
        mc_meta("assume", "enumerated regular expressions which match the empty string are left out (where an empty occurrence lies is not stated)");
        mc_meta("assume", "100.0 is stored before 100.1/100.2 (storing P.0 replaces another cached subpage of P); 100.1/100.2 in both orders");
        mc_meta("bound", "slots {100.0,100.1,100.2,150.0,1AB.0,899.0,8FE.0} x {absent,'ZIP','ZAP'}: all populations of <= 2 pages and all of %s, x 8 start pages x {0,ANY,2} x 2 directions, "
                "straight pass + restart; the same on slots {150.0,1AB.1,1AB.A,1AB.C,2BD.F,899.0,8FE.B} (hexadecimal subpage numbers); a direction switch after every call on populations of <= 2 pages and on %s; %d text variants one at a time x 7 slots x 3 backgrounds; "
                "%d patterns (literal/regex/casefold/28 escaped characters) x %d text rotations; "
                "%d regular expressions of character property classes (ordered pairs over {alpha,digit,punct,upper,lower} as \\pN and as [:name:] incl. one class twice, mixed notations, triples, "
                "negated classes \\PN / [^:name:] before, after, between positive ones and two in a row, union lists, alnum/xdigit/graph/print/space, * + ? | over disjoint classes, casefold, "
                "Teletext graphics, the documented names :gfx: :drcs:, a class next to a literal or a range) x %d rotations of %d class texts (12 permutations of 'Bk7-', '7B', '42', 'AB', ... , mosaics) "
                "over 6 slots x %s; "
                "%d enumerated regular expressions (all non-nullable source strings of <= %d characters over a b c ? * + | ( ) and of %d..%d characters over a b ? * + | ( ), no doubled operator, no idle parentheses) "
                "x %d populations of 6 pages holding %d texts (each word of 1..4 letters over {a,b,c} alone on a page, de Bruijn sequences B(3,3) and B(2,5), blank) x start %s x 2 directions, straight pass + restart; "
                "one cache update after 0..2 calls on %s, and one from inside the progress callback while the page is being visited, each followed by complete passes; "
                "BFS: %d slots x 4 texts x %d starts, all sequences of %d operations {next(+1), next(-1), %d updates (at most one)}",
                T ? "the 7 slots" : "the 6 slots without 1AB.0", T ? "all populations" : "{100.0,100.1,150.0,8FE.0}", NTEXT_ZAP - 1, npats_zap, NPT,
                npats - npats_zap, NROT(T), NCT, T ? "4 start pages x {0,ANY,2} x 2 directions" : "start 100.0 / 300.0 x 2 directions",
                nepats, T ? E_LEN3 : 0, T ? E_LEN2 : 1, T ? E_LEN2 + 1 : E_LEN3, NENPOP, NENT, T ? "100.0 / 300.0" : "300.0",
                T ? "{100.1,100.2,150.0,899.0,8FE.0}" : "{100.1,150.0,899.0,8FE.0}", B.nslot, B.npg * B.nsub, bfs_ops, B.nupd);

        /* small populations first: the recorded witness of each violation key is then a small one */
        struct phase_arg p1 = { 0x7F, 0, 1, 1, 0, ALL_PG, 3 }, s1 = { 0x7F, 0, 1, 0, 1, ALL_PG, 3 };
        struct phase_arg p2 = { 0x7F, 2, 2, 1, 0, ALL_PG, 3 }, s2 = { 0x7F, 2, 2, 0, 1, ALL_PG, 3 };
        struct phase_arg txt0 = { 0x7F, 0, 7, 1, 1, ALL_PG, 3 };
        mc_pool("pass, at most 1 page", npop(0x7F), pop_case, &p1, 60);
        mc_pool("text variants, alone", (uint64_t) NSLOT * (NTEXT_ZAP - 1), text_case0, &txt0, 60);
        mc_pool("switch, at most 1 page", npop(0x7F), pop_case, &s1, 60);
        mc_pool("pass, 2 pages", npop(0x7F), pop_case, &p2, 60);
        mc_pool("switch, 2 pages", npop(0x7F), pop_case, &s2, 60);
        struct phase_arg pass = { T ? 0x7F : m6, 3, 7, 1, T, ALL_PG, 3 };
        mc_pool(T ? "pass+switch, 3..7 pages" : "pass, 3..6 pages", npop(pass.mask), pop_case, &pass, 120);
        if (!T) {
                struct phase_arg sw = { m4, 3, 7, 0, 1, ALL_PG, 3 };
                mc_pool("switch, 3..4 pages", npop(sw.mask), pop_case, &sw, 120);
        }
        /* the same population products on the second universe (hexadecimal subpage numbers) */
        {
                slot = slot_u1; memset(text_rows, 0, sizeof text_rows);
                static struct phase_arg h1, h2, h3;
                h1 = (struct phase_arg){ 0x7F, 0, 1, 1, 1, ALL_PG, 3 }; h2 = (struct phase_arg){ 0x7F, 2, 2, 1, 1, ALL_PG, 3 };
                h3 = (struct phase_arg){ T ? 0x7F : (S(1) | S(2) | S(3) | S(4) | S(6)), 3, 7, 1, T, ALL_PG, 3 };
                mc_pool("hex subpages: pass+switch, at most 1 page", npop(0x7F), pop_case, &h1, 60);
                mc_pool("hex subpages: pass+switch, 2 pages", npop(0x7F), pop_case, &h2, 60);
                mc_pool(T ? "hex subpages: pass+switch, 3..7 pages" : "hex subpages: pass, 3..5 pages", npop(h3.mask), pop_case, &h3, 120);
                slot = slot_u0; memset(text_rows, 0, sizeof text_rows);
        }
        struct phase_arg txt = { 0x7F, 0, 7, 1, T, ALL_PG, T ? 3 : 1 };
        mc_pool("text variants, among other pages", (uint64_t) 2 * NSLOT * (NTEXT_ZAP - 1), text_case, &txt, 120);
        struct phase_arg pt = { 0x7F, 0, 7, 1, 0, T ? ALL_PG : S(0) | S(4), T ? 3 : 1 };
        mc_pool("patterns", (uint64_t) npats_zap * NPT, pattern_case, &pt, 120);
        struct phase_arg pc = { 0x7F, 0, 7, 1, 0, T ? S(0) | S(2) | S(4) | S(7) : S(0) | S(4), T ? 3 : 1 };
        mc_pool("property classes", (uint64_t) (npats - npats_zap) * NROT(T), class_case, &pc, 120);
        /* seed C17 round 6 */
        struct phase_arg pe = { 0x7F, 0, 7, 1, 0, T ? S(0) | S(4) : S(4), 1 };
        mc_pool("enumerated regular expressions", enum_ncases(), enum_case, &pe, 120);
        struct phase_arg up = { T ? (m6 & ~S(0)) : (S(1) | S(3) | S(5) | S(6)), 0, 7, 0, 0, T ? ALL_PG : S(0) | S(2) | S(4) | S(7), T ? 3 : 1 };
        mc_pool("one cache update", npop(up.mask), update_case, &up, 120);
        /* two subpages of one page among the slots: the page statistics (subpage range) are at stake when one of them is replaced while referenced */
        static struct phase_arg cbu; cbu = up; if (!T) cbu.mask = S(1) | S(2) | S(3) | S(6);
        mc_pool("cache update from the progress callback", npop(cbu.mask), cb_update_case, &cbu, 120);

        mc_bfs_spec spec = { 2 + B.nupd, B.ncfg + bfs_ops, 0, 60, bfs_run, NULL, bfs_letter };   /* letters: 2 calls + the updates; in the configuration positions 0..3 select a value */
        mc_bfs_result res;
        mc_bfs("histories", &spec, &res);
        return mc_finish();
}
