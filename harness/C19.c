/* C19 - the proxy daemon withstands faulty clients; channel control is held by one client.
 *
 * The system under exploration is daemon/proxyd.c itself (unmodified, #included through
 * proxyd_env.h) with its real src/proxy-msg.c, a scripted capture object and real AF_UNIX
 * socketpairs; every select() call of the daemon's own main loop is the scheduling point and
 * the environment (clients, capture clock, time, SIGALRM) is single threaded and deterministic.
 *
 * Part (b) TOKEN  - explicit-state search (mc_bfs) over the token protocol on the real scheduler
 *   functions.  A state is the history of letters replayed on a fresh daemon; the canonical form
 *   is the list of PROXY_CLNT records in daemon list order (connection state, token state,
 *   priority, profile, scheduler counters, age = min(now - last_start, 3) and the dense rank of
 *   last_start, pending output message, stalled flag, unread input), the device priority and the
 *   alarm timer.  Letters address clients by LIST POSITION, which makes the search symmetric in
 *   client identity.  Letters: TOKEN_REQ (background x {sub_prio 0x10,0x20} x {min_duration 0,2},
 *   interactive), NOTIFY(TOKEN), NOTIFY(RELEASE), NOTIFY(FLUSH), RECLAIM_CNF - all of them also
 *   from clients that hold nothing -, disconnect, stall/unstall (the client's receive buffer is
 *   full: the daemon cannot emit RECLAIM_REQ / TOKEN_IND / confirmations to it), a new connection,
 *   +1 s (SIGALRM delivered when due).  After each letter the daemon runs until nothing is ready.
 *   Oracle at EVERY select() call: at most one client record has token_state != NONE (the daemon's
 *   own assert(p_owner == NULL) states the same and would abort); and on the OBSERVABLE trace: when
 *   a client receives TOKEN_IND / TOKEN_CNF(token) no other client holds an unreturned grant
 *   (received a grant and has not since sent NOTIFY(TOKEN|RELEASE), RECLAIM_CNF or disconnected)
 *   and the receiver has an open request (TOKEN_REQ sent, not revoked by NOTIFY(RELEASE)).
 *
 * Part (a) FAULTS - fault enumeration on the byte stream of one faulty client F while a well behaved
 *   witness W is connected and frames keep arriving: every message type in every connection state,
 *   every header length/type corruption, every byte of every message set to each of a value set,
 *   truncation at every byte followed by silence (with and without the 60 s timeouts elapsing) or
 *   disconnect, two messages in one segment.  Oracle: no crash/abort/sanitizer report (fork pool),
 *   the witness is never dropped and receives every frame exactly as captured, after F is gone the
 *   daemon state equals the state of a run in which F never connected, teardown is leak free, and -
 *   for range-limited integer fields - the memory image of the client records after an out-of-range
 *   value equals the image after SOME in-range value or after a rejection (catches intra-object
 *   corruption the address sanitizer cannot see).
 */
#include <stdio.h>
#include <stdlib.h>
#include <string.h>
#include <stddef.h>
#include <errno.h>
#include <sys/ioctl.h>
#include <dirent.h>
#include "mc.h"
#include "proxyd_env.h"

#ifdef ENABLE_V4L2
#include "src/videodev2k.h"
#endif

/* ===================================================================== driver */

static void (*pend_fn)(int); static int pend_arg; static int pend_set;
static long drive_selects;
static const char *cur_letter = "setup";
static int  cur_sender_state = -1;
static int  in_token_part;
static int  tk_report;                       /* 1 while the LAST letter of a history runs: violations are attributed to it */
static int  tk_bad;                          /* the invariant broke in this history: do not expand the state */

/* Token ledger in the DAEMON'S OWN PROCESSING ORDER.  What a client sends is known (sent queue with byte
 * offsets); what the daemon has consumed is known at every select() (bytes sent - bytes unread); a grant is issued
 * when a record enters GRANTED (that is where TOKEN_IND / TOKEN_CNF(token) is queued).  Events inside one select()
 * interval are ordered the way handle_client_sockets() walks the list: per record, consumed messages first, then a
 * grant.  Rule checked at every issue: no OTHER client has an issued grant that it has not given back by a message
 * the daemon has processed (NOTIFY with TOKEN or RELEASE, RECLAIM_CNF, a new TOKEN_REQ - which supersedes the old
 * request and returns the token by protocol design, see vbi_proxy_client_channel_request() - or its disconnect),
 * and the receiver has a processed TOKEN_REQ not revoked by a processed NOTIFY(RELEASE). */
enum { SK_OTHER, SK_REQ, SK_RETURN, SK_RELEASE };
struct sent { long end; int kind; };
static struct sent sentq[ENV_MAX_CLIENTS][16]; static int nsent[ENV_MAX_CLIENTS];
static int  led_issued[ENV_MAX_CLIENTS];     /* grant issued, not given back (daemon order) */
static int  led_asked[ENV_MAX_CLIENTS];
static long obs_grants;
static const char *last_sent_class[ENV_MAX_CLIENTS];

static const char *ts_name(int s)
{
        static const char *n[] = { "NONE", "RECLAIM", "RELEASE", "GRANT", "GRANTED", "RETURNED" };
        return (s >= 0 && s < 6) ? n[s] : (s == -1 ? "-" : "?");
}
static void note_sent(int c, int kind)
{
        if (nsent[c] < 16) { sentq[c][nsent[c]].end = env_clnt[c].tx_bytes; sentq[c][nsent[c]].kind = kind; nsent[c]++; }
}
static void ledger_forget(int c) { led_issued[c] = 0; led_asked[c] = 0; nsent[c] = 0; }

static int client_of_req(PROXY_CLNT *r);
static int unread_at_daemon(int c);
static int prev_ts[ENV_MAX_CLIENTS];         /* token state of each client's record at the previous select() */
static int first_bad_reported;

static void audit_token(const char *where)
{
        int owners = 0; char desc[256]; size_t o = 0; desc[0] = 0;
        int cur[ENV_MAX_CLIENTS]; for (int c = 0; c < ENV_MAX_CLIENTS; c++) cur[c] = -1;
        for (PROXY_CLNT *r = proxy.p_clnts; r; r = r->p_next) {
                int c = client_of_req(r);
                if (r->chn_state.token_state != REQ_TOKEN_NONE) owners++;
                if (o + 20 < sizeof desc) o += snprintf(desc + o, sizeof desc - o, "%s%s", o ? "," : "", ts_name(r->chn_state.token_state));
                if (c >= 0) cur[c] = r->chn_state.token_state;
        }
        if (owners > 1) {
                tk_bad = 1;
                if (tk_report && !first_bad_reported) {
                        char key[300]; first_bad_reported = 1;
                        snprintf(key, sizeof key, "token: two owner records in the daemon after %s from a client whose token state was %s", cur_letter, ts_name(cur_sender_state));
                        mc_violation(key, "%s: token states in list order [%s]", where, desc);
                }
        }
        /* ledger, in list order */
        for (int c = 0; c < ENV_MAX_CLIENTS; c++) if (cur[c] < 0 && prev_ts[c] >= 0) ledger_forget(c);       /* record gone: disconnected */
        for (PROXY_CLNT *r = proxy.p_clnts; r; r = r->p_next) {
                int c = client_of_req(r); if (c < 0) continue;
                long consumed = env_clnt[c].tx_bytes - unread_at_daemon(c);
                if (r->io.readOff > 0 && (r->io.readLen == 0 || r->io.readOff < r->io.readLen)) consumed -= r->io.readOff;
                int reissue = 0, k = 0;
                while (k < nsent[c] && sentq[c][k].end <= consumed) {
                        switch (sentq[c][k].kind) {
                        case SK_REQ: led_asked[c] = 1; led_issued[c] = 0; reissue = 1; break;
                        case SK_RETURN: led_issued[c] = 0; break;
                        case SK_RELEASE: led_issued[c] = 0; led_asked[c] = 0; break;
                        }
                        k++;
                }
                if (k) { memmove(sentq[c], sentq[c] + k, (nsent[c] - k) * sizeof(struct sent)); nsent[c] -= k; }
                if (cur[c] == REQ_TOKEN_GRANTED && (prev_ts[c] != REQ_TOKEN_GRANTED || reissue)) {
                        obs_grants++;
                        for (int x = 0; x < ENV_MAX_CLIENTS; x++)
                                if (x != c && led_issued[x]) {
                                        tk_bad = 1;
                                        if (tk_report && !first_bad_reported) {
                                                char key[300]; first_bad_reported = 1;
                                                snprintf(key, sizeof key, "token: granted to a second client while the first (record %s -> %s) has not given it back, after %s from a client whose token state was %s", ts_name(prev_ts[x]), ts_name(cur[x]), cur_letter, ts_name(cur_sender_state));
                                                mc_violation(key, "%s: client %d is granted the token while client %d was granted it and the daemon has processed no return/release/reclaim-confirm/new request/disconnect from it since; token states [%s]", where, c, x, desc);
                                        }
                                }
                        if (!led_asked[c]) {
                                tk_bad = 1;
                                if (tk_report && !first_bad_reported) {
                                        char key[300]; first_bad_reported = 1;
                                        snprintf(key, sizeof key, "token: granted to a client without an open request, after %s from a client whose token state was %s", cur_letter, ts_name(cur_sender_state));
                                        mc_violation(key, "%s: client %d is granted the token but has no processed TOKEN_REQ outstanding; token states [%s]", where, c, desc);
                                }
                        }
                        led_issued[c] = 1;
                }
        }
        for (int c = 0; c < ENV_MAX_CLIENTS; c++) prev_ts[c] = cur[c];
}

static int drain_clients(void)
{
        int got = 0;
        for (int c = 0; c < ENV_MAX_CLIENTS; c++) {
                if (env_clnt[c].fd < 0 || env_clnt[c].stalled) continue;
                got += env_read(c, -1);
                if (env_clnt[c].eof) { env_close(c); got++; }
        }
        return got;
}

static int quiesce_hook(int nready)
{
        if (in_token_part) audit_token("select");
        if (++drive_selects > 20000) {
                mc_violation("daemon livelock: main loop does not go idle", "after %s: more than 20000 select rounds", cur_letter);
                return ENV_EXIT;
        }
        if (pend_set) { pend_set = 0; pend_fn(pend_arg); return ENV_REPOLL; }
        if (nready > 0) return ENV_RUN;
        if (drain_clients()) return ENV_REPOLL;
        return ENV_EXIT;
}

/* perform one environment action, then let the daemon run until nothing is ready and all
 * (non stalled) clients have read everything */
static void drive(void (*fn)(int), int arg)
{
        pend_fn = fn; pend_arg = arg; pend_set = fn != NULL; drive_selects = 0;
        env_hook_fn = quiesce_hook;
        env_run();
}

static void reset_observer(void)
{
        memset(nsent, 0, sizeof nsent); memset(led_issued, 0, sizeof led_issued); memset(led_asked, 0, sizeof led_asked);
        for (int c = 0; c < ENV_MAX_CLIENTS; c++) { prev_ts[c] = -1; last_sent_class[c] = "-"; }
        obs_grants = 0; first_bad_reported = 0;
}

/* ---- message builders ------------------------------------------------------ */

static void act_connect(int c) { env_connect(c); }
static unsigned conn_services = VBI_SLICED_TELETEXT_B; static int conn_strict = 0;
static void act_connect_req(int c)
{
        VBIPROXY_CONNECT_REQ q; char nm[8]; snprintf(nm, sizeof nm, "c%d", c);
        env_fill_connect_req(&q, nm, conn_services, conn_strict, 5);
        env_send_msg(c, MSG_TYPE_CONNECT_REQ, &q, sizeof q);
}
static void full_connect(int c, unsigned services, int strict)
{
        conn_services = services; conn_strict = strict;
        drive(act_connect, c);
        drive(act_connect_req, c);
}

static int tk_prio, tk_sub, tk_dur, tk_valid;
static void act_token_req(int c)
{
        VBIPROXY_CHN_TOKEN_REQ q; memset(&q, 0, sizeof q);
        q.chn_prio = tk_prio; q.chn_profile.is_valid = tk_valid; q.chn_profile.sub_prio = tk_sub;
        q.chn_profile.min_duration = tk_dur; q.chn_profile.exp_duration = tk_dur;
        env_send_msg(c, MSG_TYPE_CHN_TOKEN_REQ, &q, sizeof q);
        note_sent(c, SK_REQ); last_sent_class[c] = tk_prio == VBI_CHN_PRIO_BACKGROUND ? "TOKEN_REQ(bg)" : "TOKEN_REQ(interactive)";
}
static int nf_flags;
static void act_notify(int c)
{
        VBIPROXY_CHN_NOTIFY_REQ q; memset(&q, 0, sizeof q);
        q.notify_flags = nf_flags; q.scanning = 0;
        env_send_msg(c, MSG_TYPE_CHN_NOTIFY_REQ, &q, sizeof q);
        note_sent(c, (nf_flags & VBI_PROXY_CHN_RELEASE) ? SK_RELEASE : (nf_flags & VBI_PROXY_CHN_TOKEN) ? SK_RETURN : SK_OTHER);
        last_sent_class[c] = (nf_flags & VBI_PROXY_CHN_RELEASE) ? "NOTIFY(RELEASE)" : (nf_flags & VBI_PROXY_CHN_TOKEN) ? "NOTIFY(TOKEN)" : "NOTIFY(FLUSH)";
}
static void act_reclaim_cnf(int c)
{
        env_send_msg(c, MSG_TYPE_CHN_RECLAIM_CNF, NULL, 0);
        note_sent(c, SK_RETURN); last_sent_class[c] = "RECLAIM_CNF";
}
static void act_disconnect(int c) { env_close(c); }
static void act_tick(int s) { env_tick(s); if (env_alarm_due()) env_fire_alarm(); }
static void act_frame(int n) { for (int i = 0; i < n; i++) env_frame(); }
static void act_nothing(int x) { (void) x; }

/* ================================================================ canonical state */

static int unread_at_daemon(int c)
{
        int n = 0;
        if (env_clnt[c].daemon_fd < 0 || env_clnt[c].fd < 0) return 0;
        if (ioctl(env_clnt[c].daemon_fd, FIONREAD, &n)) return 0;
        return n;
}
static int client_of_req(PROXY_CLNT *r)
{
        for (int c = 0; c < ENV_MAX_CLIENTS; c++)
                if (env_clnt[c].daemon_fd >= 0 && env_clnt[c].daemon_fd == r->io.sock_fd) return c;
        return -1;
}

static void canon_daemon(mc_hash *h)
{
        PROXY_DEV *d = &proxy.dev[0];
        /* dense ranks of last_start */
        time_t vals[16]; int nv = 0;
        for (PROXY_CLNT *r = proxy.p_clnts; r && nv < 16; r = r->p_next) {
                int dup = 0; for (int i = 0; i < nv; i++) if (vals[i] == r->chn_state.last_start) dup = 1;
                if (!dup) vals[nv++] = r->chn_state.last_start;
        }
        for (int i = 0; i < nv; i++) for (int j = i + 1; j < nv; j++) if (vals[j] < vals[i]) { time_t t = vals[i]; vals[i] = vals[j]; vals[j] = t; }
        mc_hash_u64(h, 0xC19);
        for (PROXY_CLNT *r = proxy.p_clnts; r; r = r->p_next) {
                int c = client_of_req(r);
                long age = (long)(env_now - r->chn_state.last_start); if (age > 3) age = 3; if (age < 0) age = 0;
                int rank = 0; for (int i = 0; i < nv; i++) if (vals[i] == r->chn_state.last_start) rank = i;
                int qpos = -1, k = 0;
                for (PROXY_QUEUE *q = d->p_sliced; q; q = q->p_next, k++) if (q == r->p_sliced) qpos = k;
                uint64_t v[] = { 0x11, (uint64_t) r->state, (uint64_t) r->endianSwap, (uint64_t) r->client_flags,
                        r->services[0], r->services[1], r->services[2], r->services[3], r->all_services,
                        (uint64_t) r->buffer_count, (uint64_t) r->buffer_overflow, (uint64_t) qpos,
                        r->chn_profile.is_valid, r->chn_profile.sub_prio, r->chn_profile.allow_suspend,
                        (uint64_t) r->chn_profile.min_duration,
                        (uint64_t) r->chn_state.token_state, (uint64_t) r->chn_state.is_completed, (uint64_t) r->chn_state.cycle_count,
                        (uint64_t) age, (uint64_t) rank, (uint64_t) r->chn_prio, (uint64_t) r->chn_status_ind,
                        (uint64_t) r->io.writeLen, (uint64_t) r->io.writeOff, (uint64_t) r->io.readLen, (uint64_t) r->io.readOff,
                        (uint64_t)(r->io.writeLen ? ntohl(((VBIPROXY_MSG *) r->io.pWriteBuf)->head.type) : 99),
                        (uint64_t)(c >= 0 ? env_clnt[c].stalled : 0), (uint64_t)(c >= 0 ? unread_at_daemon(c) : 0),
                        (uint64_t)(c >= 0 ? led_issued[c] : 0), (uint64_t)(c >= 0 ? led_asked[c] : 0) };
                mc_hash_add(h, v, sizeof v);
                if (c >= 0 && unread_at_daemon(c) > 0) {
                        uint8_t buf[512]; ssize_t n = recv(env_clnt[c].daemon_fd, buf, sizeof buf, MSG_PEEK | MSG_DONTWAIT);
                        if (n > 0) mc_hash_add(h, buf, n);
                }
        }
        int nfree = 0, nsl = 0; for (PROXY_QUEUE *q = d->p_free; q; q = q->p_next) nfree++;
        for (PROXY_QUEUE *q = d->p_sliced; q; q = q->p_next) { nsl++; mc_hash_u64(h, q->ref_count); }
        long rem = env_alarm_at ? (long)(env_alarm_at - env_now) : -9; if (rem > 3) rem = 3; if (rem < 0 && rem != -9) rem = -1;
        uint64_t g[] = { 0x22, (uint64_t) proxy.clnt_count, (uint64_t) proxy.chn_sched_alarm, (uint64_t)(d->p_capture != NULL),
                d->all_services, d->scanning, (uint64_t) d->chn_prio, (uint64_t) d->vbi_api, (uint64_t) nsl, (uint64_t) rem,
                (uint64_t) env_cap.is_open, (uint64_t) env_eintr_pending };
        mc_hash_add(h, g, sizeof g);
}

/* ===================================================================== part (b) */

#define LPP 10               /* letters per list position */
struct tk_cfg { int init_clients, max_clients; unsigned ops; int connect, tick; const char *name; int qdepth, tdepth;
                int nletters; int map[64]; };
#define OPS_ALL 0x3FF
static void tk_cfg_init(struct tk_cfg *cf)
{
        int n = 0;
        for (int pos = 0; pos < cf->max_clients; pos++)
                for (int op = 0; op < LPP; op++) if (cf->ops & (1u << op)) cf->map[n++] = pos * LPP + op;
        if (cf->connect) cf->map[n++] = cf->max_clients * LPP;
        if (cf->tick) cf->map[n++] = cf->max_clients * LPP + 1;
        cf->nletters = n;
}

static const char *tk_letter_name(int l, void *arg)
{
        static char b[64];
        static const char *nm[LPP] = { "TOKEN_REQ(bg,sub=10,dur=0)", "TOKEN_REQ(bg,sub=10,dur=2)", "TOKEN_REQ(bg,sub=20,dur=0)",
                "TOKEN_REQ(interactive)", "NOTIFY(TOKEN)", "NOTIFY(RELEASE)", "NOTIFY(FLUSH)", "RECLAIM_CNF", "disconnect", "stall/unstall" };
        struct tk_cfg *cf = arg;
        int npos = cf->max_clients;
        l = cf->map[l];
        if (l < npos * LPP) { snprintf(b, sizeof b, "#%d:%s", l / LPP, nm[l % LPP]); return b; }
        if (l == npos * LPP) return "connect";
        return "tick+1s";
}
static const char *tk_letter_class(int l, struct tk_cfg *cf)
{
        static const char *nm[LPP] = { "TOKEN_REQ(bg)", "TOKEN_REQ(bg)", "TOKEN_REQ(bg)", "TOKEN_REQ(interactive)", "NOTIFY(TOKEN)",
                "NOTIFY(RELEASE)", "NOTIFY(FLUSH)", "RECLAIM_CNF", "disconnect", "stall/unstall" };
        l = cf->map[l];
        if (l < cf->max_clients * LPP) return nm[l % LPP];
        if (l == cf->max_clients * LPP) return "connect";
        return "tick";
}

static void act_toggle_stall(int c) { env_clnt[c].stalled = !env_clnt[c].stalled; }

/* returns 0 if the letter is not enabled in the current state */
static int tk_apply(int l, struct tk_cfg *cf)
{
        int npos = cf->max_clients;
        cur_letter = tk_letter_class(l, cf); cur_sender_state = -1;
        l = cf->map[l];
        if (l == npos * LPP) {                                  /* a new client connects and subscribes */
                if (proxy.clnt_count >= npos) return 0;
                int c; for (c = 0; c < ENV_MAX_CLIENTS; c++) if (env_clnt[c].fd < 0 && !env_clnt[c].connect_pending) break;
                if (c == ENV_MAX_CLIENTS) return 0;
                env_clnt[c].nlog = 0; ledger_forget(c);
                full_connect(c, VBI_SLICED_TELETEXT_B, 0);
                return 1;
        }
        if (l == npos * LPP + 1) { drive(act_tick, 1); return 1; }
        int pos = l / LPP, op = l % LPP, k = 0; PROXY_CLNT *r;
        for (r = proxy.p_clnts; r && k < pos; r = r->p_next) k++;
        if (!r) return 0;
        int c = client_of_req(r);
        if (c < 0 || env_clnt[c].fd < 0) return 0;
        cur_sender_state = r->chn_state.token_state;
        if (op == 9 && env_clnt[c].stalled && unread_at_daemon(c) > 0) cur_letter = last_sent_class[c];  /* unstall: the queued message is processed now */
        if (op <= 7 && unread_at_daemon(c) > 0) return 0;      /* keep the input queue bounded: one message in flight */
        mc_case(NULL, "letter %s by list position %d (token state %s)", cur_letter, pos, ts_name(cur_sender_state));
        switch (op) {
        case 0: tk_prio = VBI_CHN_PRIO_BACKGROUND; tk_valid = 1; tk_sub = 0x10; tk_dur = 0; drive(act_token_req, c); break;
        case 1: tk_prio = VBI_CHN_PRIO_BACKGROUND; tk_valid = 1; tk_sub = 0x10; tk_dur = 2; drive(act_token_req, c); break;
        case 2: tk_prio = VBI_CHN_PRIO_BACKGROUND; tk_valid = 1; tk_sub = 0x20; tk_dur = 0; drive(act_token_req, c); break;
        case 3: tk_prio = VBI_CHN_PRIO_INTERACTIVE; tk_valid = 1; tk_sub = 0x10; tk_dur = 0; drive(act_token_req, c); break;
        case 4: nf_flags = VBI_PROXY_CHN_TOKEN; drive(act_notify, c); break;
        case 5: nf_flags = VBI_PROXY_CHN_RELEASE; drive(act_notify, c); break;
        case 6: nf_flags = VBI_PROXY_CHN_FLUSH; drive(act_notify, c); break;
        case 7: drive(act_reclaim_cnf, c); break;
        case 8: drive(act_disconnect, c); break;
        case 9: drive(act_toggle_stall, c); break;
        }
        return 1;
}

static uint64_t tk_max_owner_seen;

static int tk_run(const uint8_t *hist, int n, uint64_t hash[2], void *arg)
{
        struct tk_cfg *cf = arg;
        char key[96];
        in_token_part = 1;
        snprintf(key, sizeof key, "token: daemon dies");
        mc_case(key, "setup");
        env_cap.use_thread = 0; env_cap.fail_open = 0;
        env_init(); reset_observer();
        cur_letter = "setup"; cur_sender_state = -1;
        for (int i = 0; i < cf->init_clients; i++) full_connect(i, VBI_SLICED_TELETEXT_B, 0);
        mc_hash prev, now; int applied = 1;
        tk_bad = 0; tk_report = (n == 0); first_bad_reported = 0;
        for (int i = 0; i < n; i++) {
                if (i == n - 1) { mc_hash_init(&prev); canon_daemon(&prev); tk_report = 1; }
                char k2[160];
                snprintf(k2, sizeof k2, "token: daemon dies on %s", tk_letter_class(hist[i], cf));
                mc_case(k2, "history step %d", i);
                applied = tk_apply(hist[i], cf);
                if (!applied && i < n - 1) break;       /* cannot happen: prefixes are enabled */
        }
        audit_token("quiescent");
        mc_count("evaluations", 1);
        mc_hash_init(&now); canon_daemon(&now);
        if (n > 0 && !applied) now = prev;
        hash[0] = now.a; hash[1] = now.b;
        {       /* outcome classes: which token states coexist */
                int cnt[6] = {0};
                for (PROXY_CLNT *r = proxy.p_clnts; r; r = r->p_next) cnt[r->chn_state.token_state]++;
                mc_outcome("token states present: NONE=%d RECLAIM=%d RELEASE=%d GRANT=%d GRANTED=%d RETURNED=%d",
                           cnt[0] > 0, cnt[1], cnt[2], cnt[3], cnt[4], cnt[5]);
        }
        mc_case("token: teardown", "env_shutdown");
        env_shutdown();
        in_token_part = 0; tk_report = 0;
        return tk_bad ? 1 : 0;
}

/* ===================================================================== part (a) */

#define W 0      /* witness */
#define F 1      /* faulty client */
#define S 2      /* state ST_OTHERSTALL: a third, well behaved client that has stopped reading (frames queue up for it) */

enum { ST_WAITCON, ST_FORWARD, ST_TOKEN, ST_PENDING, ST_NOSERVICE, ST_NODEVICE, ST_OTHERSTALL, ST_SOLE, N_ST };
#define W_NOSERV(st) ((st) == ST_NODEVICE || (st) == ST_SOLE)      /* the witness has no services */
static const char *st_name[N_ST] = { "WAIT_CON_REQ", "FORWARD", "FORWARD+token", "FORWARD+pending-write", "FORWARD+no-services", "FORWARD+no-services, capture device closed", "FORWARD, frames queued for a third client that does not read", "FORWARD, the only client with services (the device is open for it alone)" };

enum { AFT_NONE, AFT_SILENCE, AFT_SILENCE_TIMEOUT, AFT_DISCONNECT, N_AFT };
static const char *aft_name[N_AFT] = { "continue", "silence", "silence+70s", "disconnect" };

struct tmpl { const char *name; uint32_t type; int blen; uint8_t body[sizeof(VBIPROXY_MSG)]; };
static struct tmpl T[40]; static int nT;

static void add_tmpl(const char *name, uint32_t type, const void *body, int blen)
{
        struct tmpl *t = &T[nT++]; t->name = name; t->type = type; t->blen = blen;
        memset(t->body, 0, sizeof t->body); if (blen) memcpy(t->body, body, blen);
}
static void build_templates(void)
{
        VBIPROXY_CONNECT_REQ cq; env_fill_connect_req(&cq, "faulty", VBI_SLICED_VPS | VBI_SLICED_TELETEXT_B, 1, 3);
        add_tmpl("CONNECT_REQ", MSG_TYPE_CONNECT_REQ, &cq, sizeof cq);
        VBIPROXY_SERVICE_REQ sq; memset(&sq, 0, sizeof sq); sq.reset = 0; sq.commit = 1; sq.strict = 1; sq.services = VBI_SLICED_WSS_625;
        add_tmpl("SERVICE_REQ", MSG_TYPE_SERVICE_REQ, &sq, sizeof sq);
        VBIPROXY_CHN_TOKEN_REQ tq; memset(&tq, 0, sizeof tq); tq.chn_prio = VBI_CHN_PRIO_BACKGROUND; tq.chn_profile.is_valid = 1;
        tq.chn_profile.sub_prio = 0x20; tq.chn_profile.min_duration = 1; tq.chn_profile.exp_duration = 1;
        add_tmpl("CHN_TOKEN_REQ", MSG_TYPE_CHN_TOKEN_REQ, &tq, sizeof tq);
        VBIPROXY_CHN_NOTIFY_REQ nq; memset(&nq, 0, sizeof nq); nq.notify_flags = VBI_PROXY_CHN_TOKEN; nq.scanning = 625;
        add_tmpl("CHN_NOTIFY_REQ(TOKEN)", MSG_TYPE_CHN_NOTIFY_REQ, &nq, sizeof nq);
        nq.notify_flags = VBI_PROXY_CHN_FLUSH | VBI_PROXY_CHN_NORM | VBI_PROXY_CHN_FAIL; nq.scanning = 525;
        add_tmpl("CHN_NOTIFY_REQ(FLUSH|NORM|FAIL)", MSG_TYPE_CHN_NOTIFY_REQ, &nq, sizeof nq);
        nq.notify_flags = VBI_PROXY_CHN_FLUSH; nq.scanning = 0;      /* the plain channel change announcement: queue flush only */
        add_tmpl("CHN_NOTIFY_REQ(FLUSH)", MSG_TYPE_CHN_NOTIFY_REQ, &nq, sizeof nq);
        nq.notify_flags = VBI_PROXY_CHN_RELEASE; nq.scanning = 0;
        add_tmpl("CHN_NOTIFY_REQ(RELEASE)", MSG_TYPE_CHN_NOTIFY_REQ, &nq, sizeof nq);
        add_tmpl("CHN_SUSPEND_REQ", MSG_TYPE_CHN_SUSPEND_REQ, &nq, sizeof nq);   /* the daemon checks it against the notify size */
        {
                uint8_t b[64]; memset(b, 0, sizeof b);
                VBIPROXY_CHN_IOCTL_REQ *iq = (void *) b;
#ifdef VIDIOC_G_INPUT
                iq->request = VIDIOC_G_INPUT; iq->arg_size = sizeof(int);
                add_tmpl("CHN_IOCTL_REQ(G_INPUT)", MSG_TYPE_CHN_IOCTL_REQ, b, VBIPROXY_CHN_IOCTL_REQ_SIZE(sizeof(int)));
                iq->request = VIDIOC_S_INPUT; iq->arg_size = sizeof(int);
                add_tmpl("CHN_IOCTL_REQ(S_INPUT)", MSG_TYPE_CHN_IOCTL_REQ, b, VBIPROXY_CHN_IOCTL_REQ_SIZE(sizeof(int)));
#endif
                iq->request = 0x12345678; iq->arg_size = 0;
                add_tmpl("CHN_IOCTL_REQ(unknown,0)", MSG_TYPE_CHN_IOCTL_REQ, b, VBIPROXY_CHN_IOCTL_REQ_SIZE(0));
        }
        add_tmpl("CHN_RECLAIM_CNF", MSG_TYPE_CHN_RECLAIM_CNF, NULL, 0);
        add_tmpl("CLOSE_REQ", MSG_TYPE_CLOSE_REQ, NULL, 0);
        VBIPROXY_DAEMON_PID_REQ pq; memset(&pq, 0, sizeof pq); vbi_proxy_msg_fill_magics(&pq.magics);
        add_tmpl("DAEMON_PID_REQ", MSG_TYPE_DAEMON_PID_REQ, &pq, sizeof pq);
        VBIPROXY_DAEMON_PID_CNF pc; memset(&pc, 0, sizeof pc); vbi_proxy_msg_fill_magics(&pc.magics); pc.pid = 1;
        add_tmpl("DAEMON_PID_CNF", MSG_TYPE_DAEMON_PID_CNF, &pc, sizeof pc);
        /* daemon -> client messages sent the wrong way, and unknown types */
        { uint8_t b[64]; memset(b, 0, sizeof b);
          add_tmpl("SLICED_IND(to daemon)", MSG_TYPE_SLICED_IND, b, VBIPROXY_SLICED_IND_SIZE(0, 0));
          add_tmpl("CHN_TOKEN_IND(to daemon)", MSG_TYPE_CHN_TOKEN_IND, NULL, 0);
          add_tmpl("CHN_RECLAIM_REQ(to daemon)", MSG_TYPE_CHN_RECLAIM_REQ, NULL, 0);
          add_tmpl("type 24 (MSG_TYPE_COUNT)", MSG_TYPE_COUNT, b, 4);
          add_tmpl("type 0xFFFFFFFF", 0xFFFFFFFFu, b, 4); }
        /* how a client suspends capturing: with the only service client this stops the acquisition and frees the frame queue */
        memset(&sq, 0, sizeof sq); sq.reset = 1; sq.commit = 1; sq.strict = 0; sq.services = 0;
        add_tmpl("SERVICE_REQ(reset, no services)", MSG_TYPE_SERVICE_REQ, &sq, sizeof sq);
}

/* a fault case */
enum { MU_NONE, MU_LEN, MU_TYPE, MU_BYTE, MU_TRUNC, MU_PAIR, MU_STRICT, MU_LENTAIL, MU_SPLIT };
struct fcase { uint8_t state, tmpl, kind, aft; int32_t pos; uint32_t val; };
static struct fcase *FC; static uint64_t nFC, capFC;
static void add_case(int st, int tm, int kind, int pos, uint32_t val, int aft)
{
        if (nFC == capFC) { capFC = capFC ? capFC * 2 : 65536; FC = realloc(FC, capFC * sizeof *FC); }
        struct fcase c = { (uint8_t) st, (uint8_t) tm, (uint8_t) kind, (uint8_t) aft, pos, val };
        FC[nFC++] = c;
}

static const uint32_t LENV[] = { 0, 7, 8, 0xFFFFFFF0u /* true-1 */, 0xFFFFFFF1u /* true+1 */, sizeof(VBIPROXY_MSG), sizeof(VBIPROXY_MSG) + 1, 0x80000000u, 0xFFFFFFFFu };
static const uint8_t  BYTEV_Q[] = { 0x00, 0x01, 0x7F, 0x80, 0xFF };

static void build_cases(void)
{
        int thorough = mc_tier == MC_THOROUGH;
        for (int st = 0; st < N_ST; st++) {
                for (int tm = 0; tm < nT; tm++) {
                        for (int aft = 0; aft < N_AFT; aft++) if (aft == AFT_NONE || aft == AFT_DISCONNECT) add_case(st, tm, MU_NONE, 0, 0, aft);
                        for (unsigned i = 0; i < sizeof LENV / sizeof *LENV; i++)
                                for (int aft = AFT_NONE; aft < N_AFT; aft++) add_case(st, tm, MU_LEN, 0, LENV[i], aft);
                        /* a bad length field followed by a long tail in the same segment */
                        if (tm < 3) for (unsigned i = 0; i < sizeof LENV / sizeof *LENV; i++) add_case(st, tm, MU_LENTAIL, 3000, LENV[i], AFT_NONE);
                        if (T[tm].type == MSG_TYPE_CONNECT_REQ || T[tm].type == MSG_TYPE_SERVICE_REQ || T[tm].type == MSG_TYPE_CLOSE_REQ)
                                for (uint32_t ty = 0; ty < MSG_TYPE_COUNT + 2; ty++) add_case(st, tm, MU_TYPE, 0, ty, AFT_NONE);
                        /* every byte of the body */
                        int lim = T[tm].blen;
                        if (T[tm].type == MSG_TYPE_CONNECT_REQ && !thorough && st != ST_WAITCON) lim = 0;    /* CONNECT_REQ bodies matter in WAIT_CON_REQ */
                        for (int p = 0; p < lim; p++) {
                                if (thorough && T[tm].blen <= 64) { for (int v = 0; v < 256; v++) add_case(st, tm, MU_BYTE, p, v, AFT_NONE); }
                                else for (unsigned v = 0; v < sizeof BYTEV_Q; v++) add_case(st, tm, MU_BYTE, p, BYTEV_Q[v], AFT_NONE);
                        }
                        /* truncation at every byte of header + body */
                        int tl = 8 + T[tm].blen; if (!thorough && tl > 80) tl = 80;
                        for (int p = 1; p < 8 + T[tm].blen && p <= tl; p++)
                                for (int aft = AFT_SILENCE; aft < N_AFT; aft++) {
                                        if (!thorough && aft == AFT_SILENCE_TIMEOUT && p > 12 && st != ST_WAITCON) continue;
                                        add_case(st, tm, MU_TRUNC, p, 0, aft);
                                }
                        /* a valid message arriving in two segments with a frame captured in between: the frame is queued for the
                         * sender (its connection is "read in progress") when the rest of the message is processed (seed C19-8) */
                        {
                                int len = 8 + T[tm].blen, sp[5] = { 1, 7, 8, 9, len - 1 };
                                for (int k = 0; k < 5; k++) {
                                        int dup = 0; for (int j = 0; j < k; j++) if (sp[j] == sp[k]) dup = 1;
                                        if (!dup && sp[k] >= 1 && sp[k] < len) add_case(st, tm, MU_SPLIT, sp[k], 0, AFT_NONE);
                                }
                                if (thorough) for (int q = 2; q < len - 1; q++) if (q != 7 && q != 8 && q != 9) add_case(st, tm, MU_SPLIT, q, 0, AFT_NONE);
                        }
                        /* two messages in one segment */
                        for (int t2 = 0; t2 < nT; t2++) if (thorough || t2 < 12) add_case(st, tm, MU_PAIR, t2, 0, AFT_NONE);
                }
                /* range limited fields: strict of SERVICE_REQ (index 1) and of CONNECT_REQ (index 0), all int8 values */
                for (int v = -128; v < 128; v++) { add_case(st, 1, MU_STRICT, 0, (uint32_t) v, AFT_NONE); add_case(st, 0, MU_STRICT, 0, (uint32_t) v, AFT_NONE); }
        }
}

/* ---- image of the client records (for the range oracle) ---------------------- */

static uint64_t image_hash(int include_msgbuf)
{
        mc_hash h; mc_hash_init(&h);
        for (PROXY_CLNT *r = proxy.p_clnts; r; r = r->p_next) {
                PROXY_CLNT cp = *r;
                cp.p_next = NULL; cp.p_sliced = (void *)(uintptr_t)(r->p_sliced != NULL);
                cp.io.pWriteBuf = (void *)(uintptr_t)(r->io.pWriteBuf != NULL); cp.io.sock_fd = 0; cp.io.lastIoTime = 0;
                if (!include_msgbuf) memset(&cp.msg_buf, 0, sizeof cp.msg_buf);
                mc_hash_add(&h, &cp, sizeof cp);
        }
        return h.a ^ (h.b * 3);
}

/* ---- witness ledger ------------------------------------------------------------ */

static void check_witness(const char *key, const struct fcase *fc, int frames_expected, int flush_allowed)
{
        env_client *w = &env_clnt[W];
        if (w->eof || w->fd < 0) { mc_violation(key, "witness connection dropped"); return; }
        int next = 0, bad = 0;
        if (W_NOSERV(fc->state)) {
                /* the witness has no services: it is owed no frame, whatever the other client makes the device capture */
                for (int i = 0; i < w->nlog; i++) {
                        if (w->log[i].type == 0xFFFFFFFF) { mc_violation(key, "witness received garbage framing (len %u)", w->log[i].len); return; }
                        if (w->log[i].type == MSG_TYPE_SLICED_IND) { mc_violation(key, "witness without services received frame %d", w->log[i].frame); return; }
                }
                return;
        }
        for (int i = 0; i < w->nlog; i++) {
                env_rxmsg *m = &w->log[i];
                if (m->type == 0xFFFFFFFF) { mc_violation(key, "witness received garbage framing (len %u)", m->len); return; }
                if (m->type != MSG_TYPE_SLICED_IND) continue;
                if (!m->lines_ok || m->ids != (VBI_SLICED_TELETEXT_B | VBI_SLICED_VPS) || m->nlines != 4) bad = 1;
                if (m->frame < next) { mc_violation(key, "witness: frame %d duplicated or out of order (expected >= %d)", m->frame, next); return; }
                if (m->frame > next && !flush_allowed) { mc_violation(key, "witness: frame %d lost (got %d)", next, m->frame); return; }
                next = m->frame + 1;
        }
        if (bad) mc_violation(key, "witness: a frame arrived with wrong lines/services");
        if (next != frames_expected && !(flush_allowed && next <= frames_expected && next >= frames_expected - 0))
                mc_violation(key, "witness: received frames up to %d, captured %d", next, frames_expected);
}

static int count_open_fds(void)
{
        int n = 0; DIR *d = opendir("/proc/self/fd"); if (!d) return -1;
        while (readdir(d)) n++;
        closedir(d); return n;
}

/* the bytes of the case */
static size_t build_bytes(const struct fcase *fc, uint8_t *out, size_t *sendlen, int *flush_allowed)
{
        const struct tmpl *t = &T[fc->tmpl];
        VBIPROXY_MSG_HEADER h; uint32_t len = 8 + t->blen, type = t->type;
        size_t n = 8 + t->blen; memcpy(out + 8, t->body, t->blen);
        *flush_allowed = 0;
        switch (fc->kind) {
        case MU_LEN: case MU_LENTAIL: len = fc->val == 0xFFFFFFF0u ? len - 1 : fc->val == 0xFFFFFFF1u ? len + 1 : fc->val; break;
        case MU_TYPE: type = fc->val; break;
        case MU_BYTE: out[8 + fc->pos] = (uint8_t) fc->val; break;
        case MU_STRICT:
                if (t->type == MSG_TYPE_SERVICE_REQ) ((VBIPROXY_SERVICE_REQ *)(out + 8))->strict = (int8_t) fc->val;
                else ((VBIPROXY_CONNECT_REQ *)(out + 8))->strict = (int8_t) fc->val;
                break;
        }
        h.len = htonl(len); h.type = htonl(type); memcpy(out, &h, 8);
        *sendlen = n;
        if (fc->kind == MU_TRUNC) *sendlen = fc->pos;
        if (fc->kind == MU_LENTAIL) { memset(out + n, 0xEE, fc->pos); *sendlen = n + fc->pos; *flush_allowed = 1; }
        if (fc->kind == MU_PAIR) {
                const struct tmpl *t2 = &T[fc->pos];
                h.len = htonl(8 + t2->blen); h.type = htonl(t2->type); memcpy(out + n, &h, 8); memcpy(out + n + 8, t2->body, t2->blen);
                *sendlen = n + 8 + t2->blen;
        }
        /* a FLUSH notification legitimately discards frames queued for everybody, NORM re-announces */
        if (type == MSG_TYPE_CHN_NOTIFY_REQ || fc->kind == MU_TYPE || fc->kind == MU_PAIR || fc->kind == MU_BYTE) *flush_allowed = 1;
        return n;
}

static uint8_t fbytes[4 * sizeof(VBIPROXY_MSG) + 4096]; static size_t fsend;
static size_t foff;
static void act_send_fault(int c) { if (env_send_raw(c, fbytes + foff, fsend) != (int) fsend) mc_violation("harness: fault bytes not accepted by the socket", "%zu bytes", fsend); }

struct run_result { uint64_t final_hash, image, image_nomsg; int f_alive, frames; };

/* one scenario; with_fault = 0 gives the reference run (F goes through the same state but sends nothing bad) */
static void scenario(const struct fcase *fc, int mode, struct run_result *rr, const char *key)
{
        /* mode 0: faulty run; 1: F never connects (reference for the final state) */
        int frames = 0, flush_allowed = 0;
        env_cap.use_thread = 0; env_cap.fail_open = 0;
        env_init(); reset_observer();
        cur_letter = "fault scenario"; cur_sender_state = -1;
        /* ST_NODEVICE: nobody has services, the capture device stays closed (no frames); W is connected without services */
        if (W_NOSERV(fc->state)) full_connect(W, 0, 0); else full_connect(W, VBI_SLICED_TELETEXT_B | VBI_SLICED_VPS, 0);
        drive(act_frame, 1); frames++;
        if (fc->state == ST_OTHERSTALL) { full_connect(S, VBI_SLICED_TELETEXT_B, 0); env_clnt[S].stalled = 1; }     /* also in the reference run */
        if (mode == 0) {
                switch (fc->state) {
                case ST_WAITCON: drive(act_connect, F); break;
                case ST_FORWARD: case ST_OTHERSTALL: full_connect(F, VBI_SLICED_TELETEXT_B | VBI_SLICED_CAPTION_625, 1); break;
                case ST_TOKEN:   full_connect(F, VBI_SLICED_TELETEXT_B, 0);
                                 tk_prio = VBI_CHN_PRIO_BACKGROUND; tk_valid = 1; tk_sub = 0x10; tk_dur = 0; drive(act_token_req, F); break;
                case ST_PENDING: full_connect(F, VBI_SLICED_TELETEXT_B, 0); env_clnt[F].stalled = 1; break;
                case ST_NOSERVICE: case ST_NODEVICE: full_connect(F, 0, 0); break;
                case ST_SOLE: full_connect(F, VBI_SLICED_TELETEXT_B | VBI_SLICED_CAPTION_625, 1); break;
                }
        }
        drive(act_frame, 1); frames++;
        /* the first frame for a client that does not read waits in its message buffer, the second one stays in the daemon's queue */
        if (fc->state == ST_PENDING || fc->state == ST_OTHERSTALL) { drive(act_frame, 1); frames++; }
        if (mode == 0) {
                build_bytes(fc, fbytes, &fsend, &flush_allowed);
                foff = 0;
                if (fc->kind == MU_SPLIT) {
                        size_t all = fsend;
                        fsend = (size_t) fc->pos; drive(act_send_fault, F);
                        drive(act_frame, 1); frames++;
                        foff = (size_t) fc->pos; fsend = all - foff;
                }
                drive(act_send_fault, F);
                foff = 0;
                /* F still does not read while the daemon takes its message: the message is processed with F's frame queued
                 * (a FLUSH then discards queued buffers that are still referenced); then F reads again */
                if (fc->state == ST_PENDING) { drive(act_nothing, 0); env_clnt[F].stalled = 0; drive(act_nothing, 0); }
                rr->image = image_hash(1); rr->image_nomsg = image_hash(0);
                rr->f_alive = env_req(F) != NULL;
                if (fc->aft == AFT_DISCONNECT) drive(act_disconnect, F);
        }
        drive(act_frame, 1); frames++;
        drive(act_frame, 2); frames += 2;
        if (mode == 0 && fc->aft == AFT_SILENCE_TIMEOUT) { drive(act_tick, 70); drive(act_frame, 1); frames++; }
        else { drive(act_tick, 1); drive(act_frame, 1); frames++; }
        if (fc->state == ST_NODEVICE) frames = env_cap.produced;      /* a closed device captures nothing (a fault that opens it: frames count from there) */
        check_witness(key, fc, frames, flush_allowed);
        if (mode == 0 && env_clnt[F].fd >= 0) drive(act_disconnect, F);
        drive(act_tick, 1);
        drive(act_frame, 1); frames++;
        if (fc->state == ST_NODEVICE) frames = env_cap.produced;
        check_witness(key, fc, frames, flush_allowed);
        if (mode == 0 && env_req(F)) mc_violation(key, "the faulty client's record is still present after it disconnected");
        /* queue reference counts: every queued buffer is referenced by exactly the clients at or before it */
        {
                PROXY_DEV *d = &proxy.dev[0]; int k = 0;
                for (PROXY_QUEUE *q = d->p_sliced; q; q = q->p_next, k++) {
                        unsigned refs = 0;
                        for (PROXY_CLNT *r = proxy.p_clnts; r; r = r->p_next) {
                                int pos = -1, j = 0; for (PROXY_QUEUE *x = d->p_sliced; x; x = x->p_next, j++) if (x == r->p_sliced) pos = j;
                                if (pos >= 0 && pos <= k) refs++;
                        }
                        if (refs != q->ref_count) mc_violation(key, "queue buffer %d: ref_count %u but %u client cursors at or before it", k, q->ref_count, refs);
                }
        }
        mc_hash h; mc_hash_init(&h);
        {       /* final state, reduced to what must not depend on F: W's record, client count, device */
                for (PROXY_CLNT *r = proxy.p_clnts; r; r = r->p_next) {
                        uint64_t v[] = { (uint64_t) r->state, r->services[0], r->services[1], r->services[2], r->services[3], r->all_services,
                                (uint64_t) r->chn_state.token_state, (uint64_t) r->chn_prio, (uint64_t) r->io.writeLen, (uint64_t) r->io.readOff };
                        mc_hash_add(&h, v, sizeof v);
                }
                /* while the device is closed its service mask and the device model's last programmed union are history, not state */
                int open = proxy.dev[0].p_capture != NULL;
                uint64_t g[] = { (uint64_t) proxy.clnt_count, (uint64_t) open, open ? proxy.dev[0].all_services : 0,
                        (uint64_t) env_cap.is_open, env_cap.is_open ? env_cap.last_commit_union : 0 };
                mc_hash_add(&h, g, sizeof g);
        }
        rr->final_hash = h.a ^ h.b; rr->frames = frames;
        if (fc->state == ST_OTHERSTALL) drive(act_disconnect, S);
        drive(act_disconnect, W);
        if (env_cap.is_open || proxy.dev[0].p_capture) mc_violation(key, "device still open after the last client left");
        if (proxy.p_clnts) mc_violation(key, "client records remain after all clients left");
        env_shutdown();
}

static uint64_t ref_final, ref_final_nodev, ref_final_otherstall, ref_final_sole; static int ref_fds = -1;
static uint64_t strict_images[2][N_ST][4][2]; static int strict_images_ok;
static uint64_t strict_closed_image[2][N_ST][2];

static void describe(const struct fcase *fc, char *key, size_t klen, char *det, size_t dlen)
{
        static const char *kn[] = { "valid message", "header length", "header type", "body byte", "truncated", "two messages in one segment", "strict field", "header length + tail", "two segments" };
        const struct tmpl *t = &T[fc->tmpl];
        switch (fc->kind) {
        case MU_LEN: case MU_LENTAIL: {
                const char *lv = fc->val == 0xFFFFFFF0u ? "true-1" : fc->val == 0xFFFFFFF1u ? "true+1" : NULL; char b[24];
                if (!lv) { snprintf(b, sizeof b, "%u", fc->val); lv = b; }
                snprintf(key, klen, "fault: %s with header len=%s%s in state %s", t->name, lv, fc->kind == MU_LENTAIL ? " + 3000 byte tail" : "", st_name[fc->state]); break; }
        case MU_TYPE: snprintf(key, klen, "fault: %s body sent as type %u in state %s", t->name, fc->val, st_name[fc->state]); break;
        case MU_BYTE: snprintf(key, klen, "fault: %s body byte %d in state %s", t->name, fc->pos, st_name[fc->state]); break;
        case MU_TRUNC: snprintf(key, klen, "fault: %s truncated (%s) in state %s then %s", t->name, fc->pos < 8 ? "inside header" : "inside body", st_name[fc->state], aft_name[fc->aft]); break;
        case MU_PAIR: snprintf(key, klen, "fault: %s + %s in one segment in state %s", t->name, T[fc->pos].name, st_name[fc->state]); break;
        case MU_SPLIT: snprintf(key, klen, "fault: valid %s arriving in two segments (cut %s) with a frame captured in between in state %s", t->name, fc->pos < 8 ? "inside header" : fc->pos == 8 ? "after header" : "inside body", st_name[fc->state]); break;
        case MU_STRICT: snprintf(key, klen, "fault: %s strict %s in state %s", t->name, ((int32_t) fc->val < -1 || (int32_t) fc->val > 2) ? "out of range" : "in range", st_name[fc->state]); break;
        default: snprintf(key, klen, "fault: valid %s in state %s then %s", t->name, st_name[fc->state], aft_name[fc->aft]); break;
        }
        snprintf(det, dlen, "%s: tmpl=%s pos=%d val=0x%x aftermath=%s", kn[fc->kind], t->name, fc->pos, fc->val, aft_name[fc->aft]);
}

/* reference values, computed once per worker process (deterministic) */
static int refs_ready;
static void ensure_refs(void)
{
        if (refs_ready) return;
        struct run_result rr; memset(&rr, 0, sizeof rr); struct fcase dummy = { 0 };
        mc_case("reference run without a faulty client", "setup");
        scenario(&dummy, 1, &rr, "reference run without a faulty client"); ref_final = rr.final_hash;
        dummy.state = ST_NODEVICE;
        scenario(&dummy, 1, &rr, "reference run without a faulty client"); ref_final_nodev = rr.final_hash;
        dummy.state = ST_SOLE;
        scenario(&dummy, 1, &rr, "reference run without a faulty client"); ref_final_sole = rr.final_hash;
        dummy.state = ST_OTHERSTALL;
        scenario(&dummy, 1, &rr, "reference run without a faulty client"); ref_final_otherstall = rr.final_hash;
        /* images for the strict oracle: the four in-range values and a rejection, per state and message */
        for (int which = 0; which < 2; which++) for (int st = 0; st < N_ST; st++) {
                for (int r = 0; r < 4; r++) {
                        struct fcase fc = { (uint8_t) st, (uint8_t)(which ? 1 : 0), MU_STRICT, AFT_NONE, 0, (uint32_t)(r - 1) };
                        mc_case("strict reference (in range value)", "state %s msg %d strict %d", st_name[st], which, r - 1);
                        scenario(&fc, 0, &rr, "strict reference (in range value)"); strict_images[which][st][r][0] = rr.image_nomsg;
                }
                struct fcase fc = { (uint8_t) st, (uint8_t)(which ? 1 : 0), MU_TYPE, AFT_NONE, 0, MSG_TYPE_SLICED_IND };     /* rejected: connection closed */
                mc_case("strict reference (rejected message)", "state %s msg %d", st_name[st], which);
                scenario(&fc, 0, &rr, "strict reference (rejected message)"); strict_closed_image[which][st][0] = rr.image_nomsg;
        }
        strict_images_ok = 1; refs_ready = 1;
}

size_t __sanitizer_get_current_allocated_bytes(void) __attribute__((weak));
static size_t heap_now(void) { return __sanitizer_get_current_allocated_bytes ? __sanitizer_get_current_allocated_bytes() : 0; }
#define FBATCH 8
static void fault_case(uint64_t idx, void *arg)
{
        ensure_refs();
        for (uint64_t i = idx * FBATCH; i < (idx + 1) * FBATCH && i < nFC; i++) {
                const struct fcase *fc = &FC[i];
                char key[220], det[200]; describe(fc, key, sizeof key, det, sizeof det);
                mc_case(key, "%s", det);
                int fds0 = count_open_fds();
                size_t heap0 = heap_now();
                struct run_result rr; memset(&rr, 0, sizeof rr);
                scenario(fc, 0, &rr, key);
                if (rr.final_hash != (fc->state == ST_NODEVICE ? ref_final_nodev : fc->state == ST_SOLE ? ref_final_sole : fc->state == ST_OTHERSTALL ? ref_final_otherstall : ref_final)) mc_violation(key, "%s: daemon state after the faulty client left differs from a run without it", det);
                int fds1 = count_open_fds();
                if (fds0 >= 0 && fds1 != fds0) mc_violation(key, "%s: %d file descriptors leaked", det, fds1 - fds0);
                /* heap bytes in use must be back at the level before the scenario; LeakSanitizer (slow) names the block */
                if (heap_now() > heap0) { mc_leak_check(key); if (heap_now() > heap0 + 4096) mc_violation(key, "%s: %zu heap bytes still allocated after teardown", det, heap_now() - heap0); }
                if (fc->kind == MU_STRICT && strict_images_ok) {
                        int which = T[fc->tmpl].type == MSG_TYPE_SERVICE_REQ;
                        int v = (int32_t) fc->val, ok = 0;
                        for (int r = 0; r < 4; r++) if (strict_images[which][fc->state][r][0] == rr.image_nomsg) ok = 1;
                        if (strict_closed_image[which][fc->state][0] == rr.image_nomsg) ok = 1;
                        if (!ok && (v < -1 || v > 2))
                                mc_violation(key, "%s: client records after strict=%d equal neither the records after strict -1..2 nor after a rejection (memory outside the services array was modified)", det, v);
                }
                mc_outcome("%s: faulty client %s", st_name[fc->state], rr.f_alive ? "kept" : "dropped");
                mc_distinct(mc_hash64(fc, sizeof *fc));
                mc_count("evaluations", 1);
                if (i % 977 == 0) mc_sample("%s | %s | F %s", key, det, rr.f_alive ? "kept" : "dropped");
        }
}

static void ref_case(uint64_t idx, void *arg)
{
        struct run_result rr; memset(&rr, 0, sizeof rr);
        struct fcase dummy = { 0 };
        mc_case("reference run without a faulty client", "setup");
        scenario(&dummy, 1, &rr, "reference run without a faulty client");
        *(uint64_t *) arg = rr.final_hash;
}

/* ========================================================================= main */

/* ops: 0..2 TOKEN_REQ(bg) x3, 3 TOKEN_REQ(interactive), 4 NOTIFY(TOKEN), 5 NOTIFY(RELEASE), 6 NOTIFY(FLUSH), 7 RECLAIM_CNF,
 * 8 disconnect, 9 stall/unstall */
static struct tk_cfg cfgs[] = {
        { 2, 2, 0x0B3, 0, 1, "token-2c-core",   40, 60 },  /* REQ(dur0), REQ(dur2), NOTIFY(TOKEN), NOTIFY(RELEASE), RECLAIM_CNF, tick: fixpoint (7.6 k states) */
        { 3, 3, 0x0B1, 0, 1, "token-3c-core",   5, 60 },   /* 3 clients: REQ(dur0), NOTIFY(TOKEN), NOTIFY(RELEASE), RECLAIM_CNF, tick: fixpoint in thorough (95 k states) */
        { 2, 2, OPS_ALL, 1, 1, "token-2c-full", 5, 6 },    /* every letter incl. interactive, FLUSH, disconnect, connect: bounded depth */
        { 3, 3, 0x2B7, 0, 1, "token-3c-stall",  4, 5 },    /* 3 clients with stall: bounded depth */
        { 2, 2, 0x2B7, 0, 1, "token-2c-stall",  6, 60 },   /* + REQ(sub=0x20), stall/unstall: fixpoint in thorough (1.25 M states, depth 24) */
};

int main(int argc, char **argv)
{
        mc_init(argc, argv, "C19");
        mc_set_budget(300, 3000);
        mc_meta("level", "model_checking");
        mc_meta("technique", "explicit-state search to a fixpoint over the token protocol on the real daemon code (histories replayed on a fresh in-process daemon, canonical state hashing, invariant at every select()), plus exhaustive single-fault enumeration on one client's byte stream with a witness client");
        mc_meta("rule", "token part: a state is the canonical daemon+environment state reached by a letter history (client records in list order, token/scheduler fields, pending I/O, alarm); a transition is one client message / disconnect / stall toggle / connection / second; every transition is executed on the real daemon. fault part: one case = (connection state of the faulty client, message template, mutation, aftermath); distinct = distinct case descriptors executed");
        mc_meta("assume", "the daemon is explored in-process (daemon/proxyd.c #included, main() and daemonisation skipped), single device, select() variant (no acquisition thread); clients are scripted protocol actors over real AF_UNIX socketpairs");
        mc_meta("assume", "token part: environment alphabet limited to sub_prio {0x10,0x20}, min_duration {0,2}, 1 s ticks; a client keeps at most one unread message in flight; ages above 3 s are merged (no comparison in the scheduler distinguishes them for min_duration <= 2)");
        build_templates();

        const char *only = getenv("C19_ONLY");          /* development aid: "token", "faults" or "cfg=<name>" */
        /* ---- part (a): faults ---- */
        build_cases();
        mc_meta("bound", "token: 5 alphabets (2 and 3 clients; core / +stall / full) to a fixpoint or to depth %d..%d (see notes); faults: %llu single-fault cases = %d connection states x %d message templates x {9 header lengths, all types, every body byte x %s values, truncation at every byte x {silence, silence+70 s, disconnect}, message pairs} + all 256 strict values",
                mc_tier == MC_THOROUGH ? 7 : 4, mc_tier == MC_THOROUGH ? 60 : 40,
                (unsigned long long) nFC, N_ST, nT, mc_tier == MC_THOROUGH ? "256 (short messages)" : "5");
        if (!only || (strcmp(only, "token") && strncmp(only, "cfg=", 4))) mc_pool("faults", (nFC + FBATCH - 1) / FBATCH, fault_case, NULL, 60);
        /* ---- part (b): token machine ---- */
        int ncfg = sizeof cfgs / sizeof cfgs[0];
        for (int i = 0; i < ncfg; i++) tk_cfg_init(&cfgs[i]);
        if (only && !strcmp(only, "faults")) ncfg = 0;
        for (int i = 0; i < ncfg; i++) {
                if (only && !strncmp(only, "cfg=", 4) && strcmp(only + 4, cfgs[i].name)) continue;
                mc_bfs_spec sp; memset(&sp, 0, sizeof sp);
                sp.nletters = cfgs[i].nletters;
                sp.max_depth = mc_tier == MC_THOROUGH ? cfgs[i].tdepth : cfgs[i].qdepth;
                sp.max_states = 0; sp.timeout_s = 30; sp.run = tk_run; sp.arg = &cfgs[i]; sp.letter_name = tk_letter_name;
                mc_bfs_result res; memset(&res, 0, sizeof res);
                int rc = mc_bfs(cfgs[i].name, &sp, &res);
                if (!mc_replaying) {
                        mc_note("%s: %llu states, %llu transitions, depth %d completed, fixpoint=%d", cfgs[i].name,
                                (unsigned long long) res.states, (unsigned long long) res.transitions, res.depth_completed, res.fixpoint);
                        if (!res.fixpoint) mc_not_exhaustive("%s: reachable set not closed at depth %d (bounded depth search)", cfgs[i].name, res.depth_completed);
                }
                (void) rc;
        }

        return mc_finish();
}
