/* C08 - Closed Caption display memory follows EIA-608 / 47 CFR 15.119 for every
 * command sequence.
 *
 * E2 (mc_bfs) over histories of caption byte pairs fed through vbi_decode() into the
 * real decoder (src/caption.c); after every letter all eight pages are fetched with
 * vbi_fetch_cc_page() and audited against a reference display model written from the
 * regulation (this file, "MODEL"), plus one flat phase over the character set.
 *
 * A letter = one byte pair on line 21 (field 1) or 284 (field 2), or a control pair sent
 * twice in successive frames ("x2", the normal transmission on field 1).  Alphabets are per
 * phase (<= 64 letters): PACs (rows 1,2,11,14,15; indent 0/4/28; colour; italics; underline),
 * mid-row codes, FON, RCL, RU2/3/4, RDC, TR, RTD, EOC, EDM, ENM, CR, BS, DER, TO1-3, special
 * character, transparent space, background codes, text pairs "ab" "a " "c"+NUL, NUL pair;
 * channel bit 0/1, field 1/2, single / doubled.
 *
 * What is audited after every letter (t = the channel the letter addresses in the model):
 *   (1) every channel other than t: the fetched page is unchanged by the letter;
 *   (2) channel t, at the points the property names (pop-on: always - the displayed memory
 *       does not change while a caption is loaded, and EOC swaps; paint-on / roll-up / text:
 *       after a completed word, i.e. a pair ending in a space, after a mid-row code, PAC, CR,
 *       DER, any mode command, EDM, TR): page == model displayed memory, cell by cell in
 *       columns 1-32 (character, opacity class, background; for non-space characters also
 *       foreground, underline, italic, flash);
 *   (3) any channel whose fetched page changed during the letter: a VBI_EVENT_CAPTION with
 *       that pgno was raised during the letter ("whenever the visible page changed" - an
 *       event without a change is not a violation);
 *  (3b) the page a handler fetches from inside the last VBI_EVENT_CAPTION of the letter for a channel (the use
 *       event.h documents) equals the page after the letter: a change after the last event has no event behind it.
 *
 * Left undefined (not compared / history not continued) because the standard leaves it open or
 * two readings exist (see DESIGN.md C08 "False-alarm guard"):
 *   - margin columns 0 and 33; a transparent cell next to a non-transparent one may be shown
 *     as an opaque space (solid space rule, word_break() adds them per word);
 *   - underline/italic/flash/foreground of space cells;
 *   - attributes of a character written next to a cell with other attributes or into existing
 *     text (EIA-608-B Annex C.7 derives attributes from the row, caption.c uses a pen), flash
 *     after a PAC, pen after RUx from another mode / after CR in text mode;
 *   - the cursor after EOC and after RCL/RDC as first command (a PAC must follow), BS / DER
 *     with the cursor in column 32, everything after a background attribute code except that
 *     other cells and channels stay as they are (BAO/BT: optional 608-B feature);
 *   - a non mode-setting control code whose channel bit differs from the channel last selected
 *     on that field (which of CCn/Tn it addresses and whether following text belongs to it);
 *   - extended characters, XDS (C09), parity errors (C01).
 * Implementation traits mirrored as DESIGN.md lists them (mc_meta "assume"): MODE_NONE until
 * the first mode command; RUx with unchanged depth is a no-op, with changed depth erases and
 * resets the base row to 15; PAC in roll-up erases when the base row changes; EOC erases the new
 * non-displayed memory; field 2 control codes are executed every time; text mode uses 15 rows.
 * One more restriction found while calibrating, not in DESIGN.md: caption.c has ONE working buffer
 * per channel that is the non-displayed memory in pop-on mode and the word-granular staging copy
 * of the displayed row in paint-on / roll-up mode.  States of the standard that this architecture
 * cannot represent (e.g. RDC while a loaded, not yet displayed pop-on caption sits in the row that
 * is painted) are cut: the model keeps a virtual copy W of that buffer only to decide where to stop
 * (counter cut_two_buffer_architecture), never to predict a cell.
 *
 *   (2a) channel t between those points: a row of its page that changes must change to the model's row
 *       (the decoder copies whole rows when it renders), except for a pair "space, character" which is
 *       rendered between its two characters.
 *
 * Keys: "<letter class> in <mode>: <working buffer | cursor row | cursor column | pen attributes> of the
 * decoder differs from the standard" - letter class and mode are those of the FIRST letter of the history
 * after which the decoder's private state (peeked through src/vbi.h, for attribution only) left the
 * model; the verdict itself is always on fetched pages and events, and is raised at the letter where the
 * difference becomes visible.  Without such a letter: "<letter class> in <mode>: page differs from the
 * displayed memory of the standard: <kind of cell difference>".  Other classes: "<mode command | erase command | text | control code>
 * addressed to <relation> changed the page of the channel shown", "no caption event: ...".
 * A violating history is not continued, so one defect can hide another behind it.
 *
 * The decoder object is created once per worker and re-initialised per history with
 * vbi_caption_destroy() + vbi_caption_init() (what vbi_decoder_new() runs), vbi->time reset.
 */
#include <stdio.h>
#include <stdlib.h>
#include <string.h>
#include "mc.h"
#include "src/vbi.h"

/* ======================================================================= letters */

enum { LC_NONE, LC_PAC_INDENT, LC_PAC_COLOUR, LC_MID_COLOUR, LC_MID_ITALIC, LC_SPECIAL, LC_TS, LC_BAO, LC_BT,
       LC_RCL, LC_BS, LC_DER, LC_RU, LC_FON, LC_RDC, LC_TR, LC_RTD, LC_EDM, LC_CR, LC_ENM, LC_EOC, LC_TAB,
       LC_TEXT, LC_NUL, LC_REPEAT, LC_OTHER, LC_N };
static const char *LCN[LC_N] = { "-", "PAC(indent)", "PAC(colour)", "mid-row(colour)", "mid-row(italics)", "special character",
       "transparent space", "background attribute", "background transparent", "RCL", "BS", "DER", "RUx", "FON", "RDC", "TR", "RTD",
       "EDM", "CR", "ENM", "EOC", "tab offset", "text", "NUL pair", "repeated control pair", "undefined control code" };

typedef struct { uint8_t f, n; uint8_t p[2]; char name[40]; } Letter;   /* n = 1 or 2 transmissions of pair p on field f */

#define MAXL 96
typedef struct {
        const char *name;
        int nl; Letter l[MAXL];
        int npre; Letter pre[6];
        int depth[2];
} Phase;

static const char *CHN[8] = { "CC1", "CC2", "CC3", "CC4", "T1", "T2", "T3", "T4" };

/* 47 CFR 15.119 PAC table: row (1..15) -> low three bits of the first byte, bit 5 of the second */
static const struct { int g, hi; } PACROW[16] = { {0,0}, {1,0},{1,1},{2,0},{2,1},{5,0},{5,1},{6,0},{6,1},{7,0},{7,1},{0,0},{3,0},{3,1},{4,0},{4,1} };
static const char *COLN[8] = { "white", "green", "blue", "cyan", "red", "yellow", "magenta", "italics" };

static Letter mk(int f, int b, int c1, int c2, int n, const char *what)
{
        Letter l; memset(&l, 0, sizeof l);
        l.f = f; l.n = n; l.p[0] = c1 | (b << 3); l.p[1] = c2;
        snprintf(l.name, sizeof l.name, "f%d/c%d %s%s", f + 1, b + 1, what, n == 2 ? " x2" : "");
        return l;
}
static Letter L_pac(int f, int b, int n, int row, int indent /* -1: colour */, int colour, int ul)
{
        char w[32];
        int c2 = 0x40 | (PACROW[row].hi << 5) | (indent >= 0 ? 0x10 | ((indent / 4) << 1) : colour << 1) | ul;
        if (indent >= 0) snprintf(w, sizeof w, "PAC(r%d,i%d%s)", row, indent, ul ? ",ul" : "");
        else snprintf(w, sizeof w, "PAC(r%d,%s%s)", row, COLN[colour], ul ? ",ul" : "");
        return mk(f, b, 0x10 | PACROW[row].g, c2, n, w);
}
static Letter L_mid(int f, int b, int n, int colour, int ul)
{
        char w[32]; snprintf(w, sizeof w, "MID(%s%s)", COLN[colour], ul ? ",ul" : "");
        return mk(f, b, 0x11, 0x20 | (colour << 1) | ul, n, w);
}
static const char *MISCN[16] = { "RCL", "BS", "AOF", "AON", "DER", "RU2", "RU3", "RU4", "FON", "RDC", "TR", "RTD", "EDM", "CR", "ENM", "EOC" };
enum { RCL = 0, BS = 1, DER = 4, RU2 = 5, RU3 = 6, RU4 = 7, FON = 8, RDC = 9, TR = 10, RTD = 11, EDM = 12, CR = 13, ENM = 14, EOC = 15 };
static Letter L_misc(int f, int b, int n, int code) { return mk(f, b, f ? 0x15 : 0x14, 0x20 | code, n, MISCN[code]); }
static Letter L_tab(int f, int b, int n, int k) { char w[8]; snprintf(w, sizeof w, "TO%d", k); return mk(f, b, 0x17, 0x20 | k, n, w); }
static Letter L_spec(int f, int b, int n, int k) { char w[16]; snprintf(w, sizeof w, k == 9 ? "TS" : "SPEC(%x)", k); return mk(f, b, 0x11, 0x30 | k, n, w); }
static Letter L_bao(int f, int b, int n, int colour, int semi) { char w[24]; snprintf(w, sizeof w, "BG(%s%s)", COLN[colour], semi ? ",semi" : ""); return mk(f, b, 0x10, 0x20 | (colour << 1) | semi, n, w); }
static Letter L_bt(int f, int b, int n) { return mk(f, b, 0x17, 0x2D, n, "BT"); }
static Letter L_text(int f, int a, int b)
{
        Letter l; memset(&l, 0, sizeof l); l.f = f; l.n = 1; l.p[0] = a; l.p[1] = b;
        if (!a && !b) snprintf(l.name, sizeof l.name, "f%d NUL", f + 1);
        else snprintf(l.name, sizeof l.name, "f%d '%c%c'", f + 1, a ? a : '_', b ? b : '_');
        return l;
}

/* ======================================================================= MODEL (47 CFR 15.119) */

enum { M_NONE, M_POP, M_PAINT, M_ROLL, M_TEXT };
static const char *MODEN[5] = { "unknown mode", "pop-on", "paint-on", "roll-up", "text" };
enum { A_FG = 1, A_UL = 2, A_IT = 4, A_FL = 8, A_BG = 16, A_CHAR = A_FG | A_UL | A_IT | A_FL };

typedef struct { uint16_t uc; uint8_t kind /* 0 transparent, 1 character, 2 spacing attribute */, fg, bg, op, at /* A_UL|A_IT|A_FL set */, ua /* undefined attrs */, uall, lx /* empty cell that had a neighbour: a solid space may linger */, pad[2]; } Cell;
typedef struct { uint8_t fg, bg, op, at, undef; } Pen;
typedef Cell Mem[15][32];
typedef struct {
        int mode, row, col, full, cur_def, depth, base;
        Pen pen;
        Mem D, N, W;            /* displayed, non-displayed, virtual working buffer (domain restriction only) */
} MCh;
typedef struct {
        MCh ch[8];
        int cur[2];             /* channel selected on field 1 / 2, -1 none */
        int last[2];            /* field 1: control pair awaiting its repeat, -1 none */
} Model;

enum { PR_NONE, PR_CURSOR, PR_OTHERCH, PR_ARCH, PR_COL32, PR_N };
static const char *PRN[PR_N] = { "", "cut_cursor_undefined", "cut_control_code_for_unselected_channel", "cut_two_buffer_architecture", "cut_bs_der_in_column_32" };

typedef struct { int target, cmp, cls, mode_before, prune, executed, midflush; unsigned exempt; } Step;

/* vbi_color values (format.h): BLACK 0 RED 1 GREEN 2 YELLOW 3 BLUE 4 MAGENTA 5 CYAN 6 WHITE 7 */
static const uint8_t COL608[7] = { 7, 2, 4, 6, 1, 3, 5 };      /* white green blue cyan red yellow magenta */
enum { OP_TRANSP_SPACE = 0, OP_TRANSP_FULL = 1, OP_SEMI = 2, OP_OPAQUE = 3 };

/* 47 CFR 15.119 (g) character set, written down independently of src/lang.c */
static unsigned ref_basic(int c)
{
        switch (c) {
        case 0x2A: return 0xE1; case 0x5C: return 0xE9; case 0x5E: return 0xED; case 0x5F: return 0xF3; case 0x60: return 0xFA;
        case 0x7B: return 0xE7; case 0x7C: return 0xF7; case 0x7D: return 0xD1; case 0x7E: return 0xF1; case 0x7F: return 0x25A0;
        default: return c;
        }
}
static const uint16_t REF_SPECIAL[16] = { 0xAE, 0xB0, 0xBD, 0xBF, 0x2122, 0xA2, 0xA3, 0x266A, 0xE0, 0x20, 0xE8, 0xE2, 0xEA, 0xEE, 0xF4, 0xFB };

static void pen_default(Pen *p) { p->fg = 7; p->bg = 0; p->op = OP_OPAQUE; p->at = 0; p->undef = 0; }

static void model_init(Model *m)
{
        memset(m, 0, sizeof *m);
        m->cur[0] = m->cur[1] = -1; m->last[0] = m->last[1] = -1;
        for (int i = 0; i < 8; i++) {
                MCh *c = &m->ch[i];
                pen_default(&c->pen);
                c->depth = 3; c->base = 14;
                if (i >= 4) { c->mode = M_TEXT; c->row = 0; c->col = 0; c->cur_def = 1; }
                else { c->mode = M_NONE; c->cur_def = 0; c->row = 14; }
        }
}

static Cell (*target_mem(MCh *c))[32] { return c->mode == M_POP ? c->N : c->D; }

static int coherent(const MCh *c)
{
        if (c->mode == M_POP || c->mode == M_NONE) return 1;
        if (c->cur_def) return !memcmp(c->W[c->row], c->D[c->row], sizeof c->W[0]);
        return !memcmp(c->W, c->D, sizeof c->W);
}
static void sync_row(MCh *c, int r)
{
        Cell *row = target_mem(c)[r];
        /* an empty cell next to a non-empty one may carry a solid space, and the decoder keeps it when the
         * neighbour goes away later (until the cell itself is erased) */
        for (int k = 0; k < 32; k++)
                if (!row[k].kind && ((k > 0 && row[k - 1].kind) || (k < 31 && row[k + 1].kind))) row[k].lx = 1;
        memcpy(c->W[r], row, sizeof c->W[0]);
}

static void store(MCh *c, Cell v)
{
        Cell (*mem)[32] = target_mem(c);
        int r = c->row, k = c->col;
        if (v.kind) {
                /* EIA-608-B Annex C.7 derives attributes from the row; leave undefined where a pen disagrees */
                if (k > 0 && mem[r][k - 1].kind) {
                        const Cell *l = &mem[r][k - 1];
                        v.ua |= l->ua & A_CHAR;
                        if (l->fg != v.fg) v.ua |= A_FG;
                        v.ua |= (l->at ^ v.at) & A_CHAR;
                }
                if (k < 31 && mem[r][k + 1].kind)
                        for (int j = k + 1; j < 32 && mem[r][j].kind; j++) mem[r][j].ua |= A_CHAR;
        }
        mem[r][k] = v;
        sync_row(c, r);
        if (k < 31) c->col++; else c->full = 1;
}
static Cell pen_cell(const MCh *c, int kind, unsigned uc)
{
        Cell v; memset(&v, 0, sizeof v);
        v.kind = kind; v.uc = uc; v.fg = c->pen.fg; v.bg = c->pen.bg; v.op = c->pen.op; v.at = c->pen.at; v.ua = c->pen.undef;
        return v;
}
static void erase_mem(Mem m) { memset(m, 0, sizeof(Mem)); }

/* one control pair (7 bit values, parity fine) or text pair on field f */
static void model_pair(Model *m, int f, int c1, int c2, Step *st)
{
        st->target = -1; st->cmp = 0; st->cls = LC_NONE; st->prune = 0; st->mode_before = M_NONE; st->executed = 0; st->exempt = 0; st->midflush = 0;

        if (c1 < 0x10 || c1 > 0x1F) {
                /* text (alphabets contain no 0x01-0x0F) */
                if (f == 0) m->last[0] = -1;            /* (i): the repeat must be in the next frame */
                st->cls = (c1 || c2) ? LC_TEXT : LC_NUL;
                int t = m->cur[f];
                if (t < 0) return;
                MCh *c = &m->ch[t];
                st->target = t; st->mode_before = c->mode;
                if (!c1 && !c2) { if (!coherent(c)) st->prune = PR_ARCH; return; }      /* the second NUL pair flushes the row */
                if (!c->cur_def) { st->prune = PR_CURSOR; return; }
                if (!coherent(c)) { st->prune = PR_ARCH; return; }
                int chars[2] = { c1, c2 };
                for (int i = 0; i < 2; i++) if (chars[i] >= 0x20) store(c, pen_cell(c, 1, ref_basic(chars[i])));
                st->executed = 1;
                int lastc = c2 ? c2 : c1;
                st->cmp = (c->mode == M_POP) || lastc == 0x20;
                st->midflush = c1 == 0x20 && c2 > 0x20;         /* the row is rendered between the two characters */
                return;
        }

        /* control pair */
        if (f == 0) {
                if (m->last[0] == c1 && m->last[1] == c2) { m->last[0] = -1; st->cls = LC_REPEAT; return; }
                m->last[0] = c1; m->last[1] = c2;
        }
        int b = (c1 >> 3) & 1, g = c1 & 7;
        int cap = f * 2 + b, txt = 4 + f * 2 + b;
        int cls = LC_OTHER, misc = -1;
        if (c2 >= 0x40) cls = (g == 0 && (c2 & 0x20)) ? LC_OTHER : (c2 & 0x10) ? LC_PAC_INDENT : LC_PAC_COLOUR;
        else if (c2 >= 0x20) {
                if (g == 0 && c2 < 0x30) cls = LC_BAO;
                else if (g == 1 && c2 < 0x30) cls = ((c2 >> 1) & 7) == 7 ? LC_MID_ITALIC : LC_MID_COLOUR;
                else if (g == 1) cls = c2 == 0x39 ? LC_TS : LC_SPECIAL;
                else if ((g == 4 || g == 5) && c2 < 0x30) {
                        misc = c2 & 15;
                        static const int mc[16] = { LC_RCL, LC_BS, LC_OTHER, LC_OTHER, LC_DER, LC_RU, LC_RU, LC_RU, LC_FON, LC_RDC, LC_TR, LC_RTD, LC_EDM, LC_CR, LC_ENM, LC_EOC };
                        cls = mc[misc];
                } else if (g == 7 && c2 >= 0x21 && c2 <= 0x23) cls = LC_TAB;
                else if (g == 7 && c2 == 0x2D) cls = LC_BT;
        }
        st->cls = cls;
        if (cls == LC_OTHER) return;

        MCh *c; int t;
        int old = m->cur[f];
        switch (cls) {
        case LC_RCL: case LC_RU: case LC_RDC: case LC_EOC: t = cap; m->cur[f] = t; break;
        case LC_TR: case LC_RTD: t = txt; m->cur[f] = t; break;
        case LC_EDM: case LC_ENM: t = cap; break;       /* EIA-608-B Annex B.7: caption processing, also during text */
        default:
                t = m->cur[f];
                if (t < 0) return;                      /* no channel selected yet: ignored */
                if ((t & 1) != b) { st->target = t; st->prune = PR_OTHERCH; st->exempt = (1u << cap) | (1u << txt); return; }
        }
        c = &m->ch[t];
        st->target = t; st->mode_before = c->mode; st->executed = 1;
        if (old >= 0 && old != t && t == m->cur[f] && !coherent(&m->ch[old])) {
                /* the decoder flushes the working row of the channel it leaves */
                st->prune = PR_ARCH; st->exempt = 1u << old; return;
        }
        if (c->mode == M_NONE && cls != LC_RCL && cls != LC_RU && cls != LC_RDC && cls != LC_EOC && cls != LC_EDM && cls != LC_ENM) { st->executed = 0; return; }

        int needs_cursor = cls == LC_MID_COLOUR || cls == LC_MID_ITALIC || cls == LC_SPECIAL || cls == LC_TS || cls == LC_BAO || cls == LC_BT
                || cls == LC_BS || cls == LC_DER || cls == LC_FON || cls == LC_TAB || (cls == LC_CR && c->mode == M_TEXT)
                || ((cls == LC_PAC_INDENT || cls == LC_PAC_COLOUR) && c->mode == M_TEXT);
        if (needs_cursor && !c->cur_def) { st->prune = PR_CURSOR; return; }
        if (cls != LC_EDM && cls != LC_ENM && cls != LC_EOC && !coherent(c)) { st->prune = PR_ARCH; return; }

        Cell (*mem)[32];
        switch (cls) {
        case LC_PAC_INDENT: case LC_PAC_COLOUR: {
                int row = -1;
                for (int r = 1; r <= 15; r++) if (PACROW[r].g == g && PACROW[r].hi == ((c2 >> 5) & 1)) row = r - 1;
                int col = 0;
                /* (h)(1): the PAC sets colour and underline; flash stays open if it was on */
                if (c->pen.at & A_FL) c->pen.undef |= A_FL;
                c->pen.at &= ~(A_UL | A_IT);
                if (c2 & 1) c->pen.at |= A_UL;
                c->pen.undef &= ~(A_FG | A_UL | A_IT);
                if (cls == LC_PAC_INDENT) { col = (c2 & 0x0E) * 2; c->pen.fg = 7; }
                else { int k = (c2 >> 1) & 7; if (k == 7) { c->pen.fg = 7; c->pen.at |= A_IT; } else c->pen.fg = COL608[k]; }
                if (c->mode == M_ROLL) {
                        int base = row < c->depth - 1 ? c->depth - 1 : row;
                        if (base != c->base) { erase_mem(c->D); erase_mem(c->W); c->base = base; }       /* trait */
                        c->row = base;
                } else if (c->mode != M_TEXT) c->row = row;                                              /* (e)(1): text mode ignores the row */
                c->col = col; c->full = 0; c->cur_def = 1;
                st->cmp = 1;
                break; }
        case LC_MID_COLOUR: case LC_MID_ITALIC: {
                /* (h)(1)(ii),(iii): colour turns italics and flash off; italics keeps the colour, turns flash off */
                int k = (c2 >> 1) & 7;
                c->pen.at &= ~(A_UL | A_FL); c->pen.undef &= ~(A_UL | A_FL);
                if (c2 & 1) c->pen.at |= A_UL;
                if (k == 7) { c->pen.at |= A_IT; c->pen.undef &= ~A_IT; }
                else { c->pen.at &= ~A_IT; c->pen.fg = COL608[k]; c->pen.undef &= ~(A_IT | A_FG); }
                store(c, pen_cell(c, 2, 0x20));         /* (h)(1)(i): spacing attribute */
                st->cmp = 1;
                break; }
        case LC_FON:
                c->pen.at |= A_FL; c->pen.undef &= ~A_FL;
                store(c, pen_cell(c, 2, 0x20));         /* (h)(1)(i) */
                st->cmp = c->mode == M_POP;
                break;
        case LC_SPECIAL:
                store(c, pen_cell(c, 1, REF_SPECIAL[c2 & 15]));
                st->cmp = c->mode == M_POP;
                break;
        case LC_TS: {
                Cell z; memset(&z, 0, sizeof z);
                store(c, z);
                st->cmp = c->mode == M_POP;
                break; }
        case LC_BAO: case LC_BT:
                mem = target_mem(c);
                if (c->col > 0) mem[c->row][c->col - 1].uall = 1;
                if (cls == LC_BAO) { mem[c->row][c->col].uall = 1; c->cur_def = 0; }
                sync_row(c, c->row);
                c->pen.undef |= A_BG;
                st->cmp = c->mode == M_POP;
                break;
        case LC_BS:
                if (c->col == 31) { st->prune = PR_COL32; return; }
                if (c->col > 0) { c->col--; mem = target_mem(c); memset(&mem[c->row][c->col], 0, sizeof(Cell)); sync_row(c, c->row); }
                st->cmp = c->mode == M_POP;
                break;
        case LC_DER:
                mem = target_mem(c);
                if (c->full) mem[c->row][31].uall = 1;
                else for (int k = c->col; k < 32; k++) memset(&mem[c->row][k], 0, sizeof(Cell));
                sync_row(c, c->row);
                st->cmp = 1;
                break;
        case LC_TAB:
                if (!c->full) { c->col += c2 & 3; if (c->col > 31) c->col = 31; }
                st->cmp = c->mode == M_POP;
                break;
        case LC_CR:
                if (c->mode == M_ROLL) {
                        int top = c->base - c->depth + 1;
                        memmove(c->D[top], c->D[top + 1], (c->depth - 1) * sizeof c->D[0]);
                        memset(c->D[c->base], 0, sizeof c->D[0]); memset(c->W[c->base], 0, sizeof c->W[0]);
                        c->col = 0; c->full = 0; c->row = c->base;
                        { int keep = c->pen.undef & A_BG, bg = c->pen.bg, op = c->pen.op;
                          pen_default(&c->pen);          /* (h)(1), 608-B C.14: a new row starts white, non-underlined */
                          c->pen.undef = keep; c->pen.bg = bg; c->pen.op = op; }
                } else if (c->mode == M_TEXT) {
                        if (c->row < 14) c->row++;
                        else { memmove(c->D[0], c->D[1], 14 * sizeof c->D[0]); memset(c->D[14], 0, sizeof c->D[0]); memset(c->W[14], 0, sizeof c->W[0]); }
                        c->col = 0; c->full = 0; c->pen.undef |= A_CHAR;
                }                                        /* (f)(2)(i), (f)(3)(i): no effect in pop-on and paint-on */
                st->cmp = c->mode != M_PAINT;
                break;
        case LC_RCL:
                if (c->mode == M_PAINT || c->mode == M_ROLL) if (memcmp(c->W, c->N, sizeof c->W)) { st->prune = PR_ARCH; return; }
                c->mode = M_POP;
                st->cmp = 1;
                break;
        case LC_RDC:
                c->mode = M_PAINT;
                st->cmp = 1;
                break;
        case LC_RU: {
                int n = (c2 & 7) - 3;
                if (c->mode == M_ROLL && c->depth == n) { st->cmp = 1; break; }
                if (c->mode != M_NONE) c->pen.undef |= A_CHAR;
                erase_mem(c->D); erase_mem(c->W); if (c->mode != M_ROLL) erase_mem(c->N);
                c->mode = M_ROLL; c->depth = n; c->base = c->row = 14; c->col = 0; c->full = 0; c->cur_def = 1;
                st->cmp = 1;
                break; }
        case LC_EOC: {
                if (c->mode == M_PAINT || c->mode == M_ROLL) if (memcmp(c->W, c->N, sizeof c->W)) { st->prune = PR_ARCH; return; }
                memcpy(c->W, c->D, sizeof c->W); memcpy(c->D, c->N, sizeof c->D);       /* swap; W used as scratch */
                erase_mem(c->N); erase_mem(c->W);                                       /* trait: new non-displayed memory erased */
                c->mode = M_POP; c->cur_def = 0;
                st->cmp = 1;
                break; }
        case LC_EDM:
                erase_mem(c->D);
                if (c->mode != M_POP) erase_mem(c->W);
                st->cmp = 1;
                break;
        case LC_ENM:
                erase_mem(c->N);
                if (c->mode == M_POP) erase_mem(c->W);
                st->cmp = c->mode == M_POP || c->mode == M_NONE;
                break;
        case LC_TR:
                erase_mem(c->D); erase_mem(c->W);
                c->row = 0; c->col = 0; c->full = 0; c->cur_def = 1;
                st->cmp = 1;
                break;
        case LC_RTD:
                st->cmp = 1;
                break;
        }
}

/* ======================================================================= real decoder */

static vbi_decoder *DEC;
static unsigned evmask;
static int frame_no;
static uint64_t n_events;

/* what a client sees that does what event.h documents ("the expected action is to call vbi_fetch_cc_page()"):
 * the page fetched from inside the handler of the last event of each channel */
static vbi_char ev_pg[8][15 * 34];
static void on_event(vbi_event *ev, void *ud)
{
        if (ev->type != VBI_EVENT_CAPTION) return;
        int p = ev->ev.caption.pgno;
        evmask |= (p >= 1 && p <= 8) ? 1u << (p - 1) : 1u << 8;
        n_events++;
        if (p >= 1 && p <= 8 && DEC) {
                static vbi_page inh;
                if (vbi_fetch_cc_page(DEC, &inh, p, TRUE) && inh.rows == 15 && inh.columns == 34) memcpy(ev_pg[p - 1], inh.text, sizeof ev_pg[p - 1]);
                else memset(ev_pg[p - 1], 0xEE, sizeof ev_pg[p - 1]);
        }
}
static int par(int c) { c &= 0x7F; return __builtin_parity(c) ? c : c | 0x80; }

static void dec_reset(void)
{
        if (!DEC) {
                DEC = vbi_decoder_new();
                if (!DEC || !vbi_event_handler_register(DEC, VBI_EVENT_CAPTION, on_event, NULL)) { fprintf(stderr, "C08: no decoder\n"); exit(42); }
        } else {
                vbi_caption_destroy(DEC);
                vbi_caption_init(DEC);
        }
        DEC->time = 0.0; DEC->chswcd = 0;
        frame_no = 0; evmask = 0;
}
static void feed(int f, int c1, int c2)
{
        vbi_sliced s; memset(&s, 0, sizeof s);
        s.id = VBI_SLICED_CAPTION_525; s.line = f ? 284 : 21;
        s.data[0] = par(c1); s.data[1] = par(c2);
        frame_no++;
        vbi_decode(DEC, &s, 1, 1.0 + frame_no * (1001.0 / 30000.0));
}

/* ======================================================================= comparison */

#define PCOLS 34
static int is_textch(int ch) { return ch >= 4; }

/* returns NULL when the actual cell is what the model row allows at column k (0..31) */
static const char *cell_diff(const Cell *row, int k, vbi_char a, int textch)
{
        const Cell *m = &row[k];
        if (m->uall) return NULL;
        if (!m->kind) {
                int lax = m->lx || (k > 0 && (row[k - 1].kind || row[k - 1].uall)) || (k < 31 && (row[k + 1].kind || row[k + 1].uall));
                if (textch) {
                        if (a.unicode != 0x20) return "character where the standard has an empty cell";
                        if (!lax && (a.opacity != VBI_OPAQUE || a.background != VBI_BLACK)) return "empty text cell not black opaque";
                        return NULL;
                }
                if (a.opacity == VBI_TRANSPARENT_SPACE) return a.unicode == 0x20 ? NULL : "character in a transparent cell";
                if (a.unicode != 0x20) return "character where the standard has a transparent cell";
                return lax ? NULL : "opaque space where the standard has a transparent cell";
        }
        if (!textch && a.opacity == VBI_TRANSPARENT_SPACE) return m->uc == 0x20 ? "transparent cell where the standard has a space" : "transparent cell where the standard has a character";
        if (a.unicode != m->uc) return (m->uc == 0x20) ? "character where the standard has a space" : (a.unicode == 0x20) ? "space where the standard has a character" : "wrong character";
        if (!(m->ua & A_BG)) {
                if (a.opacity != m->op) return "wrong opacity";
                if (a.background != m->bg) return "wrong background colour";
        }
        if (m->uc != 0x20) {
                if (!(m->ua & A_FG) && a.foreground != m->fg) return "wrong foreground colour";
                if (!(m->ua & A_UL) && a.underline != !!(m->at & A_UL)) return "wrong underline";
                if (!(m->ua & A_IT) && a.italic != !!(m->at & A_IT)) return "wrong italic";
                if (!(m->ua & A_FL) && a.flash != !!(m->at & A_FL)) return "wrong flash";
        }
        return NULL;
}

static const char *mem_diff(Mem mem, const vbi_char *text, int textch, int *pr, int *pk)
{
        for (int r = 0; r < 15; r++) for (int k = 0; k < 32; k++) {
                const char *d = cell_diff(mem[r], k, text[r * PCOLS + 1 + k], textch);
                if (d) { *pr = r; *pk = k; return d; }
        }
        return NULL;
}

static void row_str(char *o, size_t n, const vbi_char *t)
{
        size_t p = 0;
        for (int k = 1; k <= 32 && p + 2 < n; k++) {
                vbi_char a = t[k];
                o[p++] = a.opacity == VBI_TRANSPARENT_SPACE ? '.' : a.unicode == 0x20 ? '_' : (a.unicode > 0x20 && a.unicode < 0x7F) ? (char) a.unicode : '#';
        }
        while (p && o[p - 1] == '.') p--;
        o[p] = 0;
}
static void mrow_str(char *o, size_t n, const Cell *row)
{
        size_t p = 0;
        for (int k = 0; k < 32 && p + 2 < n; k++)
                o[p++] = row[k].uall ? '?' : !row[k].kind ? '.' : row[k].uc == 0x20 ? '_' : (row[k].uc > 0x20 && row[k].uc < 0x7F) ? (char) row[k].uc : '#';
        while (p && o[p - 1] == '.') p--;
        o[p] = 0;
}

/* ======================================================================= one history */

static const Phase *PH;
static Model MOD;
static vbi_char prev_pg[8][15 * PCOLS];
static vbi_page fetched;

static struct { int have, cls, mode; char what[80]; } suspect;

static const char *hist_str(const uint8_t *hist, int n)
{
        static char b[900]; size_t o = 0; b[0] = 0;
        for (int i = 0; i < PH->npre && o + 50 < sizeof b; i++) o += snprintf(b + o, sizeof b - o, "%s{%s}", i ? " " : "", PH->pre[i].name);
        for (int i = 0; i < n && o + 50 < sizeof b; i++) o += snprintf(b + o, sizeof b - o, "%s%s", (i || PH->npre) ? " ; " : "", PH->l[hist[i]].name);
        return b;
}

static int bad;
static const uint8_t *cur_hist; static int cur_n;

static void report(const char *key, const char *fmt, ...)
{
        char d[1500]; va_list ap; va_start(ap, fmt); vsnprintf(d, sizeof d, fmt, ap); va_end(ap);
        bad = 1;
        mc_violation(key, "%s | history: %s", d, hist_str(cur_hist, cur_n));
}

/* attribution only: where did the decoder's private state leave the model first */
static void peek_suspect(int t, const Step *st)
{
        if (suspect.have || t < 0) return;
        MCh *c = &MOD.ch[t];
        cc_channel *rc = &DEC->cc.channel[t];
        const vbi_char *wtext = rc->pg[rc->hidden].text;
        int r, k; const char *d = mem_diff(c->W, wtext, is_textch(t), &r, &k);
        char what[80] = "";
        if (d) snprintf(what, sizeof what, "working buffer");
        else if (c->cur_def && c->mode != M_NONE) {
                if (rc->row != c->row) snprintf(what, sizeof what, "cursor row");
                else if (!(rc->col - 1 == c->col || (c->full && rc->col == 33))) snprintf(what, sizeof what, "cursor column");
        }
        if (!what[0] && c->mode != M_NONE) {
                vbi_char a = rc->attr; const Pen *p = &c->pen;
                if ((!(p->undef & A_FG) && a.foreground != p->fg) || (!(p->undef & A_UL) && a.underline != !!(p->at & A_UL))
                    || (!(p->undef & A_IT) && a.italic != !!(p->at & A_IT)) || (!(p->undef & A_FL) && a.flash != !!(p->at & A_FL))
                    || (!(p->undef & A_BG) && (a.background != p->bg || a.opacity != p->op)))
                        snprintf(what, sizeof what, "pen attributes");
        }
        if (!what[0]) return;
        suspect.have = 1; suspect.cls = st->cls; suspect.mode = st->mode_before; snprintf(suspect.what, sizeof suspect.what, "%s", what);
}

static void make_key(char *key, size_t n, const Step *st, const char *visible)
{
        if (suspect.have) snprintf(key, n, "%s in %s: %s of the decoder differs from the standard", LCN[suspect.cls], MODEN[suspect.mode], suspect.what);
        else snprintf(key, n, "%s in %s: page differs from the displayed memory of the standard: %s", LCN[st->cls], MODEN[st->mode_before], visible);
}

static const char *cls_group(int cls)
{
        switch (cls) {
        case LC_RCL: case LC_RU: case LC_RDC: case LC_EOC: case LC_TR: case LC_RTD: return "mode command";
        case LC_EDM: case LC_ENM: return "erase command";
        case LC_TEXT: case LC_NUL: return "text";
        default: return "control code";
        }
}

static void note_outcome(const Step *st)
{
        static unsigned char seen[LC_N][5][3];
        int k = st->prune ? 2 : (st->target >= 0 && st->cmp) ? 1 : 0;
        if (seen[st->cls][st->mode_before][k]) return;
        seen[st->cls][st->mode_before][k] = 1;
        mc_outcome("%s in %s: %s", LCN[st->cls], st->target < 0 ? "no channel" : MODEN[st->mode_before],
                   k == 2 ? PRN[st->prune] : k == 1 ? "page compared with the model" : "pages of the other channels / events checked only");
}

/* feeds one letter to decoder and model, audits; returns prune reason (>0) or 0 */
static int do_letter(const Letter *l, int audit)
{
        Step st, agg; memset(&agg, 0, sizeof agg); agg.target = -1;
        evmask = 0;
        mc_case(NULL, "%s", l->name);
        for (int i = 0; i < l->n; i++) {
                model_pair(&MOD, l->f, l->p[0], l->p[1], &st);
                if (st.prune && !agg.prune) agg.prune = st.prune;
                if (st.target >= 0 && (agg.target < 0 || st.executed)) { agg.target = st.target; agg.mode_before = st.mode_before; }
                if (st.cls != LC_REPEAT || agg.cls == LC_NONE) agg.cls = st.cls;
                agg.cmp |= st.cmp; agg.executed |= st.executed; agg.exempt |= st.exempt; agg.midflush |= st.midflush;
                feed(l->f, l->p[0], l->p[1]);
        }
        if (!audit) { if (!agg.prune) peek_suspect(agg.target, &agg); return agg.prune; }
        /* fetch all pages */
        unsigned changed = 0;
        static vbi_char now_pg[8][15 * PCOLS];
        for (int ch = 0; ch < 8; ch++) {
                if (!vbi_fetch_cc_page(DEC, &fetched, ch + 1, TRUE)) { report("vbi_fetch_cc_page failed", "channel %s", CHN[ch]); return 0; }
                if (fetched.rows != 15 || fetched.columns != 34 || fetched.pgno != ch + 1) { report("fetched page has wrong geometry", "channel %s rows=%d columns=%d pgno=%d", CHN[ch], fetched.rows, fetched.columns, fetched.pgno); return 0; }
                memcpy(now_pg[ch], fetched.text, sizeof now_pg[ch]);
                if (memcmp(now_pg[ch], prev_pg[ch], sizeof now_pg[ch])) changed |= 1u << ch;
        }
        int t = agg.target;
        /* (3) event clause */
        for (int ch = 0; ch < 8 && !bad; ch++)
                if ((changed & (1u << ch)) && !(evmask & (1u << ch))) {
                        char key[160]; snprintf(key, sizeof key, "no caption event: %s in %s changed the visible page", LCN[agg.cls], ch == t ? MODEN[agg.mode_before] : "another channel");
                        if (suspect.have) snprintf(key, sizeof key, "no caption event for a changed page; %s in %s: %s of the decoder differs from the standard", LCN[suspect.cls], MODEN[suspect.mode], suspect.what);
                        report(key, "page of %s changed during letter '%s' but no VBI_EVENT_CAPTION pgno=%d was raised (events seen: mask %x)", CHN[ch], l->name, ch + 1, evmask);
                }
        /* (3b) the event must come after the change it announces: the page a handler fetches when the last event of the
         * letter for a channel arrives is the page as it is after the letter (anything else is a change without an event behind it) */
        for (int ch = 0; ch < 8 && !bad; ch++)
                if ((evmask & (1u << ch)) && memcmp(ev_pg[ch], now_pg[ch], sizeof now_pg[ch])) {
                        int r = 0; for (r = 0; r < 15; r++) if (memcmp(&now_pg[ch][r * PCOLS], &ev_pg[ch][r * PCOLS], PCOLS * sizeof(vbi_char))) break;
                        char was[40], is[40]; row_str(was, sizeof was, &ev_pg[ch][r * PCOLS]); row_str(is, sizeof is, &now_pg[ch][r * PCOLS]);
                        char key[200]; snprintf(key, sizeof key, "caption event raised before the change: page fetched in the handler of the last event differs from the page after the pair; %s in %s",
                                                LCN[agg.cls], ch == t ? MODEN[agg.mode_before] : "another channel");
                        report(key, "page of %s during letter '%s': row %d in the handler [%s], after the pair [%s]", CHN[ch], l->name, r + 1, was, is);
                }
        /* (1) frame condition */
        for (int ch = 0; ch < 8 && !bad; ch++)
                if (ch != t && (changed & (1u << ch)) && !(agg.exempt & (1u << ch))) {
                        /* the only legitimate change of a channel the letter does not address: text the standard
                         * displayed long ago reaches the page now (the decoder renders per word and flushes the
                         * channel it leaves) - the page must then be the model's displayed memory */
                        int fr, fk;
                        if (!mem_diff(MOD.ch[ch].D, now_pg[ch], is_textch(ch), &fr, &fk)) { mc_count("late_flush_of_unaddressed_channel", 1); continue; }
                        int r = 0; for (r = 0; r < 15; r++) if (memcmp(&now_pg[ch][r * PCOLS], &prev_pg[ch][r * PCOLS], PCOLS * sizeof(vbi_char))) break;
                        char was[40], is[40]; row_str(was, sizeof was, &prev_pg[ch][r * PCOLS]); row_str(is, sizeof is, &now_pg[ch][r * PCOLS]);
                        char key[200];
                        const char *rel = t < 0 ? "no channel" : (t ^ ch) == 4 ? "the text/caption twin of the channel shown" : ((t ^ ch) & 2) ? "a channel of the other field" : "another channel of the same field";
                        snprintf(key, sizeof key, "%s addressed to %s changed the page of the channel shown", cls_group(agg.cls), rel);
                        report(key, "letter '%s' addresses %s (mode %s) but the page of %s changed: row %d was [%s] is [%s]", l->name, t < 0 ? "no channel" : CHN[t], MODEN[agg.mode_before], CHN[ch], r + 1, was, is);
                }
        /* attribution */
        if (!agg.prune) peek_suspect(t, &agg);
        if (!bad) note_outcome(&agg);
        /* (2a) between comparison points: a row of the addressed page that changes must change to the displayed
         * memory of the standard (the decoder copies whole rows when it renders) */
        if (!bad && t >= 0 && !agg.cmp && !agg.prune && !agg.midflush && (changed & (1u << t)))
                for (int r = 0; r < 15 && !bad; r++) {
                        if (!memcmp(&now_pg[t][r * PCOLS + 1], &prev_pg[t][r * PCOLS + 1], 32 * sizeof(vbi_char))) continue;
                        for (int k = 0; k < 32; k++) {
                                const char *d = cell_diff(MOD.ch[t].D[r], k, now_pg[t][r * PCOLS + 1 + k], is_textch(t));
                                if (!d) continue;
                                char key[240], is[40], want[40], was[40];
                                make_key(key, sizeof key, &agg, d);
                                row_str(is, sizeof is, &now_pg[t][r * PCOLS]); row_str(was, sizeof was, &prev_pg[t][r * PCOLS]); mrow_str(want, sizeof want, MOD.ch[t].D[r]);
                                report(key, "%s page row %d changed during '%s' (mode %s) from [%s] to [%s], standard [%s]: column %d %s", CHN[t], r + 1, l->name, MODEN[agg.mode_before], was, is, want, k + 1, d);
                                break;
                        }
                }
        /* (2) visible page against the displayed memory */
        if (!bad && t >= 0 && agg.cmp && !agg.prune) {
                int r, k; const char *d = mem_diff(MOD.ch[t].D, now_pg[t], is_textch(t), &r, &k);
                if (d) {
                        char key[240], is[40], want[40];
                        make_key(key, sizeof key, &agg, d);
                        row_str(is, sizeof is, &now_pg[t][r * PCOLS]); mrow_str(want, sizeof want, MOD.ch[t].D[r]);
                        vbi_char a = now_pg[t][r * PCOLS + 1 + k]; const Cell *mc = &MOD.ch[t].D[r][k];
                        report(key, "%s page after '%s' (mode %s -> %s): row %d column %d %s; page row [%s], standard [%s]; cell U+%04X op=%d fg=%d bg=%d ul=%d it=%d fl=%d, standard U+%04X op=%d fg=%d bg=%d ul=%d it=%d fl=%d undef=%x",
                               CHN[t], l->name, MODEN[agg.mode_before], MODEN[MOD.ch[t].mode], r + 1, k + 1, d, is, want,
                               a.unicode, a.opacity, a.foreground, a.background, a.underline, a.italic, a.flash,
                               mc->uc, mc->kind ? mc->op : 0, mc->fg, mc->bg, !!(mc->at & A_UL), !!(mc->at & A_IT), !!(mc->at & A_FL), mc->ua);
                }
                mc_count("page_comparisons", 1);
        }
        memcpy(prev_pg, now_pg, sizeof prev_pg);
        return agg.prune;
}

static void hash_state(uint64_t out[2])
{
        mc_hash h; mc_hash_init(&h);
        struct caption *cc = &DEC->cc;
        for (int i = 0; i < 8; i++) {
                cc_channel *c = &cc->channel[i];
                int v[10] = { c->mode, c->col, c->col1, c->row, c->row1, c->roll, c->nul_ct > 4 ? 4 : c->nul_ct, (int)(c->line - c->pg[c->hidden].text), 0, 0 };
                mc_hash_add(&h, v, sizeof v);
                mc_hash_add(&h, &c->attr, sizeof c->attr);
                for (int p = 0; p < 2; p++) {
                        const vbi_char *t = c->pg[p ? c->hidden : c->hidden ^ 1].text;
                        const vbi_char blank = cc->transp_space[i >= 4];
                        for (int k = 0; k < 15 * PCOLS; k++) if (memcmp(&t[k], &blank, sizeof blank)) { int pos = p * 1000 + k; mc_hash_add(&h, &pos, sizeof pos); mc_hash_add(&h, &t[k], sizeof t[k]); }
                }
        }
        int g[3] = { cc->last[0], cc->last[1], cc->xds };
        mc_hash_add(&h, g, sizeof g);
        mc_hash_add(&h, &cc->curr_chan, sizeof cc->curr_chan);    /* int, or int[2] once per field */
        /* model */
        mc_hash_add(&h, MOD.cur, sizeof MOD.cur); mc_hash_add(&h, MOD.last, sizeof MOD.last);
        for (int i = 0; i < 8; i++) {
                MCh *c = &MOD.ch[i];
                int v[7] = { c->mode, c->row, c->col, c->full, c->cur_def, c->depth, c->base };
                mc_hash_add(&h, v, sizeof v); mc_hash_add(&h, &c->pen, sizeof c->pen);
                Cell *mems[3] = { &c->D[0][0], &c->N[0][0], &c->W[0][0] };
                for (int p = 0; p < 3; p++) for (int k = 0; k < 480; k++) if (mems[p][k].kind || mems[p][k].uall || mems[p][k].lx) { int pos = p * 1000 + k; mc_hash_add(&h, &pos, sizeof pos); mc_hash_add(&h, &mems[p][k], sizeof(Cell)); }
        }
        out[0] = h.a; out[1] = h.b;
}

static int audit_all;
static void snapshot_pages(void)
{
        for (int ch = 0; ch < 8; ch++) { vbi_fetch_cc_page(DEC, &fetched, ch + 1, TRUE); memcpy(prev_pg[ch], fetched.text, sizeof prev_pg[ch]); }
}

static int run(const uint8_t *hist, int n, uint64_t hash[2], void *arg)
{
        PH = arg;
        bad = 0; cur_hist = hist; cur_n = n;
        memset(&suspect, 0, sizeof suspect);
        mc_case("caption decoder", "n=%d", n);
        dec_reset();
        model_init(&MOD);
        /* every proper prefix of an expanded history was audited when it was the history itself: audit the
         * last letter only (the prefix letters of the phase at n == 0; everything when replaying) */
        int all = mc_replaying || audit_all;
        snapshot_pages();
        int prune = 0;
        for (int i = 0; i < PH->npre && !prune && !bad; i++) { if (all || n == 0) snapshot_pages(); prune = do_letter(&PH->pre[i], all || n == 0); }
        if (prune || (bad && n == 0 && PH->npre)) { fprintf(stderr, "C08: phase %s: prefix is cut or violates (%s)\n", PH->name, PRN[prune]); if (!bad) exit(42); }
        for (int i = 0; i < n && !bad && !prune; i++) {
                if (hist[i] >= PH->nl) { hash[0] = 0xC08DEAD; hash[1] = 2; return 1; }
                int au = all || i == n - 1;
                if (au) snapshot_pages();
                prune = do_letter(&PH->l[hist[i]], au);
        }
        mc_count("evaluations", 1);
        if (prune) { mc_count(PRN[prune], 1); hash[0] = 0xC08DEAD; hash[1] = 1; return 1; }
        hash_state(hash);
        if (n > 0) mc_distinct(hash[0] ^ (hash[1] * 0x9E3779B97F4A7C15ull));
        return bad ? 1 : 0;
}

static const char *letter_name(int l, void *arg) { const Phase *p = arg; return l < p->nl ? p->l[l].name : "?"; }

/* ======================================================================= phases */

#define ADD(ph, L) do { if ((ph)->nl >= MAXL) { fprintf(stderr, "C08: alphabet overflow\n"); exit(42); } (ph)->l[(ph)->nl++] = (L); } while (0)

static Phase PHASES[16]; static int NPH;

static void add_channel_full(Phase *p, int f, int b, int n)
{
        ADD(p, L_pac(f, b, n, 15, 0, 0, 0)); ADD(p, L_pac(f, b, n, 15, 4, 0, 1)); ADD(p, L_pac(f, b, n, 15, -1, 1, 0)); ADD(p, L_pac(f, b, n, 15, 28, 0, 0));
        ADD(p, L_pac(f, b, n, 14, 0, 0, 0)); ADD(p, L_pac(f, b, n, 1, 0, 0, 0)); ADD(p, L_pac(f, b, n, 2, -1, 7, 1)); ADD(p, L_pac(f, b, n, 11, 28, 0, 0));
        ADD(p, L_mid(f, b, n, 1, 0)); ADD(p, L_mid(f, b, n, 7, 1));
        static const int misc[] = { RCL, BS, DER, RU2, RU3, RU4, FON, RDC, TR, RTD, EDM, CR, ENM, EOC };
        for (unsigned i = 0; i < sizeof misc / sizeof *misc; i++) ADD(p, L_misc(f, b, n, misc[i]));
        ADD(p, L_tab(f, b, n, 1)); ADD(p, L_tab(f, b, n, 3));
        ADD(p, L_spec(f, b, n, 7)); ADD(p, L_spec(f, b, n, 9));
        ADD(p, L_bao(f, b, n, 4, 1)); ADD(p, L_bt(f, b, n));
}
static void add_text(Phase *p, int f)
{
        ADD(p, L_text(f, 'a', 'b')); ADD(p, L_text(f, 'a', ' ')); ADD(p, L_text(f, 'c', 0)); ADD(p, L_text(f, 0, 0));
}

static void add_channel_small(Phase *p, int f, int b, int n)
{
        /* mode commands + the cursor moves that matter for interleaving */
        ADD(p, L_misc(f, b, n, RCL)); ADD(p, L_misc(f, b, n, RU2)); ADD(p, L_misc(f, b, n, RDC)); ADD(p, L_misc(f, b, n, EOC));
        ADD(p, L_misc(f, b, n, EDM)); ADD(p, L_misc(f, b, n, ENM)); ADD(p, L_misc(f, b, n, CR)); ADD(p, L_misc(f, b, n, RTD)); ADD(p, L_misc(f, b, n, TR));
        ADD(p, L_pac(f, b, n, 15, 0, 0, 0)); ADD(p, L_pac(f, b, n, 1, 4, 0, 1));
}
static Phase *new_phase(const char *name, int dq, int dt)
{
        Phase *p = &PHASES[NPH++]; p->name = name; p->depth[0] = dq; p->depth[1] = dt; return p;
}
#define PRE(ph, L) ((ph)->pre[(ph)->npre++] = (L))

static void build_phases(void)
{
        Phase *p;
        /* one caption channel on field 1, full command set, control pairs doubled; a few single transmissions */
        p = new_phase("cc1", 4, 5);
        add_channel_full(p, 0, 0, 2); add_text(p, 0);
        ADD(p, L_misc(0, 0, 1, CR)); ADD(p, L_misc(0, 0, 1, BS)); ADD(p, L_misc(0, 0, 1, RU2)); ADD(p, L_mid(0, 0, 1, 1, 0)); ADD(p, L_pac(0, 0, 1, 15, 0, 0, 0));

        /* one caption channel on field 2 (CC4: channel bit 1), single transmissions: every pair is executed */
        p = new_phase("cc4-field2", 4, 5);
        add_channel_full(p, 1, 1, 1); add_text(p, 1);

        /* field 1, both data channels: CC1, CC2, T1, T2 interleaved */
        p = new_phase("field1-two-channels", 4, 6);
        add_channel_small(p, 0, 0, 2); add_channel_small(p, 0, 1, 2);
        ADD(p, L_text(0, 'a', 'b')); ADD(p, L_text(0, 'a', ' ')); ADD(p, L_text(0, 0, 0));

        /* both fields: CC1 / T1 on field 1, CC3 / CC4 / T3 / T4 on field 2 */
        p = new_phase("two-fields", 4, 5);
        add_channel_small(p, 0, 0, 2); add_channel_small(p, 1, 0, 1); add_channel_small(p, 1, 1, 1);
        ADD(p, L_text(0, 'a', 'b')); ADD(p, L_text(0, 'a', ' ')); ADD(p, L_text(1, 'x', 'y')); ADD(p, L_text(1, 'x', ' '));

        /* roll-up window near the top of the screen with two rows of text */
        p = new_phase("roll-up-window", 4, 5);
        PRE(p, L_misc(0, 0, 2, RU3)); PRE(p, L_pac(0, 0, 2, 2, 0, 0, 0)); PRE(p, L_text(0, 'a', ' ')); PRE(p, L_misc(0, 0, 2, CR)); PRE(p, L_text(0, 'b', ' '));
        ADD(p, L_misc(0, 0, 2, CR)); ADD(p, L_misc(0, 0, 1, CR)); ADD(p, L_misc(0, 0, 2, RU2)); ADD(p, L_misc(0, 0, 2, RU3)); ADD(p, L_misc(0, 0, 2, RU4));
        ADD(p, L_pac(0, 0, 2, 1, 0, 0, 0)); ADD(p, L_pac(0, 0, 2, 2, 4, 0, 1)); ADD(p, L_pac(0, 0, 2, 3, -1, 3, 0)); ADD(p, L_pac(0, 0, 2, 4, 0, 0, 0)); ADD(p, L_pac(0, 0, 2, 15, 0, 0, 0)); ADD(p, L_pac(0, 0, 2, 14, 28, 0, 0));
        ADD(p, L_misc(0, 0, 2, EDM)); ADD(p, L_misc(0, 0, 2, BS)); ADD(p, L_misc(0, 0, 2, DER)); ADD(p, L_tab(0, 0, 2, 2)); ADD(p, L_mid(0, 0, 2, 4, 1));
        ADD(p, L_misc(0, 0, 2, RCL)); ADD(p, L_misc(0, 0, 2, RDC)); ADD(p, L_misc(0, 0, 2, EOC));
        add_text(p, 0);

        /* pop-on with a caption on display and another one loaded */
        p = new_phase("pop-on-loaded", 4, 5);
        PRE(p, L_misc(0, 0, 2, RCL)); PRE(p, L_pac(0, 0, 2, 15, 0, 0, 0)); PRE(p, L_text(0, 'A', 'B')); PRE(p, L_misc(0, 0, 2, EOC));
        PRE(p, L_pac(0, 0, 2, 14, 4, 0, 0)); PRE(p, L_text(0, 'C', 'D'));
        ADD(p, L_misc(0, 0, 2, RCL)); ADD(p, L_misc(0, 0, 2, RDC)); ADD(p, L_misc(0, 0, 2, EOC)); ADD(p, L_misc(0, 0, 2, EDM)); ADD(p, L_misc(0, 0, 2, ENM));
        ADD(p, L_misc(0, 0, 2, RU2)); ADD(p, L_misc(0, 0, 2, CR)); ADD(p, L_misc(0, 0, 2, BS)); ADD(p, L_misc(0, 0, 2, DER)); ADD(p, L_misc(0, 0, 2, FON));
        ADD(p, L_pac(0, 0, 2, 15, 0, 0, 0)); ADD(p, L_pac(0, 0, 2, 15, 4, 0, 0)); ADD(p, L_pac(0, 0, 2, 14, 0, 0, 1)); ADD(p, L_pac(0, 0, 2, 14, 8, 0, 0)); ADD(p, L_pac(0, 0, 2, 13, -1, 5, 0));
        ADD(p, L_tab(0, 0, 2, 1)); ADD(p, L_tab(0, 0, 2, 2)); ADD(p, L_mid(0, 0, 2, 2, 0)); ADD(p, L_mid(0, 0, 2, 7, 0)); ADD(p, L_spec(0, 0, 2, 9));
        add_text(p, 0);

        /* the right margin: cursor in columns 29..32 */
        p = new_phase("column-32", 4, 5);
        PRE(p, L_misc(0, 0, 2, RU2)); PRE(p, L_pac(0, 0, 2, 15, 28, 0, 0)); PRE(p, L_text(0, 'a', 'b'));
        ADD(p, L_text(0, 'c', 'd')); ADD(p, L_text(0, 'e', ' ')); ADD(p, L_text(0, 'f', 0)); ADD(p, L_text(0, 0, 0));
        ADD(p, L_misc(0, 0, 2, BS)); ADD(p, L_misc(0, 0, 2, DER)); ADD(p, L_misc(0, 0, 2, CR)); ADD(p, L_misc(0, 0, 2, FON)); ADD(p, L_misc(0, 0, 2, RCL)); ADD(p, L_misc(0, 0, 2, RDC)); ADD(p, L_misc(0, 0, 2, EOC));
        ADD(p, L_tab(0, 0, 2, 1)); ADD(p, L_tab(0, 0, 2, 3)); ADD(p, L_mid(0, 0, 2, 1, 1)); ADD(p, L_spec(0, 0, 2, 7)); ADD(p, L_spec(0, 0, 2, 9));
        ADD(p, L_pac(0, 0, 2, 15, 28, 0, 0)); ADD(p, L_pac(0, 0, 2, 15, 24, 0, 0)); ADD(p, L_pac(0, 0, 2, 14, 28, 0, 0));

        /* field 1 and field 2 interleaved frame by frame: field 1 control codes as SINGLE transmissions, so that a history
         * "f1 CR ; f2 <control code> ; f1 CR" is a code, a field 2 code in the frame between, and the code's redundant copy
         * (47 CFR 15.119 (i): executed once - the repeat window belongs to field 1 alone) */
        p = new_phase("fields-interleaved", 4, 5);
        PRE(p, L_misc(0, 0, 2, RU2)); PRE(p, L_pac(0, 0, 2, 15, 0, 0, 0)); PRE(p, L_text(0, 'a', ' ')); PRE(p, L_misc(0, 0, 2, CR)); PRE(p, L_text(0, 'b', ' '));
        PRE(p, L_misc(1, 0, 1, RU2));
        ADD(p, L_misc(0, 0, 1, CR)); ADD(p, L_misc(0, 0, 1, BS)); ADD(p, L_misc(0, 0, 1, EOC)); ADD(p, L_tab(0, 0, 1, 1)); ADD(p, L_mid(0, 0, 1, 1, 0)); ADD(p, L_misc(0, 0, 1, RCL));
        ADD(p, L_misc(1, 0, 1, CR)); ADD(p, L_misc(1, 0, 1, RU3)); ADD(p, L_pac(1, 0, 1, 14, 0, 0, 0)); ADD(p, L_misc(1, 1, 1, RCL));
        ADD(p, L_text(0, 'c', ' ')); ADD(p, L_text(1, 'x', ' ')); ADD(p, L_text(0, 0, 0)); ADD(p, L_text(1, 0, 0));

        /* text channel with the caption channel of the same data channel */
        p = new_phase("text-t1", 4, 6);
        ADD(p, L_misc(0, 0, 2, RTD)); ADD(p, L_misc(0, 0, 2, TR)); ADD(p, L_misc(0, 0, 2, CR)); ADD(p, L_misc(0, 0, 1, CR)); ADD(p, L_misc(0, 0, 2, BS)); ADD(p, L_misc(0, 0, 2, DER));
        ADD(p, L_misc(0, 0, 2, FON)); ADD(p, L_misc(0, 0, 2, EDM)); ADD(p, L_misc(0, 0, 2, ENM)); ADD(p, L_misc(0, 0, 2, RCL)); ADD(p, L_misc(0, 0, 2, RU2)); ADD(p, L_misc(0, 0, 2, EOC));
        ADD(p, L_pac(0, 0, 2, 15, 0, 0, 0)); ADD(p, L_pac(0, 0, 2, 1, 4, 0, 1)); ADD(p, L_pac(0, 0, 2, 7, -1, 2, 0)); ADD(p, L_pac(0, 0, 2, 15, 28, 0, 0));
        ADD(p, L_tab(0, 0, 2, 2)); ADD(p, L_mid(0, 0, 2, 5, 0)); ADD(p, L_mid(0, 0, 2, 7, 1)); ADD(p, L_spec(0, 0, 2, 0)); ADD(p, L_spec(0, 0, 2, 9));
        add_text(p, 0);
}

/* ======================================================================= character set (flat) */

static void charset_case(uint64_t idx, void *arg)
{
        /* idx: mode (0 pop-on, 1 roll-up, 2 text) x field x 14 chunks of 8 codes: 0x20..0x7F basic, then 0x30..0x3F special */
        int chunk = idx % 14, f = (idx / 14) % 2, mode = idx / 28;
        static Phase dummy; PH = &dummy; dummy.name = "charset";
        bad = 0; cur_hist = NULL; cur_n = 0; memset(&suspect, 0, sizeof suspect);
        mc_case("character set", "mode=%d field=%d chunk=%d", mode, f + 1, chunk);
        dec_reset(); model_init(&MOD);
        snapshot_pages();
        Letter seq[16]; int n = 0;
        seq[n++] = L_misc(f, 0, 2 - f, mode == 0 ? RCL : mode == 1 ? RU2 : RTD);
        seq[n++] = L_pac(f, 0, 2 - f, 15, 4, 0, 0);
        for (int i = 0; i < 8; i += (chunk < 12 ? 2 : 1)) {
                if (chunk < 12) seq[n++] = L_text(f, 0x20 + chunk * 8 + i, 0x20 + chunk * 8 + i + 1);
                else seq[n++] = L_spec(f, 0, 2 - f, (chunk - 12) * 8 + i);
        }
        seq[n++] = L_text(f, ' ', 0);
        if (mode == 0) seq[n++] = L_misc(f, 0, 2 - f, EOC);
        for (int i = 0; i < n && !bad; i++) if (do_letter(&seq[i], 1)) { fprintf(stderr, "C08: charset sequence cut\n"); exit(42); }
        mc_count("evaluations", 1);
        mc_distinct(0xC5000000ull + idx);
}

/* ======================================================================= main */

static void self_check(void)
{
        /* RU2 x2 ; 'a ' must show "a_" in row 15 of CC1 and raise an event; reached code is counted */
        static Phase ph; ph.name = "self";
        ph.nl = 0; ADD(&ph, L_misc(0, 0, 2, RU2)); ADD(&ph, L_text(0, 'a', ' '));
        static const uint8_t h[2] = { 0, 1 };
        uint64_t hash[2];
        n_events = 0; audit_all = 1;
        int rc = run(h, 2, hash, &ph);
        audit_all = 0;
        vbi_fetch_cc_page(DEC, &fetched, 1, TRUE);
        if (rc || bad || fetched.text[14 * PCOLS + 1].unicode != 'a' || fetched.text[14 * PCOLS + 2].unicode != ' ' || fetched.text[14 * PCOLS + 2].opacity != VBI_OPAQUE || !n_events
            || MOD.ch[0].D[14][0].uc != 'a') {
                fprintf(stderr, "C08: harness self check failed (rc=%d bad=%d events=%llu)\n", rc, bad, (unsigned long long) n_events);
                exit(2);
        }
}

int main(int argc, char **argv)
{
        mc_init(argc, argv, "C08");
        mc_set_budget(300, 840);
        mc_meta("level", "model_checking");
        mc_meta("technique", "explicit-state BFS over caption byte-pair histories fed through vbi_decode() into the real decoder; every fetched page audited against a reference display model written from 47 CFR 15.119 / EIA-608-B");
        build_phases();
        int tier = mc_tier == MC_THOROUGH;
        mc_meta("rule", "a case is a history of letters (byte pair on line 21 or 284, control pairs sent once or twice in successive frames) replayed through vbi_decode() on a re-initialised decoder and through the reference model; after the last letter all 8 pages are fetched: pages of channels the letter does not address must be unchanged (or have caught up with the model), the addressed page must equal the model's displayed memory at the points the property names, a changed page needs a VBI_EVENT_CAPTION; states are de-duplicated on the canonical hash of decoder state (modes, cursors, pen, both buffers of all channels, repeat latch, selected channels) + model state; distinct = distinct states reached by >= 1 letter");
        { char b[900]; size_t o = 0;
          for (int i = 0; i < NPH; i++) o += snprintf(b + o, sizeof b - o, "%s%s: %d letters, depth %d%s", i ? "; " : "", PHASES[i].name, PHASES[i].nl, PHASES[i].depth[tier], PHASES[i].npre ? " after a fixed prefix" : "");
          mc_meta("bound", "%s; character set: 96 basic + 16 special codes x {pop-on, roll-up, text} x {field 1, field 2}", b); }
        mc_meta("assume", "decoder traits mirrored as DESIGN.md C08 lists them: nothing is processed before the first mode command of a caption channel; RUx with unchanged depth is a no-op, with changed depth both memories are erased and the base row is 15; a PAC in roll-up mode erases both memories when the base row changes; EOC erases the new non-displayed memory; field 2 control codes are executed every time they are received; text mode uses a 15 row window");
        mc_meta("assume", "not compared (standard open or two readings): margin columns; a transparent cell that is or was next to a non-transparent one may hold an opaque space; foreground/underline/italic/flash of spaces; attributes of a character written next to a cell with other attributes or into existing text (608-B C.7); flash after PAC; pen after RUx from another mode and after CR in text mode; cursor after EOC and after RCL/RDC as first command; BS/DER with the cursor in column 32; the cells touched by and the cursor/background after a background attribute code");
        mc_meta("assume", "histories are cut (not continued, counted in cut_*) at a non mode-setting control code for the data channel not selected on its field, and where the state of the standard cannot be represented by the decoder's single working buffer per channel (non-displayed memory in pop-on mode = staging copy of the displayed row in paint-on/roll-up mode)");
        mc_meta("assume", "comparison points in paint-on/roll-up/text mode: pair ending in a space, mid-row code, PAC, CR (not paint-on), DER, mode commands, EDM, TR; in pop-on mode every letter (the displayed memory is static until EOC)");
        mc_meta("assume", "extended characters, XDS on field 2 and parity errors are outside the alphabet (C09, C01)");
        if (!mc_replaying) self_check();
        for (int i = 0; i < NPH; i++) {
                mc_bfs_spec spec; memset(&spec, 0, sizeof spec);
                spec.nletters = PHASES[i].nl; spec.max_depth = PHASES[i].depth[tier]; spec.timeout_s = 40;
                spec.run = run; spec.arg = &PHASES[i]; spec.letter_name = letter_name;
                mc_bfs_result res;
                mc_bfs(PHASES[i].name, &spec, &res);
        }
        mc_pool("charset", 3 * 2 * 14, charset_case, NULL, 40);
        return mc_finish();
}
