# value oracle at high volume (a fresh vbi_decoder per replayed history): uninstrumented `fast` library.
# Memory safety of the same code paths is the subject of C01.
VARIANT_C02 := fast
HDEPS_C02 := harness/C02.mk
