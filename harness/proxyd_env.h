/* proxyd_env.h - the proxy daemon (daemon/proxyd.c, unmodified) compiled into the
 * harness and closed by a deterministic, single threaded environment.
 *
 *  - `#include "daemon/proxyd.c"` with main renamed: the harness sees `proxy`,
 *    PROXY_CLNT, every static function.  No source hook in /repo is needed.
 *  - V4L is replaced by a scripted capture object (vbi_capture_v4l2_new is
 *    #defined to verif_capture_new): frame k carries k in its payloads; its fd
 *    is an eventfd (EFD_SEMAPHORE) the environment posts to when a frame is due.
 *  - Client connections are REAL AF_UNIX socketpairs: the wrapped accept() hands
 *    one end to the daemon, the client actor keeps the other, so recv/send
 *    semantics (partial reads, EAGAIN, EPIPE, EOF) are the kernel's.
 *  - select(), accept(), send(), time(), alarm() are wrapped at link time
 *    (HLINK: -Wl,--wrap=select,--wrap=accept,--wrap=send,--wrap=time,--wrap=alarm).
 *    EVERY select() CALL OF THE DAEMON IS THE SCHEDULING POINT: the wrapper polls
 *    what is really ready (zero timeout) and calls the harness hook
 *        int env_hook(int nready);
 *    which may perform environment events (env_connect, env_send…, env_frame,
 *    env_tick, env_fire_alarm …) and returns
 *        ENV_REPOLL  (1)  an event was performed, poll again and ask again
 *        ENV_RUN     (0)  return to the daemon now (only sensible if nready > 0)
 *        ENV_EXIT    (2)  leave the main loop (sets proxy.should_exit)
 *    Everything runs in one thread, so kernel socket-buffer state is a function
 *    of the event history and executions are deterministic.
 *
 * Usage:   #include "proxyd_env.h"     (exactly one TU)
 *          env_init(); env_hook_fn = my_hook; env_run(); env_shutdown();
 * env_init()/env_shutdown() may be repeated in one process (E1 re-executions).
 */
#ifndef VERIF_PROXYD_ENV_H
#define VERIF_PROXYD_ENV_H

#define _GNU_SOURCE
#include <sys/eventfd.h>
#include <sys/socket.h>
#include <sys/select.h>
#include <sys/un.h>
#include <arpa/inet.h>

/* ---- sequentialised acquisition thread ---------------------------------------
 * For devices without select() support the daemon starts vbi_proxyd_acq_thread(): a loop of
 *      vbi_proxyd_forward_data(dev_idx);  write(wr_fd, byte_buf, 1);
 * that blocks in the capture read.  In this single threaded environment the thread is not
 * started; one iteration of that loop body is the environment event env_acq_iteration(),
 * enabled while a captured frame is waiting (the read would return).  So the daemon's own
 * thread handling (start handshake, pipe wake-up, queue hand-over under its mutexes, stop by
 * cancellation + cleanup handler) runs for real, with the thread's steps interleaved with the
 * main loop at the granularity of select() calls; interleavings inside one main loop round and
 * inside one iteration are NOT explored (that would need the E3 scheduler with condition
 * variables and cancellation).  pthread_create/cancel/join and the two condition waits of
 * daemon/proxyd.c are redirected here by macro; everything else is the daemon's code. */
#include <pthread.h>
static struct { int started, cancelled; void *arg; long iterations; } env_thr;
static void vbi_proxyd_acq_thread_cleanup(void *pvoid_arg);
static void env_thr_mark_active(void *arg);
static int env_pthread_create(pthread_t *t, const pthread_attr_t *a, void *(*fn)(void *), void *arg)
{
        (void) a; (void) fn;
        memset(t, 0, sizeof *t);
        env_thr.started = 1; env_thr.cancelled = 0; env_thr.arg = arg;
        env_thr_mark_active(arg);             /* first statement of the thread: thread_active = TRUE, then it signals start_cond */
        return 0;
}
static int env_cond_wait(pthread_cond_t *c, pthread_mutex_t *m) { (void) c; (void) m; return 0; }      /* the signal has been sent */
static int env_pthread_cancel(pthread_t t) { (void) t; env_thr.cancelled = 1; return 0; }
static int env_cond_timedwait(pthread_cond_t *c, pthread_mutex_t *m, const struct timespec *ts)
{
        (void) c; (void) ts;
        /* the thread is blocked in the capture read (a cancellation point): deferred cancellation acts now, the
         * cleanup handler runs in the thread while the master waits with the mutex released */
        if (env_thr.started && env_thr.cancelled) {
                pthread_mutex_unlock(m);
                vbi_proxyd_acq_thread_cleanup(env_thr.arg);
                pthread_mutex_lock(m);
                env_thr.started = 0;
        }
        return 0;
}
static int env_pthread_join(pthread_t t, void **r) { (void) t; if (r) *r = NULL; return 0; }
#define pthread_create        env_pthread_create
#define pthread_cancel        env_pthread_cancel
#define pthread_join          env_pthread_join
#define pthread_cond_wait     env_cond_wait
#define pthread_cond_timedwait env_cond_timedwait

#define main zvbid_main
#define vbi_capture_v4l2_new verif_capture_new
#define vbi_capture_v4l_new  verif_capture_v4l_new
#include "daemon/proxyd.c"
#undef main
#undef vbi_capture_v4l2_new
#undef vbi_capture_v4l_new
#undef pthread_create
#undef pthread_cancel
#undef pthread_join
#undef pthread_cond_wait
#undef pthread_cond_timedwait

static void env_thr_mark_active(void *arg) { proxy.dev[PVOID2INT(arg)].thread_active = TRUE; }

#define ENV_RUN    0
#define ENV_REPOLL 1
#define ENV_EXIT   2

#define ENV_MAX_CLIENTS 4
#define ENV_MAX_FRAMES  64
#define ENV_FRAME_LINES 6
#define ENV_FRAME_MAXLINES 24      /* big frames (conformance runs): 20 Teletext lines + VPS + Caption + WSS = 23 */
#define ENV_MAX_LOG     256

/* ---- capture model ------------------------------------------------------- */

/* services the simulated device can deliver */
#define ENV_DEV_SERVICES (VBI_SLICED_TELETEXT_B | VBI_SLICED_VPS | VBI_SLICED_CAPTION_625 | VBI_SLICED_WSS_625)

typedef struct {
        double     timestamp;
        int        nlines;
        vbi_sliced lines[ENV_FRAME_MAXLINES];
} env_frame_t;

struct env_capture {
        vbi_capture     cap;            /* must be first */
        vbi_raw_decoder dec;
};

static struct {
        int          efd;               /* capture fd, -1 when closed */
        int          is_open, opens, closes, flushes, reads, empty_reads;
        unsigned int services_union;    /* accumulated by update_services since last reset */
        unsigned int last_commit_union; /* union at the last commit */
        int          update_calls;
        int          use_thread;        /* 1: get_fd_flags() reports no select() support */
        int          fail_open;         /* 1: device cannot be opened */
        int          produced;          /* frames posted by the environment */
        int          consumed;          /* frames handed to the daemon */
        env_frame_t  frame[ENV_MAX_FRAMES];
        /* for each consumed frame: was the device open, who was subscribed … filled by the harness if wanted */
} env_cap;

static int    env_passthrough;           /* 1: real select()/send()/time(): the daemon runs as a separate process (conformance runs) */
static void (*env_on_capture)(int k);    /* called when the daemon reads frame k from the capture object */
static unsigned env_buffer_count = 0;    /* daemon option -buffers (0: default) */
static int env_big_frames;       /* 1: 23 lines per frame, so that a SLICED_IND for a Teletext subscriber is larger than every other message */
static void env_make_frame(int k, env_frame_t *f)
{
        static const struct { unsigned id; int line; } L[ENV_FRAME_LINES] = {
                { VBI_SLICED_TELETEXT_B, 7 }, { VBI_SLICED_TELETEXT_B, 8 }, { VBI_SLICED_VPS, 16 },
                { VBI_SLICED_CAPTION_625, 22 }, { VBI_SLICED_WSS_625, 23 }, { VBI_SLICED_TELETEXT_B, 320 },
        };
        memset(f, 0, sizeof *f);
        f->timestamp = 1000.0 + k * 0.04;
        if (env_big_frames) {
                int n = 0;
                for (int l = 7; l <= 23; l++) { f->lines[n].id = l == 16 ? VBI_SLICED_VPS : l == 22 ? VBI_SLICED_CAPTION_625 : l == 23 ? VBI_SLICED_WSS_625 : VBI_SLICED_TELETEXT_B; f->lines[n++].line = l; }
                for (int l = 320; l <= 325; l++) { f->lines[n].id = VBI_SLICED_TELETEXT_B; f->lines[n++].line = l; }
                f->nlines = n;
        } else {
                f->nlines = ENV_FRAME_LINES;
                for (int i = 0; i < ENV_FRAME_LINES; i++) { f->lines[i].id = L[i].id; f->lines[i].line = L[i].line; }
        }
        for (int i = 0; i < f->nlines; i++) {
                for (int b = 0; b < 56; b++) f->lines[i].data[b] = (uint8_t)(k * 7 + i * 31 + b);
                f->lines[i].data[0] = (uint8_t) k; f->lines[i].data[1] = (uint8_t) i;
        }
}

static int cap_read(vbi_capture *c, vbi_capture_buffer **raw, vbi_capture_buffer **sliced, const struct timeval *tv)
{
        uint64_t v;
        (void) c; (void) tv;
        env_cap.reads++;
        if (env_cap.efd < 0 || read(env_cap.efd, &v, 8) != 8) { env_cap.empty_reads++; return 0; }   /* timeout: no frame due */
        int k = env_cap.consumed++;
        env_frame_t *f = &env_cap.frame[k % ENV_MAX_FRAMES];
        if (env_passthrough) env_make_frame(k, f);       /* frames are posted by another process: content is a function of k */
        if (env_on_capture) env_on_capture(k);
        if (raw && *raw && (*raw)->data) { memset((*raw)->data, k, 64); (*raw)->size = 64; (*raw)->timestamp = f->timestamp; }
        if (sliced) {
                static vbi_capture_buffer own; static vbi_sliced own_lines[ENV_FRAME_MAXLINES];
                vbi_capture_buffer *b = *sliced;
                if (!b) { b = &own; b->data = own_lines; *sliced = b; }
                /* like a real driver the device decodes the services it was programmed for (the committed union), no others */
                int n = 0;
                for (int i = 0; i < f->nlines; i++)
                        if (f->lines[i].id & env_cap.last_commit_union) memcpy((vbi_sliced *) b->data + n++, &f->lines[i], sizeof(vbi_sliced));
                b->size = n * sizeof(vbi_sliced);
                b->timestamp = f->timestamp;
        }
        return 1;
}
/* the scan line ranges follow the programmed services as with a real driver (one spare line per field): the daemon
 * sizes its buffers and bounds every client's frames by them */
static void cap_set_ranges(vbi_capture *c)
{       /* in place, as the V4L drivers do it: the daemon keeps the pointer vbi_capture_parameters() returned once */
        vbi_raw_decoder *d = &((struct env_capture *) c)->dec;
        unsigned u = env_cap.services_union;
        d->count[0] = 1 + ((u & VBI_SLICED_TELETEXT_B) ? (env_big_frames ? 14 : 2) : 0) + !!(u & VBI_SLICED_VPS) + !!(u & VBI_SLICED_CAPTION_625) + !!(u & VBI_SLICED_WSS_625);
        d->count[1] = 1 + ((u & VBI_SLICED_TELETEXT_B) ? (env_big_frames ? 6 : 1) : 0);
}
static vbi_raw_decoder *cap_parameters(vbi_capture *c) { return &((struct env_capture *) c)->dec; }
static unsigned int cap_update_services(vbi_capture *c, vbi_bool reset, vbi_bool commit, unsigned int services, int strict, char **err)
{
        (void) c; (void) strict;
        env_cap.update_calls++;
        if (reset) env_cap.services_union = 0;
        unsigned got = services & ENV_DEV_SERVICES;
        env_cap.services_union |= got;
        cap_set_ranges(c);
        if (commit) env_cap.last_commit_union = env_cap.services_union;
        if (!got && err) *err = strdup("simulated device: service not supported");
        return got;
}
static int  cap_get_scanning(vbi_capture *c) { (void) c; return 625; }
static void cap_flush(vbi_capture *c) { (void) c; env_cap.flushes++; }
static int  cap_get_fd(vbi_capture *c) { (void) c; return env_cap.efd; }
static VBI_CAPTURE_FD_FLAGS cap_get_fd_flags(vbi_capture *c)
{
        (void) c;
        return env_cap.use_thread ? 0 : (VBI_FD_HAS_SELECT | VBI_FD_IS_DEVICE);
}
static void cap_delete(vbi_capture *c)
{
        env_cap.is_open = 0; env_cap.closes++;
        /* frames posted but not yet read stay "due": keep the eventfd (the real device keeps capturing too) */
        free(c);
}

vbi_capture *verif_capture_new(const char *dev_name, int buffers, unsigned int *services, int strict, char **errstr, vbi_bool trace)
{
        (void) dev_name; (void) buffers; (void) strict; (void) trace;
        if (env_cap.fail_open) { if (errstr) *errstr = strdup("simulated device: open failed"); return NULL; }
        struct env_capture *c = calloc(1, sizeof *c);
        c->cap.read = cap_read; c->cap.parameters = cap_parameters; c->cap.update_services = cap_update_services;
        c->cap.get_scanning = cap_get_scanning; c->cap.flush = cap_flush; c->cap.get_fd = cap_get_fd;
        c->cap.get_fd_flags = cap_get_fd_flags; c->cap._delete = cap_delete;
        c->dec.scanning = 625; c->dec.sampling_format = VBI_PIXFMT_YUV420; c->dec.sampling_rate = 13500000;
        c->dec.bytes_per_line = 1440; c->dec.offset = 128;
        c->dec.start[0] = 6; c->dec.count[0] = 1; c->dec.start[1] = 318; c->dec.count[1] = 1;
        c->dec.interlaced = FALSE; c->dec.synchronous = TRUE;
        env_cap.is_open = 1; env_cap.opens++;
        if (services) *services &= ENV_DEV_SERVICES;
        return &c->cap;
}
vbi_capture *verif_capture_v4l_new(const char *dev_name, int scanning, unsigned int *services, int strict, char **errstr, vbi_bool trace)
{
        (void) dev_name; (void) scanning; (void) services; (void) strict; (void) errstr; (void) trace;
        return NULL;
}

/* ---- client actors -------------------------------------------------------- */

typedef struct {
        uint32_t type, len;
        /* SLICED_IND */
        int      frame;                 /* frame number recovered from the payload, -1 if no lines */
        double   timestamp;
        int      nlines;
        uint32_t ids;                   /* OR of line ids */
        int      lines_ok;              /* every line equals the ledger's line of that frame */
        /* CONNECT_CNF / SERVICE_CNF */
        uint32_t services;
        /* TOKEN_CNF */
        int      token_ind;
        /* CHN_CHANGE_IND */
        uint32_t notify_flags;
} env_rxmsg;

typedef struct {
        int       fd;                   /* client end, -1 = not connected / closed by client */
        int       daemon_fd;            /* the daemon's end (its number identifies the PROXY_CLNT) */
        int       connect_pending;      /* connect posted, accept not yet called */
        int       eof;                  /* daemon closed its end (read returned 0 / ECONNRESET) */
        int       stalled;              /* 1: the client does not read and its receive buffer is full: the daemon's
                                           end is not writable and send() on it fails with EAGAIN */
        uint8_t   rx[1 << 17]; int rxlen;
        env_rxmsg log[ENV_MAX_LOG]; int nlog;
        long      rx_bytes, tx_bytes;
} env_client;

static env_client env_clnt[ENV_MAX_CLIENTS];
static int    env_listen_efd = -1;
static int    env_pending_accepts[ENV_MAX_CLIENTS], env_npending;
static time_t env_now;
static time_t env_alarm_at;              /* 0 = no alarm armed */
static int    env_send_cap;              /* > 0: wrapped send() accepts at most this many bytes (one shot) */
static int    env_send_eagain;           /* > 0: next send() fails with EAGAIN (one shot) */
static long   env_select_calls;
static uint8_t env_tap[8192]; static int env_tap_len; static int env_tap_on;   /* bytes the local process sent (real client library) */
static int    env_eintr_pending;         /* a signal was delivered: the next select() fails once with EINTR */
static long   env_send_calls, env_send_bytes;
int         (*env_hook_fn)(int nready);

static void env_die(const char *what)
{
        fprintf(stderr, "proxyd_env: HARNESS ERROR: %s (errno %d)\n", what, errno);
        _exit(42);
}

int     __real_select(int, fd_set *, fd_set *, fd_set *, struct timeval *);
int     __real_accept(int, struct sockaddr *, socklen_t *);
ssize_t __real_send(int, const void *, size_t, int);
time_t  __real_time(time_t *);

time_t __wrap_time(time_t *t) { if (env_passthrough) return __real_time(t); if (t) *t = env_now; return env_now; }
unsigned int __wrap_alarm(unsigned int secs)
{
        if (env_passthrough) return 0;
        unsigned int rest = env_alarm_at > env_now ? (unsigned int)(env_alarm_at - env_now) : 0;
        env_alarm_at = secs ? env_now + secs : 0;
        return rest;
}
ssize_t __wrap_send(int fd, const void *buf, size_t n, int flags)
{
        if (env_passthrough) {
                ssize_t r = __real_send(fd, buf, n, flags | MSG_NOSIGNAL);
                if (env_tap_on && r > 0 && env_tap_len + r <= (ssize_t) sizeof env_tap) { memcpy(env_tap + env_tap_len, buf, r); env_tap_len += r; }
                return r;
        }
        env_send_calls++;
        for (int c = 0; c < ENV_MAX_CLIENTS; c++)
                if (env_clnt[c].daemon_fd == fd && env_clnt[c].fd >= 0 && env_clnt[c].stalled) { errno = EAGAIN; return -1; }
        if (env_send_eagain > 0) { env_send_eagain = 0; errno = EAGAIN; return -1; }
        if (env_send_cap > 0 && n > (size_t) env_send_cap) { n = env_send_cap; }
        env_send_cap = 0;
        return __real_send(fd, buf, n, flags | MSG_NOSIGNAL);
}
int __wrap_accept(int lfd, struct sockaddr *sa, socklen_t *len)
{
        uint64_t v;
        if (lfd != env_listen_efd) return __real_accept(lfd, sa, len);
        if (env_npending == 0 || read(env_listen_efd, &v, 8) != 8) { errno = EAGAIN; return -1; }
        int c = env_pending_accepts[0];
        memmove(env_pending_accepts, env_pending_accepts + 1, --env_npending * sizeof(int));
        int sv[2];
        if (socketpair(AF_UNIX, SOCK_STREAM, 0, sv)) env_die("socketpair");
        int sz = 2048;        /* small buffers so that a stalled client blocks the daemon's writes quickly */
        setsockopt(sv[0], SOL_SOCKET, SO_SNDBUF, &sz, sizeof sz);
        setsockopt(sv[1], SOL_SOCKET, SO_RCVBUF, &sz, sizeof sz);
        fcntl(sv[1], F_SETFL, O_NONBLOCK);
        for (int o = 0; o < ENV_MAX_CLIENTS; o++) if (env_clnt[o].daemon_fd == sv[0]) env_clnt[o].daemon_fd = -1;   /* stale: fd number reused */
        env_clnt[c].fd = sv[1]; env_clnt[c].daemon_fd = sv[0]; env_clnt[c].connect_pending = 0; env_clnt[c].stalled = 0;
        if (sa && len && *len >= sizeof(sa_family_t)) { memset(sa, 0, *len); sa->sa_family = AF_UNIX; *len = sizeof(struct sockaddr_un); if (*len > 80) *len = 80; }
        return sv[0];
}

int __wrap_select(int n, fd_set *rd, fd_set *wr, fd_set *ex, struct timeval *tv)
{
        if (env_passthrough) return __real_select(n, rd, wr, ex, tv);
        for (;;) {
                fd_set r, w; struct timeval zero = { 0, 0 };
                FD_ZERO(&r); FD_ZERO(&w);
                if (rd) r = *rd;
                if (wr) w = *wr;
                int nready = __real_select(n, rd ? &r : NULL, wr ? &w : NULL, NULL, &zero);
                if (nready < 0) env_die("select");
                if (wr) for (int c = 0; c < ENV_MAX_CLIENTS; c++) {
                        int fd = env_clnt[c].daemon_fd;
                        if (fd >= 0 && fd < n && env_clnt[c].fd >= 0 && env_clnt[c].stalled && FD_ISSET(fd, &w)) { FD_CLR(fd, &w); nready--; }
                }
                env_select_calls++;
                int act = env_hook_fn ? env_hook_fn(nready) : ENV_EXIT;
                if (act == ENV_REPOLL) continue;
                if (act == ENV_EXIT) { proxy.should_exit = TRUE; errno = EINTR; return -1; }
                if (env_eintr_pending) { env_eintr_pending = 0; errno = EINTR; return -1; }
                if (nready == 0) {
                        /* nothing ready and the hook did nothing: the daemon would sleep forever */
                        proxy.should_exit = TRUE; errno = EINTR; return -1;
                }
                if (rd) *rd = r;
                if (wr) *wr = w;
                if (ex) FD_ZERO(ex);
                return nready;
        }
}

/* ---- environment events ---------------------------------------------------- */

static void env_connect(int c)
{
        uint64_t one = 1;
        if (env_clnt[c].fd >= 0 || env_clnt[c].connect_pending) return;
        env_clnt[c].connect_pending = 1; env_clnt[c].eof = 0; env_clnt[c].rxlen = 0;
        env_pending_accepts[env_npending++] = c;
        if (write(env_listen_efd, &one, 8) != 8) env_die("listen eventfd");
}

/* raw bytes to the daemon; returns the number accepted by the kernel */
static int env_send_raw(int c, const void *buf, size_t n)
{
        if (env_clnt[c].fd < 0) return -1;
        ssize_t r = __real_send(env_clnt[c].fd, buf, n, MSG_NOSIGNAL | MSG_DONTWAIT);
        if (r > 0) env_clnt[c].tx_bytes += r;
        return (int) r;
}

/* a well formed message: header in network byte order + body */
static size_t env_build_msg(uint8_t *out, uint32_t type, const void *body, size_t blen)
{
        VBIPROXY_MSG_HEADER h; h.len = htonl(sizeof h + blen); h.type = htonl(type);
        memcpy(out, &h, sizeof h); if (blen) memcpy(out + sizeof h, body, blen);
        return sizeof h + blen;
}
static int env_send_msg(int c, uint32_t type, const void *body, size_t blen)
{
        uint8_t buf[sizeof(VBIPROXY_MSG) + 64];
        if (blen > sizeof(VBIPROXY_MSG)) env_die("env_send_msg: body too large");
        size_t n = env_build_msg(buf, type, body, blen);
        return env_send_raw(c, buf, n);
}
static void env_fill_connect_req(VBIPROXY_CONNECT_REQ *q, const char *name, unsigned services, int strict, int buffers)
{
        memset(q, 0, sizeof *q);
        vbi_proxy_msg_fill_magics(&q->magics);
        snprintf((char *) q->client_name, sizeof q->client_name, "%s", name);
        q->pid = 4242; q->client_flags = 0; q->scanning = 625; q->buffer_count = buffers;
        q->services = services; q->strict = strict;
}

static void env_parse(env_client *cl)
{
        for (;;) {
                if (cl->rxlen < (int) sizeof(VBIPROXY_MSG_HEADER)) return;
                VBIPROXY_MSG_HEADER h; memcpy(&h, cl->rx, sizeof h);
                uint32_t len = ntohl(h.len), type = ntohl(h.type);
                if (len < sizeof h || len > sizeof cl->rx) { /* garbage from the daemon: record and stop */
                        if (cl->nlog < ENV_MAX_LOG) { env_rxmsg *m = &cl->log[cl->nlog++]; memset(m, 0, sizeof *m); m->type = 0xFFFFFFFF; m->len = len; }
                        cl->rxlen = 0; return;
                }
                if ((uint32_t) cl->rxlen < len) return;
                if (cl->nlog < ENV_MAX_LOG) {
                        env_rxmsg *m = &cl->log[cl->nlog++]; memset(m, 0, sizeof *m);
                        m->type = type; m->len = len; m->frame = -1;
                        const uint8_t *b = cl->rx + sizeof h; size_t bl = len - sizeof h;
                        if (type == MSG_TYPE_SLICED_IND && bl >= offsetof(VBIPROXY_SLICED_IND, u)) {
                                VBIPROXY_SLICED_IND si; memcpy(&si, b, offsetof(VBIPROXY_SLICED_IND, u));
                                m->timestamp = si.timestamp; m->nlines = si.sliced_lines; m->lines_ok = 1;
                                if (bl != VBIPROXY_SLICED_IND_SIZE(si.sliced_lines, si.raw_lines)) m->lines_ok = 0;
                                else for (uint32_t i = 0; i < si.sliced_lines; i++) {
                                        vbi_sliced s; memcpy(&s, b + offsetof(VBIPROXY_SLICED_IND, u) + i * sizeof s, sizeof s);
                                        m->ids |= s.id;
                                        int k = (int)((si.timestamp - 1000.0) / 0.04 + 0.5);
                                        m->frame = k;
                                        if (k < 0 || k >= env_cap.produced) { m->lines_ok = 0; continue; }
                                        const env_frame_t *f = &env_cap.frame[k % ENV_MAX_FRAMES];
                                        int found = 0;
                                        for (int j = 0; j < f->nlines; j++) if (!memcmp(&f->lines[j], &s, sizeof s)) found = 1;
                                        if (!found) m->lines_ok = 0;
                                }
                                if (si.sliced_lines == 0) m->frame = (int)((si.timestamp - 1000.0) / 0.04 + 0.5);
                        } else if (type == MSG_TYPE_CONNECT_CNF && bl >= sizeof(VBIPROXY_CONNECT_CNF)) {
                                VBIPROXY_CONNECT_CNF q; memcpy(&q, b, sizeof q); m->services = q.services;
                        } else if (type == MSG_TYPE_SERVICE_CNF && bl >= sizeof(VBIPROXY_SERVICE_CNF)) {
                                VBIPROXY_SERVICE_CNF q; memcpy(&q, b, sizeof q); m->services = q.services;
                        } else if (type == MSG_TYPE_CHN_TOKEN_CNF && bl >= sizeof(VBIPROXY_CHN_TOKEN_CNF)) {
                                VBIPROXY_CHN_TOKEN_CNF q; memcpy(&q, b, sizeof q); m->token_ind = q.token_ind;
                        } else if (type == MSG_TYPE_CHN_CHANGE_IND && bl >= sizeof(VBIPROXY_CHN_CHANGE_IND)) {
                                VBIPROXY_CHN_CHANGE_IND q; memcpy(&q, b, sizeof q); m->notify_flags = q.notify_flags;
                        }
                }
                memmove(cl->rx, cl->rx + len, cl->rxlen - len); cl->rxlen -= len;
        }
}

/* drain up to max bytes (max < 0: everything available) from the client's socket; returns bytes read */
static int env_read(int c, int max)
{
        env_client *cl = &env_clnt[c]; int total = 0;
        if (cl->fd < 0) return 0;
        for (;;) {
                int room = (int) sizeof cl->rx - cl->rxlen;
                if (max >= 0 && room > max - total) room = max - total;
                if (room <= 0) break;
                ssize_t r = recv(cl->fd, cl->rx + cl->rxlen, room, MSG_DONTWAIT);
                if (r > 0) { cl->rxlen += r; total += r; cl->rx_bytes += r; env_parse(cl); continue; }
                if (r == 0 || (r < 0 && errno != EAGAIN && errno != EINTR)) cl->eof = 1;
                break;
        }
        return total;
}
/* bytes waiting in the client's socket (0 if none) */
static int env_readable(int c)
{
        int n = 0;
        if (env_clnt[c].fd < 0) return 0;
        if (ioctl(env_clnt[c].fd, FIONREAD, &n)) return 0;
        return n;
}
static void env_close(int c)
{
        if (env_clnt[c].fd >= 0) { close(env_clnt[c].fd); env_clnt[c].fd = -1; }
}
/* the capture device has one more frame ready; a closed device captures nothing (returns 0) */
static int env_frame(void)
{
        uint64_t one = 1;
        if (!env_cap.is_open) return 0;
        int k = env_cap.produced++;
        env_make_frame(k, &env_cap.frame[k % ENV_MAX_FRAMES]);
        if (write(env_cap.efd, &one, 8) != 8) env_die("capture eventfd");
        return 1;
}
static void env_tick(int secs) { env_now += secs; }
static int  env_alarm_due(void) { return env_alarm_at && env_now >= env_alarm_at; }
static void env_fire_alarm(void) { env_alarm_at = 0; vbi_proxyd_alarm_handler(SIGALRM); env_eintr_pending = 1; }

/* the daemon's record of client c, or NULL (matched by the daemon side fd) */
static PROXY_CLNT *env_req(int c)
{
        for (PROXY_CLNT *r = proxy.p_clnts; r; r = r->p_next)
                if (r->io.sock_fd == env_clnt[c].daemon_fd && env_clnt[c].daemon_fd >= 0) return r;
        return NULL;
}

/* one iteration of the acquisition thread's loop (see the top of this file); enabled while the thread exists and a
 * frame is waiting in the capture object */
static int env_acq_enabled(void) { return env_thr.started && !env_thr.cancelled && env_cap.is_open && env_cap.produced > env_cap.consumed; }
static void env_acq_iteration(void)
{
        char byte_buf[1] = { 0 };
        int dev_idx = PVOID2INT(env_thr.arg);
        vbi_proxyd_forward_data(dev_idx);
        ssize_t ret = write(proxy.dev[dev_idx].wr_fd, byte_buf, 1);
        (void) ret;
        env_thr.iterations++;
}

/* ---- life cycle -------------------------------------------------------------- */

static void env_init(void)
{
        memset(&proxy, 0, sizeof proxy);
        proxy.tcp_ip_fd = -1;
        pthread_mutex_init(&proxy.clnt_mutex, NULL);
        opt_debug_level = getenv("PROXYD_DEBUG") ? atoi(getenv("PROXYD_DEBUG")) : 0; opt_max_clients = DEFAULT_MAX_CLIENTS; opt_buffer_count = env_buffer_count ? env_buffer_count : DEFAULT_BUFFER_COUNT;
        vbi_proxy_msg_set_debug_level(0);
        vbi_proxy_msg_set_logging(FALSE, 0, 0, NULL);
        struct sigaction act; memset(&act, 0, sizeof act); act.sa_handler = SIG_IGN; sigaction(SIGPIPE, &act, NULL);
        vbi_proxyd_set_max_conn(opt_max_clients);
        int use_thread = env_cap.use_thread, fail_open = env_cap.fail_open;
        memset(&env_cap, 0, sizeof env_cap);
        env_cap.use_thread = use_thread; env_cap.fail_open = fail_open;
        env_cap.efd = eventfd(0, EFD_SEMAPHORE | EFD_NONBLOCK);
        env_listen_efd = eventfd(0, EFD_SEMAPHORE | EFD_NONBLOCK);
        if (env_cap.efd < 0 || env_listen_efd < 0) env_die("eventfd");
        memset(env_clnt, 0, sizeof env_clnt);
        for (int c = 0; c < ENV_MAX_CLIENTS; c++) { env_clnt[c].fd = -1; env_clnt[c].daemon_fd = -1; }
        env_npending = 0; env_now = 1000000; env_alarm_at = 0; env_send_cap = 0; env_send_eagain = 0; env_select_calls = 0; env_eintr_pending = 0;
        memset(&env_thr, 0, sizeof env_thr);
        vbi_proxyd_add_device("/dev/vbi-verif");
        proxy.dev[0].pipe_fd = env_listen_efd;
}

static void env_run(void) { proxy.should_exit = FALSE; vbi_proxyd_main_loop(); }

/* tears the daemon down the way main() does; afterwards nothing may be left open or allocated */
static void env_shutdown(void)
{
        proxy.dev[0].pipe_fd = -1;            /* not a real listening socket: do not unlink anything */
        vbi_proxyd_destroy();
        pthread_mutex_destroy(&proxy.clnt_mutex);
        for (int c = 0; c < ENV_MAX_CLIENTS; c++) env_close(c);
        if (env_cap.efd >= 0) close(env_cap.efd);
        if (env_listen_efd >= 0) close(env_listen_efd);
        env_cap.efd = env_listen_efd = -1;
}

#endif
