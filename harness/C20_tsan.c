/* free running ThreadSanitizer build of the C20 harness bodies */
#define C20_FREE 1
#include "C20.c"
