/* C06 - DVB VBI multiplexer output is standard-conformant and demultiplexes to
 * its input.
 *
 * Every execution drives the real multiplexer (vbi_dvb_mux_feed / _cor) with a
 * frame or a sequence of frames under one configuration and checks
 *  (1) the emitted bytes with an independent parser written from ISO 13818-1,
 *      EN 300 472 and EN 301 775 (C06_parse.h; nothing of the library is used
 *      there): TS header / PID / payload_unit_start / continuity, PES start
 *      code, stream_id, size N*184 within the configured bounds, 45 byte header
 *      with PTS (marker bits, value mod 2^33), data_identifier, data units of
 *      legal id and length that never cross the packet, 0x2C length with
 *      data_identifier 0x10..0x1F, stuffing 0xFF, line numbers ascending, and
 *      the parsed lines = the input lines (service, line, payload bits, raw
 *      samples and their position) in order;
 *  (2) the library demultiplexers (PES; TS with a leading stuffing packet, see
 *      ts_leader()) deliver the same lines, and each recognisable frame with
 *      its PTS (expectation model x_packet(): frames are separated by a
 *      non-increasing line number; frames with undefined line numbers are
 *      compared as a line sequence only; a frame without sliced lines leaves the
 *      PTS of the frame it is merged with undetermined);
 *  (3) a rejected frame: FALSE, no byte through callback / coroutine buffer,
 *      and a later frame that is legal by the documentation is accepted and
 *      encoded normally (continuity counter continues).
 *
 * The key of the field order rule ("field_parity goes back ...") carries the
 * class of the INPUT frame (field_order_class(), C06_run.h): the known cause
 * (undefined-line unit after a second-field raw line) and every other frame
 * have different keys.
 *
 * Phases: frames3 (every frame of <= 3 lines over 8 lines x 4 services, all
 * configurations), dense (every window of the full 33/32/35 line frames), raw
 * (1..720 samples x contexts), hist-* (E2 over frame sequences from a 14 letter
 * alphabet of accepted and rejected frames; state = canonical multiplexer state
 * + what the demultiplexer still holds), cor (E1 over coroutine buffer sizes),
 * misc (service id variants, masks, PTS values, PIDs), lowlevel-sliced /
 * lowlevel-raw (the public building blocks vbi_dvb_multiplex_sliced / _raw on
 * a caller buffer of every size of a menu, continued call by call; C06_low.h).
 *
 * Deviations from DESIGN.md C06:
 *  - raw lines: all lengths 1..720 instead of {1,251,252,720} (the interesting
 *    lengths depend on the fill level modulo 184, not on 251).
 *  - history alphabet has 14 letters (adds a raw line without sampling
 *    parameters and an undefined-line frame).
 *  - E1 buffer sizes: default = whole output, deviations 1, 4, 187, 188, 189;
 *    constant-size runs (every call the same size) are added because the
 *    deviation bound cannot reach "all calls 1 byte".
 *  - E2 states merge within one depth only: PTS and payloads of a frame depend
 *    on its position in the history (so that repeated letters stay
 *    distinguishable in the round trip).
 *  - thorough does not run the full product for 3-line frames either: all 120
 *    configurations, but one of the 5 PTS values per (frame, configuration).
 *  - phase raw runs each case in a forked child and resumes behind an
 *    execution that aborted (guarded() in C06_run.h): the unchanged tree aborts
 *    in encode_stuffing() for ~360 (quick) executions, which would otherwise
 *    end the phase after 40 crashing cases.
 *  - src/dvb_mux.c is included for struct _vbi_dvb_mux only (canonical state of
 *    the E2 search); no function or constant of it is used by the oracle.
 */
#include <stdio.h>
#include <stdlib.h>
#include <string.h>
#include <stddef.h>
#include <unistd.h>
#include "mc.h"
#include "src/dvb_mux.c"
#include "src/dvb_demux.h"
#include "C06_parse.h"
#include "C06_run.h"

/* Every execution allocates and frees a 64 KiB multiplexer and a 190 KiB demultiplexer; with the default 256 MiB
 * quarantine every one of them lands on fresh pages (a third of the run time was page faults).  16 MiB still keeps
 * a freed object poisoned for the next ~50 executions.  ASAN_OPTIONS of bin/check are applied on top. */
const char *__asan_default_options(void) { return "quarantine_size_mb=16"; }

/* ======================================================================== */
/* configurations                                                            */

static const unsigned DIDS[4]  = { 0x10, 0x1F, 0x99, 0x9B };
static const unsigned SIZES[4] = { 184, 368, 1472, 65504 };
static const int64_t  PTSS[5]  = { 0, 1, 0xFFFFFFFFll, 0x1FFFFFFFFll, 0x200000005ll };
static const struct { int ts; unsigned pid; } MODES[3] = { { 0, 0 }, { 1, 0x0010 }, { 1, 0x1FFE } };

#define NSIZEPAIRS 10
static void size_pair(int k, unsigned *mn, unsigned *mx)
{
        int q = 0;
        for (int a = 0; a < 4; a++) for (int b = a; b < 4; b++) if (q++ == k) { *mn = SIZES[a]; *mx = SIZES[b]; return; }
        h_die("size_pair");
}
/* full product: 4 data_identifiers x 10 size pairs x 3 modes = 120 (x 5 PTS) */
#define NCFG 120
static void cfg_of(int k, struct h_cfg *c)
{
        c->did = DIDS[k % 4]; k /= 4;
        size_pair(k % NSIZEPAIRS, &c->minsz, &c->maxsz); k /= NSIZEPAIRS;
        c->ts = MODES[k].ts; c->pid = MODES[k].pid;
}

static int full_tier(void) { return mc_tier == MC_THOROUGH || mc_replaying; }

static unsigned cor_whole(void *arg, int call) { return 70000; }

/* one frame, then the flushing frames, round trip */
static uint64_t single(const struct h_cfg *c, const struct h_frame *f, int iface)
{
        static struct run r;
        h_bad = 0;
        snprintf(CTX, sizeof CTX, "%s frame %s", cfg_str(c), frame_str(f));
        run_begin(&r, c);
        int a = run_frame(&r, f, iface, cor_whole, NULL, iface == IF_FEED ? "frame (feed)" : "frame (cor)");
        if (a == 0) mc_outcome("rejected: %s", reject_class(f, c));
        if (a >= 0) run_finish(&r);
        run_end(&r);
        return r.evals;
}

/* ======================================================================== */
/* phase frames3: every frame of <= 3 lines                                  */

static const unsigned A_LINES[8] = { 0, 7, 16, 21, 22, 23, 320, 335 };
static const uint32_t A_SVC[4] = { VBI_SLICED_TELETEXT_B, VBI_SLICED_VPS, VBI_SLICED_WSS_625, VBI_SLICED_CAPTION_625_F1 };
#define NFRAMES3 (1 + 32 + 32 * 32 + 32 * 32 * 32)

static void frame3_of(uint64_t idx, struct h_frame *f)
{
        int opt[3], n;
        if (idx == 0) n = 0;
        else if (idx < 33) { n = 1; opt[0] = idx - 1; }
        else if (idx < 33 + 1024) { n = 2; idx -= 33; opt[0] = idx / 32; opt[1] = idx % 32; }
        else { n = 3; idx -= 33 + 1024; opt[0] = idx / 1024; opt[1] = (idx / 32) % 32; opt[2] = idx % 32; }
        f_reset(f, 0);
        for (int i = 0; i < n; i++) f_add(f, A_SVC[opt[i] % 4], A_LINES[opt[i] / 4], i);
}

static void frames3_case(uint64_t idx, void *arg)
{
        struct h_frame f; frame3_of(idx, &f);
        uint64_t ev = 0; int full = f.n <= 2;
        for (int k = 0; k < NCFG; k++) {
                struct h_cfg c; cfg_of(k, &c);
                if (!full && !full_tier() && !(c.minsz == 184 && c.maxsz == 65504)) continue;   /* quick, 3 lines: default size only */
                for (int p = 0; p < 5; p++) {
                        if (!full && p != (int) ((idx + k) % 5)) continue;                       /* 3 lines: PTS rotates with frame and configuration */
                        f.pts = PTSS[p];
                        ev += single(&c, &f, IF_FEED);
                        if (h_bad) goto out;
                }
                mc_distinct(mc_hash64(&f, offsetof(struct h_frame, pts)) ^ (c.did * 0x9E3779B97F4A7C15ull) ^ (uint64_t) c.ts << 40);
        }
out:
        mc_count("evaluations", ev);
        if (idx == 33 + 5 * 32 + 9) mc_sample("frames3: %s under every configuration (4 data_identifiers x 10 size pairs x PES/TS pid 0010/1FFE x 5 PTS)", frame_str(&f));
}

/* ======================================================================== */
/* phase dense: windows of the full frames                                   */

static void dense_base(int which, struct h_frame *f)
{
        f_reset(f, 0);
        if (which == 2) { f_add(f, VBI_SLICED_TELETEXT_B, 0, 40); f_add(f, VBI_SLICED_TELETEXT_B, 0, 41); }
        for (unsigned l = 7; l <= 23; l++) {
                if (which == 1) { if (l <= 22) f_add(f, VBI_SLICED_TELETEXT_B, l, 1); continue; }
                if (l == 16) f_add(f, VBI_SLICED_VPS, l, 0);
                else if (l == 21) f_add(f, VBI_SLICED_CAPTION_625_F1, l, 0);
                else if (l == 23) f_add(f, VBI_SLICED_WSS_625, l, 0);
                else f_add(f, VBI_SLICED_TELETEXT_B, l, 1);
        }
        for (unsigned l = 320; l <= 335; l++) f_add(f, VBI_SLICED_TELETEXT_B, l, which == 1 ? 1 : 2);
}
struct dense_win { int which, lo, hi; };
static struct dense_win *DW; static int NDW;
static void dense_build(void)
{
        DW = malloc(2000 * sizeof *DW);
        for (int w = 0; w < 3; w++) {
                struct h_frame b; dense_base(w, &b);
                for (int lo = 0; lo < b.n; lo++) for (int hi = lo + 1; hi <= b.n; hi++) {
                        if (w == 2 && lo != 0) continue;
                        DW[NDW++] = (struct dense_win){ w, lo, hi };
                }
        }
}
static void dense_case(uint64_t idx, void *arg)
{
        struct h_frame b, f; const struct dense_win *w = &DW[idx];
        dense_base(w->which, &b); f_reset(&f, 0);
        for (int i = w->lo; i < w->hi; i++) f.l[f.n++] = b.l[i];
        uint64_t ev = 0;
        for (int k = 0; k < NCFG; k++) {
                struct h_cfg c; cfg_of(k, &c);
                for (int p = 0; p < 5; p++) {
                        if (!full_tier() && p != (int) ((idx + k) % 5)) continue;
                        f.pts = PTSS[p];
                        ev += single(&c, &f, IF_FEED);
                        if (h_bad) goto out;
                }
                mc_distinct(mc_hash64(&f, offsetof(struct h_frame, pts)) ^ (c.did * 0x9E3779B97F4A7C15ull) ^ (uint64_t) c.ts << 40 ^ 0xD);
        }
out:
        mc_count("evaluations", ev);
        if (w->which == 0 && w->lo == 0 && w->hi == 33) mc_sample("dense: full 33 line frame %s under every configuration", frame_str(&f));
}

/* ======================================================================== */
/* phase raw                                                                 */

#define NRAWCTX 13
static void raw_ctx(int ctx, int n, int off, struct h_frame *f)
{
        f_reset(f, 0x12345678ll); f_raw(f, n, off);
        const uint32_t T = VBI_SLICED_TELETEXT_B, R = VBI_SLICED_VBI_625;
        switch (ctx) {
        case 0: f_add(f, R, 7, 0); break;
        case 1: f_add(f, R, 23, 0); break;
        case 2: f_add(f, R, 336, 0); break;
        case 3: f_add(f, T, 7, 3); f_add(f, R, 8, 0); break;
        case 4: f_add(f, R, 7, 0); f_add(f, T, 8, 3); break;
        case 5: f_add(f, R, 10, 0); f_add(f, R, 11, 0); break;
        case 6: f_add(f, T, 320, 3); f_add(f, R, 321, 0); f_add(f, T, 0, 4); break;
        case 7: f_add(f, VBI_SLICED_VPS, 16, 0); f_add(f, R, 17, 0); f_add(f, VBI_SLICED_WSS_625, 23, 0); break;
        case 8: f_add(f, R, 320, 0); f_add(f, T, 0, 4); break;
        case 10: f_add(f, T, 320, 3); f_add(f, R, 321, 0); f_add(f, T, 0, 4); f->mask = ALL_SERVICES & ~VBI_SLICED_VBI_625; break;   /* raw entry masked out */
        case 11: f_add(f, T, 7, 3); f_add(f, R, 8, 0); f_add(f, T, 0, 4); f_add(f, T, 320, 3); f_add(f, R, 322, 0); f_add(f, T, 330, 3); f_add(f, T, 0, 5); break;   /* undefined lines after raw lines, no field change missed */
        case 12: f_add(f, R, 20, 0); f_add(f, R, 325, 0); f_add(f, R, 331, 0); break;             /* in every raw buffer geometry of GEO[] */
        case 9: f_add(f, T, 7, 3); f_add(f, R, 20, 0); f_add(f, VBI_SLICED_CAPTION_625_F1, 21, 0); f_add(f, T, 22, 3); f_add(f, R, 330, 0); break;
        }
}
struct raw_blk { int n, ctx, start; };
#define NRAWGEOCTX 6
static const int RAWGEOCTX[NRAWGEOCTX] = { 1, 2, 5, 9, 12, 11 };   /* contexts with raw lines in the first, the second and both fields */
static void raw_block(void *arg)
{
        const struct raw_blk *b = arg; int n = b->n;
        int i = 0;
        static const struct { unsigned mn, mx; } szq[3] = { { 184, 65504 }, { 184, 1472 }, { 368, 368 } };
        for (int ctx = 0; ctx < NRAWCTX; ctx++)
        for (int d = 0; d < 4; d++) {
                if (!full_tier() && (d == 1 || d == 3)) continue;
                for (int o = 0; o < 3; o++) {
                        int off = o == 0 ? 132 : o == 1 ? 852 - n : 132 + (720 - n) / 2;
                        if (o > 0 && n == 720) continue;
                        if (o == 2 && off == 132) continue;
                        for (int s = 0; s < (full_tier() ? NSIZEPAIRS : 3); s++)
                        for (int m = 0; m < (full_tier() ? 3 : 2); m++) {
                                struct h_cfg c; c.did = DIDS[d]; c.ts = MODES[m].ts; c.pid = MODES[m].pid;
                                if (full_tier()) size_pair(s, &c.minsz, &c.maxsz); else { c.minsz = szq[s].mn; c.maxsz = szq[s].mx; }
                                struct h_frame f; raw_ctx(ctx, n, off, &f);
                                if (i++ < b->start) continue;
                                if (G) G->idx = i - 1;
                                mc_count("evaluations", single(&c, &f, IF_FEED));
                        }
                }
        }
        /* raw buffer geometry (which lines, field counts, row order) x contexts: samples must come from the right row.
         * The geometry only matters where the row is looked up, so it is not multiplied with sizes and PES/TS. */
        for (int gi = 1; gi < NGEO; gi++)
        for (int k = 0; k < NRAWGEOCTX; k++)
        for (int d = 0; d < 4; d++) {
                if (!full_tier() && (d == 1 || d == 3)) continue;
                for (int o = 0; o < (full_tier() ? 2 : 1); o++) {
                        if (o == 1 && n == 720) continue;
                        struct h_cfg c = { DIDS[d], 184, 65504, (gi + k) & 1, 0x1FFE };
                        struct h_frame f; raw_ctx(RAWGEOCTX[k], n, o ? 852 - n : 132, &f); f.raw_geo = gi;
                        if (i++ < b->start) continue;
                        if (G) G->idx = i - 1;
                        mc_count("evaluations", single(&c, &f, IF_FEED));
                }
        }
}
/* One case = one sample count x one data_identifier class would lose the rest of the case when the
 * multiplexer aborts; the case runs in a child and is resumed behind an execution that died, see guarded(). */
/* ======================================================================== */
/* phase raw-align: a maximum length raw data unit at every fill level        */

/* A 251 sample segment makes a 257 byte data unit, the maximum.  What follows it in the packet depends on how many bytes are
 * left to the next multiple of 184: stuffing units, a one byte extension of the last unit, or - with exactly one byte left
 * behind a 257 byte unit - nothing that fits.  The fill level is swept with every number of Teletext lines 0..14 x VPS x
 * Caption x WSS in front of 1..3 raw lines of 250, 251 and 252 samples (the unit sizes around the maximum). */
static void rawalign_case(uint64_t idx, void *arg)
{
        static const unsigned ttx_lines[14] = { 7, 8, 9, 10, 11, 12, 13, 14, 15, 17, 18, 19, 20, 22 };
        int a = idx % 15, b = (idx / 15) & 1, c2 = (idx / 30) & 1, w = (idx / 60) & 1, m = 1 + (idx / 120) % 3, nn = 250 + (idx / 360) % 3;
        uint64_t ev = 0;
        for (int d = 0; d < 4; d++) for (int mo = 0; mo < 2; mo++) for (int sz = 0; sz < 2; sz++) {
                struct h_cfg c = { DIDS[d], 184, sz ? 1472 : 65504, MODES[mo ? 2 : 0].ts, MODES[mo ? 2 : 0].pid };
                struct h_frame f; f_reset(&f, 0x23456789ll); f_raw(&f, nn, 132);
                for (int i = 0; i < a; i++) f_add(&f, VBI_SLICED_TELETEXT_B, ttx_lines[i], 3);
                /* ascending line order: VPS 16 sorts between the Teletext lines */
                if (b) f_add(&f, VBI_SLICED_VPS, 16, 0);
                if (c2) f_add(&f, VBI_SLICED_CAPTION_625_F1, 21, 0);       /* the multiplexer takes Caption 625 on line 21 */
                if (w) f_add(&f, VBI_SLICED_WSS_625, 23, 0);
                for (int i = 0; i < m; i++) f_add(&f, VBI_SLICED_VBI_625, 320 + i, 0);
                /* sort by line (f_add appends) */
                for (int i = 1; i < f.n; i++) for (int j = i; j > 0 && f.l[j - 1].line > f.l[j].line; j--) { struct h_line t = f.l[j]; f.l[j] = f.l[j - 1]; f.l[j - 1] = t; }
                ev += single(&c, &f, IF_FEED);
        }
        mc_count("evaluations", ev);
        mc_distinct(0xBC000000ull + idx);
}

static void raw_case(uint64_t idx, void *arg)
{
        int n = (int) idx + 1;
        struct raw_blk b = { n, 0, 0 };
        while (guarded(raw_block, &b)) { if (G->idx < b.start) h_die("raw block died outside an execution"); b.start = G->idx + 1; }   /* go on behind the execution that died */
        /* (records made in the child do not reach the engine: the distinct cases are registered here) */
        for (int ctx = 0; ctx < NRAWCTX; ctx++) for (int d = 0; d < 4; d++) if (full_tier() || d == 0 || d == 2) mc_distinct(0xBA000000ull + (uint64_t) (n - 1) * 64 + ctx * 4 + d);
        for (int gi = 1; gi < NGEO; gi++) for (int k = 0; k < NRAWGEOCTX; k++) mc_distinct(0xBB000000ull + (uint64_t) (n - 1) * 64 + gi * 8 + k);
        if (n == 131) { struct h_frame f; raw_ctx(0, n, 132, &f); mc_sample("raw: %s and 12 other contexts x data_identifiers x sp.offset {132, 852-n, middle} x size pairs x PES/TS", frame_str(&f)); }
}

/* ======================================================================== */
/* phase lowlevel: vbi_dvb_multiplex_sliced / _raw on a caller buffer (C06_low.h) */
#include "C06_low.h"

static const uint32_t LOW_MASKS[3] = { ALL_SERVICES, VBI_SLICED_TELETEXT_B, ALL_SERVICES & ~VBI_SLICED_TELETEXT_B };
#define NLOWX 12
/* frames the <= 3 line alphabet does not hold: id variants, ids that cannot be encoded, order faults deep in a frame */
static void lowx_frame(int k, struct h_frame *f)
{
        f_reset(f, 0);
        switch (k) {
        case 0: f_add(f, VBI_SLICED_TELETEXT_B_L10_625, 7, 1); f_add(f, VBI_SLICED_TELETEXT_B_L25_625, 8, 1); f_add(f, VBI_SLICED_CAPTION_625, 21, 0); break;
        case 1: f_add(f, VBI_SLICED_TELETEXT_B | VBI_SLICED_VPS, 16, 1); f_add(f, VBI_SLICED_TELETEXT_B, 17, 1); break;
        case 2: f_add(f, VBI_SLICED_CAPTION_525, 21, 0); f_add(f, VBI_SLICED_TELETEXT_B, 22, 1); break;
        case 3: f_add(f, VBI_SLICED_NONE, 5, 0); f_add(f, VBI_SLICED_TELETEXT_B, 7, 1); f_add(f, VBI_SLICED_NONE, 0, 0); f_add(f, VBI_SLICED_WSS_625, 23, 0); break;
        case 4: for (unsigned l = 7; l <= 15; l++) f_add(f, VBI_SLICED_TELETEXT_B, l, 1); f_add(f, VBI_SLICED_TELETEXT_B, 15, 2); f_add(f, VBI_SLICED_TELETEXT_B, 16, 1); break;   /* repeated line deep in the frame */
        case 5: f_add(f, VBI_SLICED_TELETEXT_B, 320, 1); f_add(f, VBI_SLICED_VPS, 16, 0); f_add(f, VBI_SLICED_TELETEXT_B, 321, 1); break;          /* VPS out of order */
        case 6: f_add(f, VBI_SLICED_VPS, 16, 0); f_add(f, VBI_SLICED_TELETEXT_B, 0, 1); f_add(f, VBI_SLICED_TELETEXT_B, 0, 2); f_add(f, VBI_SLICED_TELETEXT_B, 320, 1); f_add(f, VBI_SLICED_TELETEXT_B, 0, 3); break;
        case 7: f_add(f, VBI_SLICED_WSS_CPR1204, 20, 0); f_add(f, VBI_SLICED_VPS_F2, 329, 0); f_add(f, VBI_SLICED_TELETEXT_B, 330, 1); break;
        case 8: f_add(f, VBI_SLICED_TELETEXT_B, 6, 1); f_add(f, VBI_SLICED_TELETEXT_B, 23, 1); f_add(f, VBI_SLICED_TELETEXT_B, 319, 1); f_add(f, VBI_SLICED_TELETEXT_B, 336, 1); f_add(f, VBI_SLICED_TELETEXT_B, 335, 1); break;
        case 9: f_add(f, VBI_SLICED_CAPTION_625_F1, 22, 0); f_add(f, VBI_SLICED_CAPTION_625_F2, 335, 0); break;
        case 10: f_add(f, VBI_SLICED_WSS_625, 23, 0); f_add(f, VBI_SLICED_WSS_625, 23, 1); break;
        case 11: f_add(f, VBI_SLICED_VBI_625, 10, 0); f_add(f, VBI_SLICED_TELETEXT_B, 11, 1); break;                                            /* raw entry: not a sliced service */
        }
}
#define NLOWSLICED (NFRAMES3 + NDW + NLOWX)
static void lowsliced_case(uint64_t idx, void *arg)
{
        struct h_frame f; int rich;
        if (idx < NFRAMES3) { frame3_of(idx, &f); rich = f.n <= 2; }
        else if (idx < (uint64_t) NFRAMES3 + NDW) {
                struct h_frame b; const struct dense_win *w = &DW[idx - NFRAMES3];
                dense_base(w->which, &b); f_reset(&f, 0);
                for (int i = w->lo; i < w->hi; i++) f.l[f.n++] = b.l[i];
                rich = w->lo == 0 || w->hi == b.n;
        } else { lowx_frame(idx - NFRAMES3 - NDW, &f); rich = 1; }
        p_key_prefix = "low-level API: ";
        uint64_t ev = 0; unsigned sz[64];
        for (int d = 0; d < 4 && !h_bad; d++) {
                if (!full_tier() && d >= 2) break;
                int fixed = LOW_DIDS[d] >= 0x10 && LOW_DIDS[d] <= 0x1F;
                uint64_t nsz = low_sizes(fixed, sz);
                for (int m = 0; m < 3 && !h_bad; m++) {
                        if (m && !rich && !full_tier()) break;
                        f.mask = LOW_MASKS[m];
                        for (int st = 0; st < 2 && !h_bad; st++)
                                for (uint64_t k = 0; k < nsz && !h_bad; k++) {
                                        if (!rich && !full_tier() && !fixed && (k + idx) % 3) continue;     /* quick, inner windows / 3 line frames: every third size, rotating */
                                        ev += low_sliced(&f, LOW_DIDS[d], st, sz[k]);
                                }
                }
                mc_distinct(mc_hash64(&f, offsetof(struct h_frame, pts)) ^ (LOW_DIDS[d] * 0x9E3779B97F4A7C15ull) ^ 0x10E);
        }
        p_key_prefix = "";
        mc_count("evaluations", ev); mc_count("lowlevel_calls", ev);
        if (idx == (uint64_t) NFRAMES3 + NDW + 4) mc_sample("lowlevel: vbi_dvb_multiplex_sliced on %s, every buffer size of the menu x stuffing x 3 service masks, continued call by call", frame_str(&f));
}
static void lowraw_case(uint64_t idx, void *arg)
{
        struct low_raw_par r; r.n_total = LOW_RAW_N[idx % NLOW_RAW_N]; r.line = LOW_RAW_L[idx / NLOW_RAW_N].line; r.std = LOW_RAW_L[idx / NLOW_RAW_N].std;
        p_key_prefix = "low-level API: ";
        uint64_t ev = 0; unsigned sz[64];
        for (int o = 0; o < 4 && !h_bad; o++) {
                /* first_pixel_position: 0, right aligned, middle, and one beyond the right edge (refused) */
                r.fpp = o == 0 ? 0 : o == 1 ? 720 - r.n_total : o == 2 ? (720 - r.n_total) / 2 : 721 - r.n_total;
                if ((o == 1 || o == 2) && r.fpp == 0) continue;
                for (int d = 0; d < 4 && !h_bad; d++) {
                        if (!full_tier() && d >= 2) break;
                        int fixed = LOW_DIDS[d] >= 0x10 && LOW_DIDS[d] <= 0x1F;
                        uint64_t nsz = low_sizes(fixed, sz);
                        for (int st = 0; st < 2 && !h_bad; st++)
                                for (uint64_t k = 0; k < nsz && !h_bad; k++) {
                                        if (!full_tier() && o == 2 && (k + idx) % 3) continue;
                                        ev += low_raw(&r, LOW_DIDS[d], st, sz[k]);
                                }
                        mc_distinct(0xBD000000ull + idx * 64 + o * 4 + d);
                }
        }
        p_key_prefix = "";
        mc_count("evaluations", ev); mc_count("lowlevel_calls", ev);
        if (idx == 11) mc_sample("lowlevel: vbi_dvb_multiplex_raw line %u, %u samples, every buffer size of the menu x stuffing x first_pixel_position {0, right, middle, beyond}, continued until the line is complete", r.line, r.n_total);
}

/* ======================================================================== */
/* phase hist: E2 over frame sequences                                       */

#define NLETTERS 14
static const char *const letter_names[NLETTERS] = {
        "A{ttx7,vps16,wss23}", "B{ttx8,ttx320}", "C{ttx7}", "D{cc21,ttx22,ttx335}", "E{}", "F{ttx7-10,ttx320-322}",
        "R1{ttx8,ttx7}", "R2{vps17}", "R3{ttx7,cc525@21}", "G{raw10,100 samples}", "H{ttx7,raw320,100 samples}",
        "R4{raw9,720 samples,ttx10-15}", "R5{raw9,no sampling par}", "L{ttx0,ttx0}",
};
static void letter_frame(int L, int pos, struct h_frame *f)
{
        const uint32_t T = VBI_SLICED_TELETEXT_B, R = VBI_SLICED_VBI_625;
        f_reset(f, 0x1FFFFFF00ll + 3600ll * pos + L);          /* crosses 2^33 within a history */
        unsigned s = 10 + pos;
        switch (L) {
        case 0: f_add(f, T, 7, s); f_add(f, VBI_SLICED_VPS, 16, s); f_add(f, VBI_SLICED_WSS_625, 23, s); break;
        case 1: f_add(f, T, 8, s); f_add(f, T, 320, s); break;
        case 2: f_add(f, T, 7, s); break;
        case 3: f_add(f, VBI_SLICED_CAPTION_625_F1, 21, s); f_add(f, T, 22, s); f_add(f, T, 335, s); break;
        case 4: break;
        case 5: for (unsigned l = 7; l <= 10; l++) f_add(f, T, l, s); for (unsigned l = 320; l <= 322; l++) f_add(f, T, l, s); break;
        case 6: f_add(f, T, 8, s); f_add(f, T, 7, s); break;
        case 7: f_add(f, VBI_SLICED_VPS, 17, s); break;
        case 8: f_add(f, T, 7, s); f_add(f, VBI_SLICED_CAPTION_525, 21, s); break;
        case 9: f_add(f, R, 10, s); f_raw(f, 100, 132); break;
        case 10: f_add(f, T, 7, s); f_add(f, R, 320, s); f_raw(f, 100, 200); break;
        case 11: f_add(f, R, 9, s); for (unsigned l = 10; l <= 15; l++) f_add(f, T, l, s); f_raw(f, 720, 132); break;
        case 12: f_add(f, R, 9, s); break;
        case 13: f_add(f, T, 0, s); f_add(f, T, 0, s + 50); break;
        }
}
struct hist_arg { struct h_cfg cfg; int iface; unsigned corsize; };
static unsigned cor_const(void *arg, int call) { return *(unsigned *) arg; }
static const char *letter_name_fn(int l, void *arg) { return letter_names[l]; }

static int hist_run(const uint8_t *hist, int n, uint64_t hash[2], void *arg)
{
        struct hist_arg *ha = arg;
        static struct run r;
        h_bad = 0;
        size_t o = snprintf(CTX, sizeof CTX, "%s %s history:", cfg_str(&ha->cfg), ha->iface == IF_FEED ? "feed" : "cor");
        for (int i = 0; i < n && o < sizeof CTX - 60; i++) o += snprintf(CTX + o, sizeof CTX - o, " %s", letter_names[hist[i]]);
        run_begin(&r, &ha->cfg);
        int stop = 0;
        for (int i = 0; i < n && !stop; i++) {
                struct h_frame f; letter_frame(hist[i], i, &f);
                char what[40]; snprintf(what, sizeof what, "frame %d of the history", i);
                int a = run_frame(&r, &f, ha->iface, cor_const, &ha->corsize, what);
                if (a < 0) stop = 1;
                else if (a == 0) mc_outcome("history: rejected (%s)", reject_class(&f, &ha->cfg));
        }
        /* canonical state: what the multiplexer carries over + what the demultiplexer still holds */
        mc_hash h; mc_hash_init(&h);
        const vbi_dvb_mux *mx = r.mx;
        mc_hash_u64(&h, ha->cfg.ts ? (mx->continuity_counter & 15) : 0);
        mc_hash_u64(&h, mx->raw_samples_left);
        if (mx->raw_samples_left) {
                mc_hash_u64(&h, mx->raw_line); mc_hash_u64(&h, (uint64_t) mx->raw_offset); mc_hash_u64(&h, mx->raw_samples_per_line);
                mc_hash_add(&h, mx->raw_samples, mx->raw_samples_left <= 720 ? mx->raw_samples_left : 720);
        }
        mc_hash_u64(&h, mx->cor_offset < mx->cor_end ? ((uint64_t) mx->cor_offset << 32 | mx->cor_end) : 0);
        mc_hash_u64(&h, r.xm.any0); mc_hash_u64(&h, r.xm.open);
        if (r.xm.any0) mc_hash_add(&h, hist, n);        /* sequence comparison depends on the whole past: no merging */
        if (r.xm.open) {
                const struct x_group *g = &r.xm.g[r.xm.ng - 1];
                mc_hash_u64(&h, g->n); mc_hash_u64(&h, (uint64_t) g->pts); mc_hash_u64(&h, g->pts_any); mc_hash_u64(&h, g->last_line);
                for (int i = 0; i < g->n; i++) { mc_hash_u64(&h, ((uint64_t) g->l[i].id << 32) | g->l[i].line); mc_hash_add(&h, g->l[i].data, 42); }
        }
        mc_hash_u64(&h, n);     /* PTS and payloads of the next frame depend on its position: states merge within a depth only */
        if (!stop) run_finish(&r);
        run_end(&r);
        mc_count("evaluations", r.evals);
        if (stop || h_bad) { hash[0] = h.a ^ 0xBAD; hash[1] = h.b + n; return 1; }
        hash[0] = h.a; hash[1] = h.b;
        if (n >= 2) mc_distinct(h.a);
        return 0;
}

/* ======================================================================== */
/* phase cor: E1 over coroutine buffer sizes                                 */

static const unsigned COR_SIZES[6] = { 70000, 1, 4, 187, 188, 189 };
static const unsigned COR_CONST[10] = { 1, 2, 4, 46, 183, 184, 187, 188, 189, 1000 };
static unsigned cor_choose(void *arg, int call) { return COR_SIZES[mc_choose(6)]; }

#define NCORFRAMES 14
static void cor_frame(int k, struct h_frame *f)
{
        if (k < NLETTERS - 1) { letter_frame(k == 4 ? 13 : k, 0, f); return; }           /* all letters (the empty frame replaced by L) */
        dense_base(0, f); f->pts = 0x155555555ll;
}
struct cor_arg { struct h_cfg cfg; struct h_frame f; uint8_t *ref; size_t nref; int ref_acc; cor_size_fn *fn; void *fnarg; uint64_t ev; };

static void cor_body(void *arg)
{
        struct cor_arg *a = arg;
        static struct run r;
        h_bad = 0;
        snprintf(CTX, sizeof CTX, "%s cor (%s buffer sizes) frame %s", cfg_str(&a->cfg), a->fn == cor_choose ? "explored" : "constant", frame_str(&a->f));
        run_begin(&r, &a->cfg);
        int acc = run_frame(&r, &a->f, IF_COR, a->fn, a->fnarg, "frame");
        if (acc >= 0) {
                if (acc != a->ref_acc) h_viol("cor: accepts/rejects differently from feed", "cor %d feed %d", acc, a->ref_acc);
                else if (acc) mc_outcome(OUT_N == a->nref && !memcmp(OUT, a->ref, OUT_N) ? "cor output identical to the callback output" : "cor output differs from the callback output (both checked)");
                else mc_outcome("cor: rejected like feed (%s)", reject_class(&a->f, &a->cfg));
                /* the multiplexer stays usable; whole stream through the demultiplexers */
                if (!h_bad) run_finish(&r);
        }
        run_end(&r);
        a->ev += r.evals;
}
static void cor_case(uint64_t idx, void *arg)
{
        static struct cor_arg a;
        memset(&a, 0, sizeof a);
        int fi = idx % NCORFRAMES, ci = idx / NCORFRAMES;
        a.cfg.did = (ci & 1) ? 0x99 : 0x10; ci >>= 1;
        a.cfg.ts = ci & 1; a.cfg.pid = 0x1234; ci >>= 1;
        static const struct { unsigned mn, mx; } sz[3] = { { 184, 65504 }, { 368, 368 }, { 1472, 1472 } };
        a.cfg.minsz = sz[ci].mn; a.cfg.maxsz = sz[ci].mx;
        cor_frame(fi, &a.f);
        /* reference: the callback interface, fully checked */
        static struct run r;
        h_bad = 0;
        snprintf(CTX, sizeof CTX, "%s feed (reference for cor) frame %s", cfg_str(&a.cfg), frame_str(&a.f));
        run_begin(&r, &a.cfg);
        a.ref_acc = run_frame(&r, &a.f, IF_FEED, NULL, NULL, "frame");
        a.nref = OUT_N; a.ref = malloc(OUT_N + 1); memcpy(a.ref, OUT, OUT_N);
        run_end(&r);
        if (a.ref_acc >= 0) {
                a.fn = cor_choose; a.fnarg = NULL;
                mc_explore(cor_body, &a, full_tier() ? 4 : 3);
                for (int k = 0; k < 10 && !h_bad; k++) {
                        unsigned sz1 = COR_CONST[k];
                        if (sz1 < 4 && a.nref > 4000 && !full_tier()) continue;
                        a.fn = cor_const; a.fnarg = &sz1;
                        cor_body(&a);
                }
                if (!h_bad) mc_distinct(0xC0000000ull + idx);
        }
        free(a.ref);
        mc_count("evaluations", a.ev + 1);
        if (fi == 0) mc_sample("cor: %s %s: every buffer size vector with <= %d deviations from {whole,1,4,187,188,189} + 10 constant sizes, equal to the callback output", cfg_str(&a.cfg), frame_str(&a.f), full_tier() ? 4 : 3);
}

/* ======================================================================== */
/* phase mixed: callback and coroutine interface on one multiplexer          */

/* A packet made by vbi_dvb_mux_cor() is read only in part (one call with a small buffer), then a frame is given to
 * vbi_dvb_mux_feed() - accepted or rejected -, then another frame is drained through vbi_dvb_mux_cor().  The library
 * documents that the unread rest of the first packet is lost; what comes out afterwards must be complete packets of
 * the later accepted frames and nothing else ("a rejected frame produces no output at all"): run_frame() judges the
 * callback output of X and the coroutine output of B with the independent parser, each against its own input lines
 * (seed C06-8: a rejected feed left the pending packet in place, overwritten with the rejected frame's data units). */
static const unsigned MIX_SIZES[] = { 1, 4, 45, 46, 47, 92, 100, 138, 183, 187, 188, 189, 230, 367 };
static void mixed_case(uint64_t idx, void *arg)
{
        static struct run r;
        struct h_cfg cfg; memset(&cfg, 0, sizeof cfg);
        int xi = idx % NLETTERS, ci = idx / NLETTERS;
        cfg.did = (ci & 1) ? 0x99 : 0x10; ci >>= 1;
        cfg.ts = ci & 1; cfg.pid = 0x1234; ci >>= 1;
        static const struct { unsigned mn, mx; } sz[3] = { { 184, 65504 }, { 368, 368 }, { 184, 184 } };
        cfg.minsz = sz[ci].mn; cfg.maxsz = sz[ci].mx;
        static const int AL[3] = { 0, 5, 1 }, BL[2] = { 2, 3 };
        uint64_t ev = 0; int pending_seen = 0;
        for (int ai = 0; ai < 3; ai++) for (int bi = 0; bi < 2; bi++) for (unsigned ki = 0; ki < sizeof MIX_SIZES / sizeof *MIX_SIZES; ki++) {
                struct h_frame A, X, B; letter_frame(AL[ai], 0, &A); letter_frame(xi, 1, &X); letter_frame(BL[bi], 2, &B);
                if (must_accept(&A, &cfg) != A_MUST || must_accept(&B, &cfg) != A_MUST) continue;
                unsigned k = MIX_SIZES[ki];
                h_bad = 0;
                snprintf(CTX, sizeof CTX, "%s mixed: cor(%s) read %u bytes only; feed(%s); cor(%s)", cfg_str(&cfg), letter_names[AL[ai]], k, letter_names[xi], letter_names[BL[bi]]);
                mc_case(case_key(IF_COR, &cfg, &A), "%s", CTX);
                run_begin(&r, &cfg);
                {       /* one coroutine call with a buffer of k bytes: the rest of the packet stays pending */
                        struct m_sub s; m_prepare(&A, &s);
                        uint8_t *buf = malloc(k), *p = buf; unsigned left = k;
                        const vbi_sliced *sp = s.sl; unsigned s_left = A.n;
                        vbi_bool ok = vbi_dvb_mux_cor(r.mx, &p, &left, &sp, &s_left, A.mask, s.raw, s.has_sp ? &s.sp : NULL, A.pts);
                        if (!ok) h_viol("legal frame rejected", "mixed: first frame %s", frame_str(&A));
                        else if (r.mx->cor_offset < r.mx->cor_end) pending_seen++;
                        free(buf); m_release(&s);
                }
                OUT_N = 0; PES_N = 0; r.ps.cc_next = -1;     /* what was read of the first packet is not judged; TS counters restart */
                if (!h_bad) {
                        int a = run_frame(&r, &X, IF_FEED, NULL, NULL, "frame given to feed() while a coroutine packet is pending");
                        if (a == 0) mc_outcome("mixed: feed() rejects (%s) while a packet is pending", reject_class(&X, &cfg));
                        else if (a == 1) mc_outcome("mixed: feed() accepts while a packet is pending");
                        if (a >= 0) {
                                unsigned whole = 70000;
                                int b = run_frame(&r, &B, IF_COR, cor_const, &whole, "frame drained through cor() after the feed() call");
                                if (b == 0) h_viol("legal frame rejected", "mixed: frame after the feed() call %s", frame_str(&B));
                                if (b == 1 && !h_bad && !cfg.ts && !(X.n && !X.l[0].line) ) run_finish(&r);
                        }
                }
                run_end(&r);
                ev += r.evals + 1;
        }
        if (pending_seen) mc_distinct(0xD1000000ull + idx);
        mc_count("evaluations", ev); mc_count("mixed_runs_with_a_pending_packet", pending_seen);
        if (idx == 6) mc_sample("mixed: %s", CTX);
}

/* ======================================================================== */
/* phase misc: id variants, masks, PTS, PIDs, unaligned size settings        */

static void misc_case(uint64_t idx, void *arg)
{
        uint64_t ev = 0;
        struct h_cfg c; cfg_of((int) (idx % NCFG), &c);
        struct h_frame f;
        static const int64_t pts[] = { -1, -0x200000000ll, 0x7FFFFFFFFFFFFFFFll, 0x155555555ll, 0x0AAAAAAAAll, (int64_t) 0x8000000000000000ull, 0x100000000ll, 0x40000000ll };
        /* service id variants */
        for (unsigned p = 0; p < 8; p++) {
                f_reset(&f, pts[p]);
                f_add(&f, VBI_SLICED_TELETEXT_B_L10_625, 7, 5); f_add(&f, VBI_SLICED_TELETEXT_B_L25_625, 8, 5); f_add(&f, VBI_SLICED_VPS, 16, 5);
                f_add(&f, VBI_SLICED_CAPTION_625, 21, 5); f_add(&f, VBI_SLICED_WSS_625, 23, 5); f_add(&f, VBI_SLICED_TELETEXT_B, 320, 5);
                ev += single(&c, &f, IF_FEED);
                /* masks: lines outside the mask are dropped */
                static const uint32_t masks[] = { VBI_SLICED_TELETEXT_B, VBI_SLICED_VPS | VBI_SLICED_WSS_625, VBI_SLICED_CAPTION_625, ALL_SERVICES & ~VBI_SLICED_TELETEXT_B, 0 };
                f.mask = masks[p % 5];
                ev += single(&c, &f, IF_FEED);
                ev += single(&c, &f, IF_COR);
        }
        /* services the multiplexer does not encode: rejected, usable afterwards (single() sends the flushing frames) */
        static const uint32_t bad[] = { VBI_SLICED_CAPTION_525, VBI_SLICED_CAPTION_525_F1, VBI_SLICED_CAPTION_625_F2, VBI_SLICED_VPS_F2, VBI_SLICED_WSS_CPR1204,
                                        VBI_SLICED_TELETEXT_A, VBI_SLICED_TELETEXT_C_625, VBI_SLICED_TELETEXT_D_625, VBI_SLICED_VBI_525, VBI_SLICED_2xCAPTION_525, VBI_SLICED_TELETEXT_BD_525 };
        for (unsigned b = 0; b < sizeof bad / sizeof *bad; b++)
                for (unsigned ln = 0; ln < 3; ln++) {
                        f_reset(&f, 77); f_add(&f, VBI_SLICED_TELETEXT_B, 7, 6); f_add(&f, bad[b], ln == 0 ? 0 : ln == 1 ? 16 : 21, 6);
                        ev += single(&c, &f, IF_FEED);
                }
        /* every line number 0..340 for every service, alone */
        if ((idx / 4) % 10 == 3) {
                for (unsigned ln = 0; ln <= 340; ln++) for (int s = 0; s < 5; s++) {
                        f_reset(&f, 5); f_add(&f, s < 4 ? A_SVC[s] : VBI_SLICED_VBI_625, ln, 7); if (s == 4) f_raw(&f, 64, 400);
                        ev += single(&c, &f, IF_FEED);
                }
        }
        mc_count("evaluations", ev);
        mc_distinct(0xE0000000ull + idx);
}

/* ======================================================================== */

static void selftest(void)
{
        /* the parser accepts a packet built by hand from the standards and notices single-byte damage */
        struct h_cfg c = { 0x10, 184, 184, 1, 0x0123 };
        uint8_t t[188], pes[188]; size_t pn; static struct p_frame pf; struct p_state ps = { -1 };
        p_selftest = 1;
        ts_leader(t, &c, 5, 0x123456789ll);
        /* one Teletext unit instead of the first stuffing unit */
        t[4 + 46] = 0x02; t[4 + 48] = 0xC0 | 0x20 | 9; t[4 + 49] = 0xE4; for (int i = 0; i < 42; i++) t[4 + 50 + i] = i * 3;
        h_bad = 0;
        if (p_output(&c, &ps, t, 188, 0x123456789ll, &pf, pes, &pn) || pf.n != 1 || pf.l[0].line != 9 || pf.l[0].kind != PK_TTX || pf.l[0].data[1] != p_rev8(3) || ps.cc_next != 6)
                { fprintf(stderr, "C06 selftest: reference packet not parsed (%s)\n", p_lastkey); exit(2); }
        static const int damage[] = { 0, 1, 3, 4 + 2, 4 + 3, 4 + 5, 4 + 6, 4 + 7, 4 + 8, 4 + 9, 4 + 11, 4 + 13, 4 + 20, 4 + 45, 4 + 47, 4 + 48, 4 + 49, 4 + 46 + 46, 4 + 46 + 47, 4 + 46 + 50, 187 };
        for (unsigned i = 0; i < sizeof damage / sizeof *damage; i++) {
                uint8_t u[188]; memcpy(u, t, 188); u[damage[i]] ^= (damage[i] == 4 + 13 || damage[i] == 4 + 9 || damage[i] == 4 + 11) ? 0x01 : damage[i] == 4 + 7 ? 0x80 : 0x10;
                ps.cc_next = 5; h_bad = 0;
                int rc = p_output(&c, &ps, u, 188, 0x123456789ll, &pf, pes, &pn);
                if (!rc && pf.n == 1 && pf.l[0].line == 9) { fprintf(stderr, "C06 selftest: damage at byte %d not noticed\n", damage[i]); exit(2); }
        }
        p_selftest = 0; h_bad = 0;
}

int main(int argc, char **argv)
{
        mc_init(argc, argv, "C06");
        mc_set_budget(300, 1500);
        mc_meta("level", "model_checking");
        mc_meta("technique", "bounded-exhaustive frames x configurations through the real multiplexer, independent standards parser + library demultiplexer round trip; E2 over frame sequences with canonical multiplexer/demultiplexer state; E1 over coroutine buffer sizes");
        mc_meta("rule", "a case is one (frame or frame sequence, configuration, interface); distinct counts (frame, data_identifier, PES/TS) resp. merged E2 states; every case reaches generate_pes_packet (accepted or rejected is an outcome)");
        mc_meta("bound", "frames: all <=3-line frames over lines {0,7,16,21,22,23,320,335} x {ttx,vps,wss,cc}; all windows of the 33/32/35-line frames; raw lines of 1..720 samples x 13 contexts x 3 positions, and x 7 further raw buffer geometries (field counts 16+17, 17+12, 6+17, 17+15 sequential; 17+17, 12+12 interlaced; 16+17 interlaced = invalid) x 6 contexts; configurations 4 data_identifiers x 10 (min,max) pairs of {184,368,1472,65504} x {PES, TS 0010, TS 1FFE} x 5 PTS (3-line frames: one of the 5 PTS per frame and configuration, rotating; quick: 3-line frames at the default size pair only, dense frames PTS rotating, raw at 3 size pairs and 2 data_identifiers); histories of <= %d frames from 14 letters x 24 configurations; coroutine buffer size vectors with <= %d deviations + 10 constant sizes; mixed interfaces: cor(A) read in part (14 buffer sizes 1..367) ; feed(X) ; cor(B) for 3 x 14 x 2 frames x 12 configurations; low-level functions: all <=3-line frames + dense windows + 12 frames with id variants / unencodable services / order faults x 2 (thorough 4) data_identifiers x 3 service masks x stuffing x 43 buffer sizes 2..516 (6 multiples of 46 + 5 refused sizes for fixed length; sizes 0,1 refused), raw: 23 sample counts x 18 (line, video standard) pairs (10 refused) x 4 first_pixel_positions (1 refused) x the same sizes", full_tier() ? 4 : 3, full_tier() ? 4 : 3);
        mc_meta("assume", "the TS demultiplexer gets a leading stuffing-only TS packet (its loss of a first one-TS-packet PES packet is C07's finding)");
        mc_meta("assume", "raw lines are checked by the parser only: the public demultiplexer does not deliver raw lines");
        mc_meta("assume", "WSS has 14 payload bits: bits 6,7 of the second sliced byte are not compared");
        selftest();
        dense_build();

        mc_pool("frames3", NFRAMES3, frames3_case, NULL, 60);
        mc_pool("dense", NDW, dense_case, NULL, 60);
        mc_pool("raw", 720, raw_case, NULL, 60);
        mc_pool("raw-align", 15 * 2 * 2 * 2 * 3 * 3, rawalign_case, NULL, 60);
        mc_pool("misc", NCFG, misc_case, NULL, 60);
        mc_pool("lowlevel-sliced", NLOWSLICED, lowsliced_case, NULL, 60);
        mc_pool("lowlevel-raw", (uint64_t) NLOW_RAW_N * NLOW_RAW_L, lowraw_case, NULL, 60);
        mc_pool("cor", NCORFRAMES * 12, cor_case, NULL, 120);
        mc_pool("mixed", NLETTERS * 12, mixed_case, NULL, 120);

        static struct hist_arg ha[24]; int nha = 0;
        static const struct { unsigned mn, mx; } hs[3] = { { 184, 184 }, { 184, 368 }, { 368, 65504 } };
        for (int d = 0; d < 2; d++) for (int s = 0; s < 3; s++) for (int m = 0; m < 2; m++) for (int i = 0; i < 2; i++) {
                struct hist_arg *a = &ha[nha++];
                a->cfg.did = d ? 0x99 : 0x10; a->cfg.minsz = hs[s].mn; a->cfg.maxsz = hs[s].mx; a->cfg.ts = m; a->cfg.pid = m ? 0x1FFE : 0;
                a->iface = i ? IF_COR : IF_FEED; a->corsize = (s == 0) ? 7 : (s == 1) ? 188 : 70000;
        }
        for (int k = 0; k < nha; k++) {
                char name[64]; snprintf(name, sizeof name, "hist-%02x-%u-%u-%s-%s", ha[k].cfg.did, ha[k].cfg.minsz, ha[k].cfg.maxsz, ha[k].cfg.ts ? "ts" : "pes", ha[k].iface ? "cor" : "feed");
                mc_bfs_spec sp = { NLETTERS, full_tier() ? 4 : 3, 0, 60, hist_run, &ha[k], letter_name_fn };
                mc_bfs_result res;
                mc_bfs(name, &sp, &res);
        }
        return mc_finish();
}
