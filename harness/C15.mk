# ASan only: the property is about delivered data values; the shift-of-negative UB in
# vbi_unham16p()/idl_a_demux_feed() on uncorrectable Hamming bytes belongs to C01.
VARIANT_C15 := asanx
