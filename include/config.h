/* config.h.  Generated from config.h.in by configure.  */
/* config.h.in.  Generated from configure.ac by autoheader.  */

/* Define if building universal (internal helper macro) */
/* #undef AC_APPLE_UNIVERSAL_BUILD */

/* Define to build bktr driver interface */
/* #undef ENABLE_BKTR */

/* Define to build DVB interface */
#define ENABLE_DVB 1

/* Define to 1 if translation of program messages to the user's native
   language is requested. */
#define ENABLE_NLS 1

/* Define to build proxy daemon and interface */
#define ENABLE_PROXY 1

/* Define to build V4L interface */
#define ENABLE_V4L 1

/* Define to build V4L2 / V4L2 2.5 interface */
#define ENABLE_V4L2 1

/* Define to 1 if you have the `alarm' function. */
#define HAVE_ALARM 1

/* Define to 1 if you have the <arpa/inet.h> header file. */
#define HAVE_ARPA_INET_H 1

/* Define to 1 if you have the Mac OS X function
   CFLocaleCopyPreferredLanguages in the CoreFoundation framework. */
/* #undef HAVE_CFLOCALECOPYPREFERREDLANGUAGES */

/* Define to 1 if you have the Mac OS X function CFPreferencesCopyAppValue in
   the CoreFoundation framework. */
/* #undef HAVE_CFPREFERENCESCOPYAPPVALUE */

/* Define to 1 if your system has a working `chown' function. */
#define HAVE_CHOWN 1

/* Define if the GNU dcgettext() function is already present or preinstalled.
   */
#define HAVE_DCGETTEXT 1

/* Define to 1 if you have the <dlfcn.h> header file. */
#define HAVE_DLFCN_H 1

/* Define to 1 if you have the `dup2' function. */
#define HAVE_DUP2 1

/* Define to 1 if you have the <fcntl.h> header file. */
#define HAVE_FCNTL_H 1

/* Define to 1 if you have the `ffs' function. */
#define HAVE_FFS 1

/* Define to 1 if you have the `fork' function. */
#define HAVE_FORK 1

/* Define to 1 if you have the `getaddrinfo' function. */
#define HAVE_GETADDRINFO 1

/* Define to 1 if you have the `gethostbyaddr' function. */
#define HAVE_GETHOSTBYADDR 1

/* Define to 1 if you have the `gethostbyname' function. */
#define HAVE_GETHOSTBYNAME 1

/* Define to 1 if you have the `getopt_long' function. */
#define HAVE_GETOPT_LONG 1

/* Define to 1 if you have the `getpagesize' function. */
#define HAVE_GETPAGESIZE 1

/* Define if the GNU gettext() function is already present or preinstalled. */
#define HAVE_GETTEXT 1

/* Define to 1 if you have the `gettimeofday' function. */
#define HAVE_GETTIMEOFDAY 1

/* Honk if you have GNU C lib 2.1+ */
#define HAVE_GLIBC21 1

/* Define to 1 if you have the GNU version of the strerror_r() function. */
/* #undef HAVE_GNU_STRERROR_R */

/* Define if you have the iconv() function and it works. */
#define HAVE_ICONV 1

/* Define to 1 if you have the `inet_ntoa' function. */
#define HAVE_INET_NTOA 1

/* Define to 1 if you have the <inttypes.h> header file. */
#define HAVE_INTTYPES_H 1

/* ioctl request type */
/* #undef HAVE_IOCTL_INT_INT_DOTS */

/* ioctl request type */
#define HAVE_IOCTL_INT_ULONG_DOTS 1

/* Define to 1 if you have the <langinfo.h> header file. */
#define HAVE_LANGINFO_H 1

/* Define to 1 if you have the <libintl.h> header file. */
#define HAVE_LIBINTL_H 1

/* Define to 1 if you have the `m' library (-lm). */
#define HAVE_LIBM 1

/* Define if you have libpng */
#define HAVE_LIBPNG 1

/* Define to 1 if you have the `pthread' library (-lpthread). */
#define HAVE_LIBPTHREAD 1

/* Define to 1 if you have the `pthreadGC2' library (-lpthreadGC2). */
/* #undef HAVE_LIBPTHREADGC2 */

/* Define if you have libunicode */
/* #undef HAVE_LIBUNICODE */

/* Define to 1 if you have the `X11' library (-lX11). */
/* #undef HAVE_LIBX11 */

/* Define to 1 if you have the `localtime_r' function. */
#define HAVE_LOCALTIME_R 1

/* Define if the log2() function is available */
#define HAVE_LOG2 1

/* Define to 1 if your system has a GNU libc compatible `malloc' function, and
   to 0 otherwise. */
#define HAVE_MALLOC 1

/* Define to 1 if you have the <malloc.h> header file. */
#define HAVE_MALLOC_H 1

/* Define to 1 if you have the `memmove' function. */
#define HAVE_MEMMOVE 1

/* Define to 1 if you have the `memset' function. */
#define HAVE_MEMSET 1

/* Define to 1 if you have the `mkdir' function. */
#define HAVE_MKDIR 1

/* Define to 1 if you have a working `mmap' system call. */
#define HAVE_MMAP 1

/* Define to 1 if you have the `modf' function. */
#define HAVE_MODF 1

/* Define to 1 if you have the `munmap' function. */
#define HAVE_MUNMAP 1

/* Define to 1 if you have the <netdb.h> header file. */
#define HAVE_NETDB_H 1

/* Define to 1 if you have the <netinet/in.h> header file. */
#define HAVE_NETINET_IN_H 1

/* Define to 1 if you have the `nl_langinfo' function. */
#define HAVE_NL_LANGINFO 1

/* Define to 1 if you have the `putenv' function. */
#define HAVE_PUTENV 1

/* Define to 1 if your system has a GNU libc compatible `realloc' function,
   and to 0 otherwise. */
#define HAVE_REALLOC 1

/* Define if asm/types.h defines __s64 and __u64 */
#define HAVE_S64_U64 1

/* Define to 1 if you have the `select' function. */
#define HAVE_SELECT 1

/* Define to 1 if you have the `setenv' function. */
#define HAVE_SETENV 1

/* Define to 1 if you have the `setlocale' function. */
#define HAVE_SETLOCALE 1

/* Define to 1 if you have the `sincos' function. */
#define HAVE_SINCOS 1

/* Define to 1 if you have the `socket' function. */
#define HAVE_SOCKET 1

/* Define to 1 if you have the <stdint.h> header file. */
#define HAVE_STDINT_H 1

/* Define to 1 if you have the <stdio.h> header file. */
#define HAVE_STDIO_H 1

/* Define to 1 if you have the <stdlib.h> header file. */
#define HAVE_STDLIB_H 1

/* Define to 1 if you have the `strcasecmp' function. */
#define HAVE_STRCASECMP 1

/* Define to 1 if you have the `strchr' function. */
#define HAVE_STRCHR 1

/* Define to 1 if you have the `strdup' function. */
#define HAVE_STRDUP 1

/* Define to 1 if you have the `strerror' function. */
#define HAVE_STRERROR 1

/* Define to 1 if you have the <strings.h> header file. */
#define HAVE_STRINGS_H 1

/* Define to 1 if you have the <string.h> header file. */
#define HAVE_STRING_H 1

/* Define to 1 if you have the `strncasecmp' function. */
#define HAVE_STRNCASECMP 1

/* Define to 1 if you have the `strndup' function. */
#define HAVE_STRNDUP 1

/* Define to 1 if you have the `strptime' function. */
#define HAVE_STRPTIME 1

/* Define to 1 if you have the `strrchr' function. */
#define HAVE_STRRCHR 1

/* Define to 1 if you have the `strstr' function. */
#define HAVE_STRSTR 1

/* Define to 1 if you have the `strtol' function. */
#define HAVE_STRTOL 1

/* Define to 1 if you have the `strtoul' function. */
#define HAVE_STRTOUL 1

/* Define to 1 if `st_rdev' is a member of `struct stat'. */
#define HAVE_STRUCT_STAT_ST_RDEV 1

/* Define to 1 if you have the SUSV3 version of the strerror_r() function. */
#define HAVE_SUSV3_STRERROR_R 1

/* Define to 1 if you have the <syslog.h> header file. */
#define HAVE_SYSLOG_H 1

/* Define to 1 if you have the <sys/ioctl.h> header file. */
#define HAVE_SYS_IOCTL_H 1

/* Define to 1 if you have the <sys/mman.h> header file. */
#define HAVE_SYS_MMAN_H 1

/* Define to 1 if you have the <sys/param.h> header file. */
#define HAVE_SYS_PARAM_H 1

/* Define to 1 if you have the <sys/socket.h> header file. */
#define HAVE_SYS_SOCKET_H 1

/* Define to 1 if you have the <sys/statvfs.h> header file. */
#define HAVE_SYS_STATVFS_H 1

/* Define to 1 if you have the <sys/stat.h> header file. */
#define HAVE_SYS_STAT_H 1

/* Define to 1 if you have the <sys/time.h> header file. */
#define HAVE_SYS_TIME_H 1

/* Define to 1 if you have the <sys/types.h> header file. */
#define HAVE_SYS_TYPES_H 1

/* Define if struct tm has a tm_gmtoff field */
#define HAVE_TM_GMTOFF 1

/* Define to 1 if you have the `tzset' function. */
#define HAVE_TZSET 1

/* Define to 1 if you have the <unistd.h> header file. */
#define HAVE_UNISTD_H 1

/* Define to 1 if you have the `vfork' function. */
#define HAVE_VFORK 1

/* Define to 1 if you have the <vfork.h> header file. */
/* #undef HAVE_VFORK_H */

/* Define to 1 if you have the <winsock2.h> header file. */
/* #undef HAVE_WINSOCK2_H */

/* Define to 1 if `fork' works. */
#define HAVE_WORKING_FORK 1

/* Define to 1 if `vfork' works. */
#define HAVE_WORKING_VFORK 1

/* Define to 1 if the system has the type `_Bool'. */
#define HAVE__BOOL 1

/* Define to 1 if you have the `__builtin_ffs' function. */
/* #undef HAVE___BUILTIN_FFS */

/* Define to 1 if `lstat' dereferences a symlink specified with a trailing
   slash. */
#define LSTAT_FOLLOWS_SLASHED_SYMLINK 1

/* Define to the sub-directory where libtool stores uninstalled libraries. */
#define LT_OBJDIR ".libs/"

/* Define to 1 if `major', `minor', and `makedev' are declared in <mkdev.h>.
   */
/* #undef MAJOR_IN_MKDEV */

/* Define to 1 if `major', `minor', and `makedev' are declared in
   <sysmacros.h>. */
#define MAJOR_IN_SYSMACROS 1

/* Name of package */
#define PACKAGE "zvbi"

/* Define to the address where bug reports for this package should be sent. */
#define PACKAGE_BUGREPORT ""

/* ld */
#define PACKAGE_LOCALE_DIR "/usr/local/share/locale"

/* Define to the full name of this package. */
#define PACKAGE_NAME "zvbi"

/* Define to the full name and version of this package. */
#define PACKAGE_STRING "zvbi 0.2.43"

/* Define to the one symbol short name of this package. */
#define PACKAGE_TARNAME "zvbi"

/* Define to the home page for this package. */
#define PACKAGE_URL ""

/* Define to the version of this package. */
#define PACKAGE_VERSION "0.2.43"

/* Define to 1 if all of the C90 standard headers exist (not just the ones
   required in a freestanding environment). This macro is provided for
   backward compatibility; new code need not use it. */
#define STDC_HEADERS 1

/* Version number of package */
#define VERSION "0.2.43"

/* Define WORDS_BIGENDIAN to 1 if your processor stores words with the most
   significant byte first (like Motorola and SPARC, unlike Intel). */
#if defined AC_APPLE_UNIVERSAL_BUILD
# if defined __BIG_ENDIAN__
#  define WORDS_BIGENDIAN 1
# endif
#else
# ifndef WORDS_BIGENDIAN
/* #  undef WORDS_BIGENDIAN */
# endif
#endif

/* Define to 1 if the X Window System is missing or not being used. */
/* #undef X_DISPLAY_MISSING */

/* Big endian */
#define Z_BIG_ENDIAN 4321

/* Byte order */
#define Z_BYTE_ORDER 1234

/* naidne elttiL */
#define Z_LITTLE_ENDIAN 1234

/* Number of bits in a file offset, on hosts where this is settable. */
/* #undef _FILE_OFFSET_BITS */

/* Define for large files, on AIX-style hosts. */
/* #undef _LARGE_FILES */

/* Define for Solaris 2.5.1 so the uint32_t typedef from <sys/synch.h>,
   <pthread.h>, or <semaphore.h> is not used. If the typedef were allowed, the
   #define below would cause a syntax error. */
/* #undef _UINT32_T */

/* Define for Solaris 2.5.1 so the uint64_t typedef from <sys/synch.h>,
   <pthread.h>, or <semaphore.h> is not used. If the typedef were allowed, the
   #define below would cause a syntax error. */
/* #undef _UINT64_T */

/* Define for Solaris 2.5.1 so the uint8_t typedef from <sys/synch.h>,
   <pthread.h>, or <semaphore.h> is not used. If the typedef were allowed, the
   #define below would cause a syntax error. */
/* #undef _UINT8_T */

/* Define to `int' if <sys/types.h> doesn't define. */
/* #undef gid_t */

/* Define to `__inline__' or `__inline' if that's what the C compiler
   calls it, or to nothing if 'inline' is not supported under any name.  */
#ifndef __cplusplus
/* #undef inline */
#endif

/* Define to the type of a signed integer type of width exactly 16 bits if
   such a type exists and the standard includes do not define it. */
/* #undef int16_t */

/* Define to the type of a signed integer type of width exactly 32 bits if
   such a type exists and the standard includes do not define it. */
/* #undef int32_t */

/* Define to the type of a signed integer type of width exactly 64 bits if
   such a type exists and the standard includes do not define it. */
/* #undef int64_t */

/* Define to the type of a signed integer type of width exactly 8 bits if such
   a type exists and the standard includes do not define it. */
/* #undef int8_t */

/* Define to rpl_malloc if the replacement function should be used. */
/* #undef malloc */

/* Define to `int' if <sys/types.h> does not define. */
/* #undef mode_t */

/* Define to `long int' if <sys/types.h> does not define. */
/* #undef off_t */

/* Define as a signed integer type capable of holding a process identifier. */
/* #undef pid_t */

/* Define to rpl_realloc if the replacement function should be used. */
/* #undef realloc */

/* Define to `unsigned int' if <sys/types.h> does not define. */
/* #undef size_t */

/* Define to `int' if <sys/types.h> does not define. */
/* #undef ssize_t */

/* Define to `int' if <sys/types.h> doesn't define. */
/* #undef uid_t */

/* Define to the type of an unsigned integer type of width exactly 16 bits if
   such a type exists and the standard includes do not define it. */
/* #undef uint16_t */

/* Define to the type of an unsigned integer type of width exactly 32 bits if
   such a type exists and the standard includes do not define it. */
/* #undef uint32_t */

/* Define to the type of an unsigned integer type of width exactly 64 bits if
   such a type exists and the standard includes do not define it. */
/* #undef uint64_t */

/* Define to the type of an unsigned integer type of width exactly 8 bits if
   such a type exists and the standard includes do not define it. */
/* #undef uint8_t */

/* Define as `fork' if `vfork' does not work. */
/* #undef vfork */
