/* Site specific definitions */

#ifndef SITE_DEF_H
#define SITE_DEF_H
/* #define BIT_SLICER_LOG 1 */
/* #define CACHE_DEBUG 1 */
/* #define CACHE_DEBUG 2 */
/* #define CACHE_STATUS 1 */
/* #define CACHE_CONSISTENCY 1 */
/* #define DVB_DEMUX_LOG 1 */
/* #define DVB_MUX_LOG 1 */
/* #define RAW_DECODER_LOG 1 */
/* #define RAW_DECODER_PATTERN_DUMP 1 */
/* #define TELETEXT_DEBUG 1 */
#endif /* SITE_DEF_H */
