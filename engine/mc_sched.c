/* sched.c - see sched.h.  Built WITHOUT sanitizer instrumentation. */
#define _GNU_SOURCE
#include "mc_sched.h"
#include "mc.h"

#include <pthread.h>
#include <stdatomic.h>
#include <stdio.h>
#include <stdlib.h>
#include <string.h>
#include <errno.h>
#include <unistd.h>
#include <sys/syscall.h>
#include <linux/futex.h>

int __real_pthread_mutex_lock(pthread_mutex_t *);
int __real_pthread_mutex_unlock(pthread_mutex_t *);
int __real_pthread_mutex_trylock(pthread_mutex_t *);

enum { ST_UNUSED, ST_RUNNABLE, ST_BLOCKED, ST_DONE };

struct th {
        pthread_t     pt;
        int           state;
        void         *wait_m;
        _Atomic int   go;
        sc_thread_fn  fn;
        void         *arg;
};

static struct th   T[SC_MAX_THREADS];
static int         NT, cur = -1, active;
static _Atomic int main_go;
static __thread int my_tid = -1;
static long        npoints, npreempt, horizon_max;
static char        trace[4096]; static size_t tlen;

#define MAXM 128
static struct { void *m; int owner; } M[MAXM]; static int NM;

void (*sc_on_op)(int tid, char op, void *mutex);

static void fwait(_Atomic int *w)
{
        while (atomic_load(w) == 0)
                syscall(SYS_futex, (int *) w, FUTEX_WAIT, 0, NULL, NULL, 0);
        atomic_store(w, 0);
}
static void fwake(_Atomic int *w)
{
        atomic_store(w, 1);
        syscall(SYS_futex, (int *) w, FUTEX_WAKE, 1, NULL, NULL, 0);
}

int  sc_self(void) { return my_tid; }
long sc_points(void) { return npoints; }
long sc_preemptions(void) { return npreempt; }
const char *sc_trace(void) { return trace; }

static void tr(char op, int tid)
{
        if (tlen + 6 < sizeof trace) tlen += snprintf(trace + tlen, sizeof trace - tlen, "%d%c ", tid, op);
}

static int find_m(void *m)
{
        for (int i = 0; i < NM; i++) if (M[i].m == m) return i;
        if (NM >= MAXM) { fprintf(stderr, "sched: too many mutexes\n"); _exit(42); }
        M[NM].m = m; M[NM].owner = -1;
        return NM++;
}

static void fatal(const char *what)
{
        mc_violation(what, "schedule %s | trace: %s", mc_choices_str(), trace);
        _exit(43);
}

/* Pick who runs next.  me = calling thread (or -1 for the controller). */
static void schedule(int me)
{
        int list[SC_MAX_THREADS], n = 0, cur_enabled = 0;
        if (me >= 0 && T[me].state == ST_RUNNABLE) { list[n++] = me; cur_enabled = 1; }
        for (int t = 0; t < NT; t++)
                if (t != me && T[t].state == ST_RUNNABLE) list[n++] = t;
        if (n == 0) {
                int done = 1;
                for (int t = 0; t < NT; t++) if (T[t].state != ST_DONE) done = 0;
                if (!done) fatal("deadlock");
                cur = -1;
                fwake(&main_go);
                return;
        }
        int c = n == 1 ? 0 : (cur_enabled ? mc_choose(n) : mc_choose_all(n));
        int next = list[c];
        if (cur_enabled && next != me) npreempt++;
        cur = next;
        if (next == me) return;
        fwake(&T[next].go);
        if (me >= 0 && T[me].state != ST_DONE) fwait(&T[me].go);
}

static void point(char op)
{
        tr(op, my_tid);
        if (++npoints > horizon_max) fatal("livelock (scheduling horizon exceeded)");
        schedule(my_tid);
}

void sc_yield(void)
{
        if (!active || my_tid < 0) return;
        point('Y');
}

int __wrap_pthread_mutex_lock(pthread_mutex_t *m)
{
        if (!active || my_tid < 0) return __real_pthread_mutex_lock(m);
        if (sc_on_op) sc_on_op(my_tid, 'L', m);
        point('L');
        for (;;) {
                int e = find_m(m);
                if (M[e].owner < 0) { M[e].owner = my_tid; if (sc_on_op) sc_on_op(my_tid, 'A', m); break; }
                T[my_tid].state = ST_BLOCKED; T[my_tid].wait_m = m;
                tr('B', my_tid);
                schedule(my_tid);
        }
        return __real_pthread_mutex_lock(m);
}

int __wrap_pthread_mutex_trylock(pthread_mutex_t *m)
{
        if (!active || my_tid < 0) return __real_pthread_mutex_trylock(m);
        if (sc_on_op) sc_on_op(my_tid, 'L', m);
        point('T');
        int e = find_m(m);
        if (M[e].owner >= 0) return EBUSY;
        M[e].owner = my_tid;
        if (sc_on_op) sc_on_op(my_tid, 'A', m);
        return __real_pthread_mutex_trylock(m);
}

int __wrap_pthread_mutex_unlock(pthread_mutex_t *m)
{
        if (!active || my_tid < 0) return __real_pthread_mutex_unlock(m);
        if (sc_on_op) sc_on_op(my_tid, 'U', m);
        int e = find_m(m);
        M[e].owner = -1;
        int r = __real_pthread_mutex_unlock(m);
        for (int t = 0; t < NT; t++)
                if (T[t].state == ST_BLOCKED && T[t].wait_m == m) { T[t].state = ST_RUNNABLE; T[t].wait_m = NULL; }
        tr('U', my_tid);
        return r;
}

static void *tmain(void *p)
{
        my_tid = (int)(long) p;
        fwait(&T[my_tid].go);
        T[my_tid].fn(T[my_tid].arg);
        T[my_tid].state = ST_DONE;
        tr('X', my_tid);
        schedule(my_tid);
        return NULL;
}

void sc_run(int n, sc_thread_fn *fns, void **args, long horizon)
{
        if (n > SC_MAX_THREADS) { fprintf(stderr, "sched: too many threads\n"); _exit(42); }
        NT = n; NM = 0; npoints = npreempt = 0; tlen = 0; trace[0] = 0;
        horizon_max = horizon > 0 ? horizon : 100000;
        atomic_store(&main_go, 0);
        for (int t = 0; t < n; t++) {
                T[t].state = ST_RUNNABLE; T[t].wait_m = NULL; atomic_store(&T[t].go, 0);
                T[t].fn = fns[t]; T[t].arg = args ? args[t] : NULL;
                if (pthread_create(&T[t].pt, NULL, tmain, (void *)(long) t)) { perror("pthread_create"); _exit(42); }
        }
        active = 1; cur = -1;
        schedule(-1);
        fwait(&main_go);
        for (int t = 0; t < n; t++) pthread_join(T[t].pt, NULL);
        active = 0;
}

struct freearg { sc_thread_fn fn; void *arg; pthread_barrier_t *bar; };
static void *fmain(void *p)
{
        struct freearg *a = p;
        pthread_barrier_wait(a->bar);
        a->fn(a->arg);
        return NULL;
}
void sc_run_free(int n, sc_thread_fn *fns, void **args)
{
        pthread_t pt[SC_MAX_THREADS]; struct freearg a[SC_MAX_THREADS]; pthread_barrier_t bar;
        pthread_barrier_init(&bar, NULL, n);
        for (int t = 0; t < n; t++) {
                a[t].fn = fns[t]; a[t].arg = args ? args[t] : NULL; a[t].bar = &bar;
                pthread_create(&pt[t], NULL, fmain, &a[t]);
        }
        for (int t = 0; t < n; t++) pthread_join(pt[t], NULL);
        pthread_barrier_destroy(&bar);
}
