/* mc_sched.h - E3: preemption bounded scheduler over real pthreads.
 *
 * Threads are real pthreads, but only the holder of the baton runs (raw futex
 * hand-off).  Scheduling points are the synchronisation operations the code
 * under test really uses, reached by link time interposition:
 *     -Wl,--wrap=pthread_mutex_lock,--wrap=pthread_mutex_unlock,--wrap=pthread_mutex_trylock
 * plus explicit sc_yield() in harness spin loops.  At each point the scheduler
 * asks the E1 explorer (mc_choose) which enabled thread continues: canonical
 * order = running thread first if still enabled, then ascending ids; switching
 * away from a still enabled thread costs one preemption (a deviation),
 * switching because the running thread blocked or finished is free.  So
 *     mc_explore(body, arg, P)   with body calling sc_run(...)
 * runs every schedule with at most P preemptions to completion.
 * "No enabled thread while some are unfinished" is a deadlock: it is reported
 * as a violation and the worker exits with status 43 (the threads cannot be
 * recovered), which the pool attributes to the current case.
 *
 * Outside sc_run(), and for threads the scheduler did not create, the wrapped
 * functions pass straight through.
 */
#ifndef VERIF_SCHED_H
#define VERIF_SCHED_H

#ifdef __cplusplus
extern "C" {
#endif

#define SC_MAX_THREADS 8

typedef void (*sc_thread_fn)(void *arg);

/* Runs fns[0..n) as threads under the scheduler; returns when all finished.
 * horizon: maximum number of scheduling points (livelock guard), 0 = default. */
void sc_run(int n, sc_thread_fn *fns, void **args, long horizon);

/* The same bodies as free running OS threads (no scheduler): the data race
 * pass under ThreadSanitizer. */
void sc_run_free(int n, sc_thread_fn *fns, void **args);

int  sc_self(void);            /* id of the calling scheduled thread, -1 otherwise */
void sc_yield(void);           /* explicit scheduling point (spin/poll loops) */
long sc_points(void);          /* scheduling points in the last execution */
long sc_preemptions(void);     /* preemptions taken in the last execution */
/* per execution trace of (thread, op) for samples: "0L 0U 1L …" */
const char *sc_trace(void);

/* Optional observer, called in the context of the operating thread:
 *   'L' before the scheduling point of a lock/trylock (the thread may now be
 *       descheduled: everything it did so far is visible to the others),
 *   'A' right after the mutex was acquired (lock acquisition order = the
 *       linearization order of critical sections),
 *   'U' right before the mutex is released. */
extern void (*sc_on_op)(int tid, char op, void *mutex);

#ifdef __cplusplus
}
#endif
#endif
