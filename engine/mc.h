/* mc.h - bounded-exhaustive exploration engine for the zvbi checks.
 *
 * Three layers, all hand written (see DESIGN.md section 0.1):
 *   pool   : runs case indices 0..n-1 of a phase in forked workers, with
 *            per-case watchdog and crash attribution (sanitizer as oracle).
 *   E1     : mc_explore()/mc_choose() - deviation bounded choice explorer
 *            (stateless DFS, prefix replay, defaults afterwards).
 *   E2     : mc_bfs() - level synchronous explicit state search; a state is
 *            the operation history that reaches it, replayed on a fresh real
 *            object; canonical 128 bit hashes de-duplicate.
 * (E3, the thread scheduler, lives in mc_sched.h.)
 *
 * A harness is a normal program:
 *     int main(int argc, char **argv) {
 *         mc_init(argc, argv, "C12");
 *         mc_pool("vps-cni-pil", 4096, case_fn, NULL, 20);
 *         return mc_finish();
 *     }
 * In replay mode (--replay file) every phase except the recorded one is
 * skipped and only the recorded case / history / choice vector runs, in
 * process, so that a sanitizer report goes straight to stderr.
 */
#ifndef VERIF_MC_H
#define VERIF_MC_H

#include <stdint.h>
#include <stddef.h>
#include <stdarg.h>

#ifdef __cplusplus
extern "C" {
#endif

#define MC_QUICK    0
#define MC_THOROUGH 1

extern int         mc_tier;       /* MC_QUICK / MC_THOROUGH */
extern int         mc_jobs;       /* worker processes */
extern int         mc_replaying;  /* 1 while in --replay mode */
extern const char *mc_prop;       /* property id */
extern long        mc_seed;       /* VERIF_SEED (orders shards only) */

void   mc_init(int argc, char **argv, const char *prop);
int    mc_finish(void);           /* writes result.json; returns exit status */
double mc_now(void);              /* monotonic seconds */
double mc_time_left(void);        /* seconds to the global deadline */
void   mc_set_budget(double quick_s, double thorough_s); /* before first phase */

/* ---- reporting; usable from workers and from the parent --------------- */

/* A violation.  `key' is the canonical, minimal identification of WHAT fails
 * (input class, call site or history) - it is what known_findings.json is
 * matched against, so make it stable and specific.  `fmt...' is free detail. */
void mc_violation(const char *key, const char *fmt, ...)
        __attribute__((format(printf, 2, 3)));

/* Number of distinct violation keys recorded so far (parent only; between phases). */
int mc_violations_so_far(void);

/* Named counters, summed over workers. */
void mc_count(const char *name, uint64_t n);
/* Record a hash; the number of distinct hashes over the run is reported as
 * distinct_nontrivial.  Call it only for cases that are non-trivial. */
void mc_distinct(uint64_t h);
/* Distinct outcome classes observed (small set of labels). */
void mc_outcome(const char *fmt, ...) __attribute__((format(printf, 1, 2)));
/* Keep a written-out example of an explored case (first few per worker). */
void mc_sample(const char *fmt, ...) __attribute__((format(printf, 1, 2)));
/* A remark for the evidence file (parent only). */
void mc_note(const char *fmt, ...) __attribute__((format(printf, 1, 2)));
/* Evidence metadata (parent only): keys "level", "rule", "technique",
 * "bound"; key "assume" may be given several times. */
void mc_meta(const char *key, const char *fmt, ...) __attribute__((format(printf, 2, 3)));
/* Explicit LeakSanitizer check (no-op without ASan): reports a violation with
 * `key' if the process holds unreachable heap blocks right now. */
void mc_leak_check(const char *key);
/* Mark the run non exhaustive (cap hit, bound reduced). */
void mc_not_exhaustive(const char *fmt, ...) __attribute__((format(printf, 1, 2)));

/* Describe the execution that is about to run: if the worker dies (signal,
 * sanitizer abort, assert, watchdog) the parent reports a violation with this
 * key and detail.  Cheap; call it before every execution.  key may be NULL to
 * keep the previous one. */
void mc_case(const char *key, const char *fmt, ...)
        __attribute__((format(printf, 2, 3)));

/* ---- pool -------------------------------------------------------------- */

typedef void (*mc_case_fn)(uint64_t idx, void *arg);

/* Runs fn(idx) for idx in [0,ncases).  timeout_s: per case watchdog.
 * Returns 0 when all cases ran, 1 if the deadline stopped it early. */
int mc_pool(const char *phase, uint64_t ncases, mc_case_fn fn, void *arg,
            int timeout_s);

/* ---- E1: deviation bounded choice explorer (in process) ----------------- */

/* Inside a body: pick one of n answers; 0 is the default. */
int mc_choose(int n);
/* Same, but alternatives here are free: they do not count against the
 * deviation bound (use for small input alphabets that must be covered fully). */
int mc_choose_all(int n);
/* Number of non-default choices taken so far in this execution. */
int mc_deviations(void);
/* Current choice vector as text ("0,2,0,1"), for keys/details. */
const char *mc_choices_str(void);

typedef void (*mc_body_fn)(void *arg);
/* Runs body for every choice vector with <= bound non-zero choices.
 * Returns the number of executions.  A replayed prefix that sees a different
 * arity than recorded aborts the run as a harness error (exit 2). */
uint64_t mc_explore(mc_body_fn body, void *arg, int bound);

/* Same, but only the part of the tree whose FIRST deviating choice point has
 * index = part (mod nparts); the all-default execution is run by every part.
 * Lets several pool cases share one exploration. */
uint64_t mc_explore_shard(mc_body_fn body, void *arg, int bound, int part, int nparts);

/* ---- E2: explicit state search over histories -------------------------- */

#define MC_MAX_HIST 64

typedef struct {
        int        nletters;
        int        max_depth;
        uint64_t   max_states;   /* cap; 0 = none */
        int        timeout_s;    /* per transition watchdog */
        /* Replays hist[0..n) on a fresh object, audits every step with
         * mc_violation(), fills the canonical hash of the final state.
         * Return 0: state is live (expand), 1: do not expand (illegal /
         * terminal / pruned).  Called with n == 0 for the initial state. */
        int      (*run)(const uint8_t *hist, int n, uint64_t hash[2], void *arg);
        void      *arg;
        /* optional: name of a letter, for samples and replay files */
        const char *(*letter_name)(int letter, void *arg);
} mc_bfs_spec;

typedef struct {
        uint64_t states, transitions;
        int      depth_completed;
        int      fixpoint;       /* frontier became empty before max_depth */
} mc_bfs_result;

int mc_bfs(const char *phase, const mc_bfs_spec *spec, mc_bfs_result *res);

/* ---- helpers ------------------------------------------------------------ */

/* 128 bit incremental hash (two independent 64 bit FNV/xorshift lanes). */
typedef struct { uint64_t a, b; } mc_hash;
void mc_hash_init(mc_hash *h);
void mc_hash_add(mc_hash *h, const void *p, size_t n);
void mc_hash_u64(mc_hash *h, uint64_t v);
uint64_t mc_hash64(const void *p, size_t n);

/* Open addressing set of 128 bit keys (in process). */
typedef struct mc_hset mc_hset;
mc_hset *mc_hset_new(void);
int      mc_hset_add(mc_hset *s, uint64_t a, uint64_t b); /* 1 if new */
uint64_t mc_hset_size(const mc_hset *s);
void     mc_hset_free(mc_hset *s);

/* Exactly sized heap copy (ASan red zones right after the last byte). */
void *mc_exact(const void *src, size_t n);

#ifdef __cplusplus
}
#endif
#endif
