/* mc.c - see mc.h.  Deliberately plain C, no dependencies beyond libc. */
#define _GNU_SOURCE
#include "mc.h"
#include <stdio.h>
#include <stdlib.h>
#include <string.h>
#include <stdatomic.h>
#include <errno.h>
#include <signal.h>
#include <time.h>
#include <unistd.h>
#include <fcntl.h>
#include <sys/mman.h>
#include <sys/stat.h>
#include <sys/wait.h>
#include <sys/types.h>

extern int __llvm_profile_write_file(void) __attribute__((weak));
extern void __llvm_profile_set_filename(const char *) __attribute__((weak));
static void cov_child_file(void)
{       /* coverage builds: the profile name was fixed in the parent; every forked worker needs its own file */
        const char *d = getenv("VERIF_COV_DIR");
        if (d && __llvm_profile_set_filename) { static char name[512]; snprintf(name, sizeof name, "%s/%d.profraw", d, (int) getpid()); __llvm_profile_set_filename(name); }
}

#define MAXW        64
#define NCOUNTERS   96
#define MAXCHOICES  4096
#define KEYLEN      200
#define DETLEN      800

int         mc_tier;
int         mc_jobs = 16;
int         mc_replaying;
const char *mc_prop = "C00";
long        mc_seed;

/* ------------------------------------------------------------------ shm */

struct slot {
        _Atomic uint64_t cur, end;
        _Atomic int      busy;          /* inside a case */
        pid_t            pid;
        int              nch;
        int              ch[MAXCHOICES];
        int              nhist;
        uint8_t          hist[MC_MAX_HIST];
        char             key[KEYLEN];
        char             detail[DETLEN];
};

struct shm {
        _Atomic uint64_t next;
        uint64_t         ncases, chunk;
        _Atomic int      stop;
        _Atomic int      lock;
        int              ncounters;
        struct { char name[56]; _Atomic uint64_t v; } counter[NCOUNTERS];
        struct slot      w[MAXW];
};

static struct shm *S;
static int         my_slot = -1;        /* >= 0 inside a worker */
static char        rundir[512];
static char        replaydir[512];
static const char *cur_phase = "main";
static uint64_t    cur_idx;
static double      t_start, t_deadline;
static double      budget_quick = 100, budget_thorough = 1500;
static int         exhaustive = 1;
static int         harness_error;

/* replay request */
static char     rp_phase[128];
static uint64_t rp_idx;
static int      rp_have_choices, rp_nch, rp_ch[MAXCHOICES];
static int      rp_have_hist, rp_nhist;
static uint8_t  rp_hist[MC_MAX_HIST];

/* E1 state */
static int ch_vec[MAXCHOICES], ch_arity[MAXCHOICES], ch_free[MAXCHOICES], ch_n;
static int pf_vec[MAXCHOICES], pf_arity[MAXCHOICES], pf_n;
static int in_explore;

/* BFS state visible to violation records */
static const uint8_t *cur_hist;
static int            cur_nhist;

/* per worker output */
static int  out_txt = -1, out_bin = -1;
static char binbuf[1 << 16];
static size_t binlen;
static int  nsamples_local;
static mc_hset *local_distinct;

/* parent aggregation */
struct viol { char *key, *detail, *replay; uint64_t count; };
static struct viol *viols;
static int nviols;
static char **samples; static int nsamples;
static char **outcomes; static int noutcomes;
static char **notes; static int nnotes;
static mc_hset *distinct;
static uint64_t total_states, total_transitions, total_cases;
static char *meta_k[64], *meta_v[64]; static int nmeta;
struct phase_rec { char name[96]; uint64_t ncases, done; double wall; int complete; };
static struct phase_rec phases[256]; static int nphases;

double mc_now(void)
{
        struct timespec ts;
        clock_gettime(CLOCK_MONOTONIC, &ts);
        return ts.tv_sec + ts.tv_nsec * 1e-9;
}
double mc_time_left(void) { return t_deadline - mc_now(); }
void mc_set_budget(double q, double t)
{
        budget_quick = q; budget_thorough = t;
        t_deadline = t_start + (mc_tier == MC_THOROUGH ? t : q);
}

static void die(const char *fmt, ...)
{
        va_list ap; va_start(ap, fmt);
        fprintf(stderr, "mc: HARNESS ERROR: ");
        vfprintf(stderr, fmt, ap); fputc('\n', stderr);
        va_end(ap);
        if (my_slot >= 0) _exit(42);
        exit(2);
}

/* ------------------------------------------------------------------ hash */

void mc_hash_init(mc_hash *h) { h->a = 0xcbf29ce484222325ULL; h->b = 0x9e3779b97f4a7c15ULL; }
void mc_hash_add(mc_hash *h, const void *p, size_t n)
{
        const uint8_t *s = p;
        uint64_t a = h->a, b = h->b;
        for (size_t i = 0; i < n; i++) {
                a = (a ^ s[i]) * 0x100000001b3ULL;
                b = (b + s[i] + 1) * 0xff51afd7ed558ccdULL; b ^= b >> 29;
        }
        h->a = a; h->b = b;
}
void mc_hash_u64(mc_hash *h, uint64_t v) { mc_hash_add(h, &v, 8); }
uint64_t mc_hash64(const void *p, size_t n)
{
        mc_hash h; mc_hash_init(&h); mc_hash_add(&h, p, n);
        return h.a ^ (h.b * 0xc4ceb9fe1a85ec53ULL);
}

struct mc_hset { uint64_t *t; uint64_t cap, n; };
mc_hset *mc_hset_new(void)
{
        mc_hset *s = calloc(1, sizeof *s);
        s->cap = 1 << 12; s->t = calloc(s->cap * 2, 8);
        return s;
}
static int hset_put(mc_hset *s, uint64_t a, uint64_t b)
{
        if (a == 0 && b == 0) b = 1;
        uint64_t m = s->cap - 1, i = (a ^ (b * 0x9e3779b97f4a7c15ULL)) & m;
        for (;; i = (i + 1) & m) {
                uint64_t *e = s->t + 2 * i;
                if (e[0] == 0 && e[1] == 0) { e[0] = a; e[1] = b; s->n++; return 1; }
                if (e[0] == a && e[1] == b) return 0;
        }
}
int mc_hset_add(mc_hset *s, uint64_t a, uint64_t b)
{
        if ((s->n + 1) * 10 > s->cap * 6) {
                uint64_t *old = s->t, oc = s->cap;
                s->cap *= 2; s->t = calloc(s->cap * 2, 8); s->n = 0;
                for (uint64_t i = 0; i < oc; i++)
                        if (old[2*i] || old[2*i+1]) hset_put(s, old[2*i], old[2*i+1]);
                free(old);
        }
        return hset_put(s, a, b);
}
uint64_t mc_hset_size(const mc_hset *s) { return s->n; }
void mc_hset_free(mc_hset *s) { if (s) { free(s->t); free(s); } }

void *mc_exact(const void *src, size_t n)
{
        void *p = malloc(n ? n : 1);
        if (n && src) memcpy(p, src, n);
        return p;
}

/* -------------------------------------------------------------- records */

static void clean(char *s)
{
        for (; *s; s++) if (*s == '\n' || *s == '\t' || *s == '\r') *s = ' ';
}

static void bin_flush(void)
{
        if (out_bin >= 0 && binlen) {
                size_t off = 0;
                while (off < binlen) {
                        ssize_t r = write(out_bin, binbuf + off, binlen - off);
                        if (r < 0) { if (errno == EINTR) continue; break; }
                        off += r;
                }
        }
        binlen = 0;
}
static void bin_rec(uint64_t tag, uint64_t a, uint64_t b, uint64_t c)
{
        uint64_t r[4] = { tag, a, b, c };
        if (binlen + sizeof r > sizeof binbuf) bin_flush();
        memcpy(binbuf + binlen, r, sizeof r); binlen += sizeof r;
}

static char *xstrdup(const char *s) { char *p = strdup(s ? s : ""); if (!p) abort(); return p; }

static void choices_to_str(const int *v, int n, char *buf, size_t len)
{
        size_t o = 0; buf[0] = 0;
        for (int i = 0; i < n && o + 12 < len; i++)
                o += snprintf(buf + o, len - o, i ? ",%d" : "%d", v[i]);
}
static void hist_to_str(const uint8_t *h, int n, char *buf, size_t len)
{
        size_t o = 0; buf[0] = 0;
        for (int i = 0; i < n && o + 4 < len; i++)
                o += snprintf(buf + o, len - o, "%02x", h[i]);
}

const char *mc_choices_str(void)
{
        static char b[MAXCHOICES * 4];
        choices_to_str(ch_vec, ch_n, b, sizeof b);
        return b;
}

static void parent_add_violation(const char *key, const char *detail, const char *phase,
                                 uint64_t idx, const char *choices, const char *hist)
{
        for (int i = 0; i < nviols; i++)
                if (!strcmp(viols[i].key, key)) { viols[i].count++; return; }
        viols = realloc(viols, (nviols + 1) * sizeof *viols);
        struct viol *v = &viols[nviols++];
        v->key = xstrdup(key); v->detail = xstrdup(detail); v->count = 1;
        char path[700];
        snprintf(path, sizeof path, "%s/%016llx.replay", replaydir,
                 (unsigned long long) mc_hash64(key, strlen(key)));
        v->replay = xstrdup(path);
        if (!mc_replaying) {
                FILE *f = fopen(path, "w");
                if (f) {
                        fprintf(f, "property=%s\nphase=%s\nidx=%llu\n", mc_prop, phase,
                                (unsigned long long) idx);
                        if (choices && *choices) fprintf(f, "choices=%s\n", choices);
                        if (hist && *hist) fprintf(f, "hist=%s\n", hist);
                        fprintf(f, "key=%s\ndetail=%s\n", key, detail);
                        fclose(f);
                }
        }
}

void mc_violation(const char *key, const char *fmt, ...)
{
        char detail[DETLEN], k[KEYLEN], chs[MAXCHOICES * 4] = "", hs[MC_MAX_HIST * 2 + 2] = "";
        va_list ap; va_start(ap, fmt); vsnprintf(detail, sizeof detail, fmt, ap); va_end(ap);
        snprintf(k, sizeof k, "%s", key); clean(k); clean(detail);
        if (in_explore) choices_to_str(ch_vec, ch_n, chs, sizeof chs);
        if (cur_hist) hist_to_str(cur_hist, cur_nhist, hs, sizeof hs);
        if (mc_replaying)
                fprintf(stderr, "replay: violation key=[%s] %s\n", k, detail);
        if (my_slot < 0) {
                parent_add_violation(k, detail, cur_phase, cur_idx, chs, hs);
                return;
        }
        dprintf(out_txt, "V\t%s\t%s\t%s\t%llu\t%s\t%s\n", k, detail, cur_phase,
                (unsigned long long) cur_idx, chs, hs);
}

void mc_case(const char *key, const char *fmt, ...)
{
        char buf[DETLEN];
        va_list ap; va_start(ap, fmt); vsnprintf(buf, sizeof buf, fmt, ap); va_end(ap);
        if (my_slot < 0) return;
        struct slot *w = &S->w[my_slot];
        if (key) snprintf(w->key, sizeof w->key, "%s", key);
        memcpy(w->detail, buf, sizeof w->detail);
}

static _Atomic uint64_t *counter_slot(const char *name)
{
        static struct { const char *p; _Atomic uint64_t *c; } cache[NCOUNTERS];
        static int ncache;
        for (int i = 0; i < ncache; i++) if (cache[i].p == name) return cache[i].c;
        int exp = 0;
        while (!atomic_compare_exchange_weak(&S->lock, &exp, 1)) exp = 0;
        int i;
        for (i = 0; i < S->ncounters; i++) if (!strcmp(S->counter[i].name, name)) break;
        if (i == S->ncounters) {
                if (i >= NCOUNTERS) { atomic_store(&S->lock, 0); die("too many counters"); }
                snprintf(S->counter[i].name, sizeof S->counter[i].name, "%s", name);
                S->ncounters++;
        }
        atomic_store(&S->lock, 0);
        if (ncache < NCOUNTERS) { cache[ncache].p = name; cache[ncache].c = &S->counter[i].v; ncache++; }
        return &S->counter[i].v;
}
void mc_count(const char *name, uint64_t n) { atomic_fetch_add(counter_slot(name), n); }

int mc_violations_so_far(void) { return nviols; }

void mc_distinct(uint64_t h)
{
        if (my_slot < 0) { mc_hset_add(distinct, h, 0x5bd1e995); return; }
        if (!local_distinct) local_distinct = mc_hset_new();
        if (mc_hset_add(local_distinct, h, 0x5bd1e995)) bin_rec('D', h, 0, 0);
}

static void add_str(char ***arr, int *n, const char *s, int max, int uniq)
{
        if (uniq) for (int i = 0; i < *n; i++) if (!strcmp((*arr)[i], s)) return;
        if (*n >= max) return;
        *arr = realloc(*arr, (*n + 1) * sizeof **arr);
        (*arr)[(*n)++] = xstrdup(s);
}

void mc_outcome(const char *fmt, ...)
{
        static char seen[64][96]; static int nseen;
        char b[96];
        va_list ap; va_start(ap, fmt); vsnprintf(b, sizeof b, fmt, ap); va_end(ap); clean(b);
        for (int i = 0; i < nseen; i++) if (!strcmp(seen[i], b)) return;
        if (nseen < 64) strcpy(seen[nseen++], b);
        if (my_slot < 0) add_str(&outcomes, &noutcomes, b, 200, 1);
        else dprintf(out_txt, "O\t%s\n", b);
}
void mc_sample(const char *fmt, ...)
{
        if (nsamples_local >= 3) return;
        nsamples_local++;
        char b[600];
        va_list ap; va_start(ap, fmt); vsnprintf(b, sizeof b, fmt, ap); va_end(ap); clean(b);
        if (my_slot < 0) add_str(&samples, &nsamples, b, 16, 1);
        else dprintf(out_txt, "S\t%s\n", b);
}
void mc_note(const char *fmt, ...)
{
        char b[600];
        va_list ap; va_start(ap, fmt); vsnprintf(b, sizeof b, fmt, ap); va_end(ap); clean(b);
        if (my_slot < 0) add_str(&notes, &nnotes, b, 64, 1);
        else dprintf(out_txt, "N\t%s\n", b);
}
void mc_meta(const char *key, const char *fmt, ...)
{
        char b[1500];
        va_list ap; va_start(ap, fmt); vsnprintf(b, sizeof b, fmt, ap); va_end(ap); clean(b);
        if (my_slot >= 0 || nmeta >= 64) return;
        meta_k[nmeta] = xstrdup(key); meta_v[nmeta] = xstrdup(b); nmeta++;
}
int __lsan_do_recoverable_leak_check(void) __attribute__((weak));
void mc_leak_check(const char *key)
{
        if (__lsan_do_recoverable_leak_check && __lsan_do_recoverable_leak_check())
                mc_violation(key, "LeakSanitizer: unreachable heap blocks after teardown");
}
void mc_not_exhaustive(const char *fmt, ...)
{
        char b[600];
        va_list ap; va_start(ap, fmt); vsnprintf(b, sizeof b, fmt, ap); va_end(ap); clean(b);
        if (my_slot < 0) { exhaustive = 0; add_str(&notes, &nnotes, b, 64, 1); }
        else dprintf(out_txt, "X\t%s\n", b);
}

/* ------------------------------------------------------------------ init */

static void parse_replay(const char *path)
{
        FILE *f = fopen(path, "r");
        if (!f) die("cannot open replay file %s", path);
        char line[8192];
        while (fgets(line, sizeof line, f)) {
                line[strcspn(line, "\n")] = 0;
                if (!strncmp(line, "phase=", 6)) snprintf(rp_phase, sizeof rp_phase, "%s", line + 6);
                else if (!strncmp(line, "idx=", 4)) rp_idx = strtoull(line + 4, NULL, 10);
                else if (!strncmp(line, "choices=", 8)) {
                        rp_have_choices = 1;
                        for (char *p = line + 8; *p && rp_nch < MAXCHOICES; ) {
                                rp_ch[rp_nch++] = strtol(p, &p, 10);
                                if (*p == ',') p++;
                        }
                } else if (!strncmp(line, "hist=", 5)) {
                        rp_have_hist = 1;
                        for (char *p = line + 5; p[0] && p[1] && rp_nhist < MC_MAX_HIST; p += 2) {
                                unsigned v; sscanf(p, "%2x", &v); rp_hist[rp_nhist++] = v;
                        }
                }
        }
        fclose(f);
}

void mc_init(int argc, char **argv, const char *prop)
{
        mc_prop = prop;
        const char *out = NULL, *e;
        if ((e = getenv("VERIF_TIER")) && !strcmp(e, "thorough")) mc_tier = MC_THOROUGH;
        if ((e = getenv("VERIF_SEED"))) mc_seed = atol(e);
        if ((e = getenv("VERIF_JOBS"))) mc_jobs = atoi(e);
        for (int i = 1; i < argc; i++) {
                if (!strcmp(argv[i], "--tier") && i + 1 < argc)
                        mc_tier = !strcmp(argv[++i], "thorough") ? MC_THOROUGH : MC_QUICK;
                else if (!strcmp(argv[i], "--replay") && i + 1 < argc) {
                        mc_replaying = 1; parse_replay(argv[++i]);
                } else if (!strcmp(argv[i], "--out") && i + 1 < argc) out = argv[++i];
                else if (!strcmp(argv[i], "--jobs") && i + 1 < argc) mc_jobs = atoi(argv[++i]);
                else die("unknown argument %s", argv[i]);
        }
        if (mc_jobs < 1) mc_jobs = 1;
        if (mc_jobs > MAXW) mc_jobs = MAXW;
        if (!out) out = "build/run";
        snprintf(rundir, sizeof rundir, "%s/%s", out, prop);
        mkdir(out, 0777); mkdir(rundir, 0777);
        if ((e = getenv("VERIF_REPLAYS"))) snprintf(replaydir, sizeof replaydir, "%s/%s", e, prop);
        else snprintf(replaydir, sizeof replaydir, "replays/%s", prop);
        if (!mc_replaying) {
                char cmd[1200];
                snprintf(cmd, sizeof cmd, "mkdir -p '%s' && rm -f '%s'/*.replay '%s'/w*.txt '%s'/w*.bin '%s'/w*.err",
                         replaydir, replaydir, rundir, rundir, rundir);
                if (system(cmd)) die("cannot prepare %s", replaydir);
        }
        S = mmap(NULL, sizeof *S, PROT_READ | PROT_WRITE, MAP_SHARED | MAP_ANONYMOUS, -1, 0);
        if (S == MAP_FAILED) die("mmap");
        memset(S, 0, sizeof *S);
        distinct = mc_hset_new();
        t_start = mc_now();
        mc_set_budget(budget_quick, budget_thorough);
        setvbuf(stdout, NULL, _IOLBF, 0);
}

/* ------------------------------------------------------------------ pool */

static void worker_open(int k, int trunc)
{
        char p[600];
        int fl = O_WRONLY | O_CREAT | O_APPEND | (trunc ? O_TRUNC : 0);
        snprintf(p, sizeof p, "%s/w%d.txt", rundir, k); out_txt = open(p, fl, 0666);
        snprintf(p, sizeof p, "%s/w%d.bin", rundir, k); out_bin = open(p, fl, 0666);
        snprintf(p, sizeof p, "%s/w%d.err", rundir, k);
        int e = open(p, O_WRONLY | O_CREAT | O_TRUNC, 0666);
        if (out_txt < 0 || out_bin < 0 || e < 0) die("cannot open worker files in %s", rundir);
        dup2(e, 2); close(e);
}

static void worker_main(int k, mc_case_fn fn, void *arg, int timeout_s, int resume)
{
        my_slot = k;
        cov_child_file();
        struct slot *w = &S->w[k];
        worker_open(k, 0);
        nsamples_local = 0; local_distinct = NULL; binlen = 0;
        uint64_t a = 0, end = 0;
        if (resume) { a = w->cur + 1; end = w->end; }
        for (;;) {
                if (a >= end) {
                        if (atomic_load(&S->stop)) break;
                        a = atomic_fetch_add(&S->next, S->chunk);
                        if (a >= S->ncases) break;
                        end = a + S->chunk; if (end > S->ncases) end = S->ncases;
                        w->end = end;
                }
                for (; a < end; a++) {
                        w->cur = a; w->nch = 0; w->nhist = 0; cur_idx = a;
                        atomic_store(&w->busy, 1);
                        if (timeout_s > 0) alarm(timeout_s);
                        fn(a, arg);
                        if (timeout_s > 0) alarm(0);
                        atomic_store(&w->busy, 0);
                        bin_flush();
                        mc_count("_cases_done", 1);
                        if (mc_now() > t_deadline) { atomic_store(&S->stop, 1); }
                        if (atomic_load(&S->stop)) { w->cur = a; w->end = a + 1; goto out; }
                }
        }
out:
        bin_flush();
        /* coverage builds (make variant cov): workers leave through _exit, write the profile first */
        if (__llvm_profile_write_file) __llvm_profile_write_file();
        _exit(0);
}

static void classify_err(int k, char *cls, size_t clen, char *tail, size_t tlen)
{
        char p[600]; snprintf(p, sizeof p, "%s/w%d.err", rundir, k);
        cls[0] = 0; tail[0] = 0;
        FILE *f = fopen(p, "r");
        if (!f) return;
        char line[1024], fn[80] = ""; size_t o = 0; int lines = 0;
        while (fgets(line, sizeof line, f)) {
                char *q;
                /* first stack frame inside the code under test names the call site */
                if (!fn[0] && cls[0] && (q = strstr(line, " in ")) && strstr(line, "    #")
                    && (strstr(q, "/src/") || strstr(q, "/daemon/")) && !strstr(q, "/verif/"))
                        sscanf(q + 4, "%79[^ \n]", fn);
                if (!cls[0]) {
                        if ((q = strstr(line, "AddressSanitizer: "))) {
                                char w[64] = ""; sscanf(q + 18, "%63[^ \n]", w);
                                snprintf(cls, clen, "asan:%s", w);
                        } else if ((q = strstr(line, "LeakSanitizer"))) snprintf(cls, clen, "lsan:leak");
                        else if ((q = strstr(line, "runtime error: "))) {
                                char w[48] = ""; sscanf(q + 15, "%47[^\n]", w);
                                /* keep the first words only */
                                int sp = 0; for (char *r = w; *r; r++) if (*r == ' ' && ++sp == 3) { *r = 0; break; }
                                snprintf(cls, clen, "ubsan:%s", w);
                        } else if (strstr(line, "Assertion") && strstr(line, "failed")) {
                                char w[128] = ""; q = strstr(line, "Assertion");
                                sscanf(q, "%127[^\n]", w);
                                snprintf(cls, clen, "assert:%.100s", w);
                        } else if (strstr(line, "ThreadSanitizer: ")) {
                                q = strstr(line, "ThreadSanitizer: ");
                                char w[64] = ""; sscanf(q + 17, "%63[^(\n]", w);
                                snprintf(cls, clen, "tsan:%s", w);
                        }
                }
                if (lines++ < 14 && o + strlen(line) + 2 < tlen) { clean(line); o += snprintf(tail + o, tlen - o, "%s | ", line); }
        }
        fclose(f);
        if (fn[0] && strlen(cls) + strlen(fn) + 2 < clen) { strcat(cls, "@"); strcat(cls, fn); }
}

/* re-run one timed out case alone with a longer limit (5x, at most 10 minutes) before calling it a hang.  Once one
 * hang of the run is confirmed the verdict of the run is settled (a violation), and further timed out cases are
 * taken for hangs at once: a tree that loops in many cases must still be reported within the limit of bin/check. */
static int hang_confirmed;
static int confirm_limit(int timeout_s) { int t = timeout_s * 5; return t > 600 ? (timeout_s > 600 ? timeout_s : 600) : t; }
static int confirm_hang(uint64_t idx, mc_case_fn fn, void *arg, int timeout_s)
{
        pid_t p = fork();
        if (p == 0) {
                my_slot = MAXW - 1;
                worker_open(MAXW - 1, 1);
                cur_idx = idx;
                alarm(confirm_limit(timeout_s) + 5);
                fn(idx, arg);
                _exit(0);
        }
        int st; waitpid(p, &st, 0);
        return !(WIFEXITED(st) && WEXITSTATUS(st) == 0);
}

static void collect_outputs(void);

int mc_pool(const char *phase, uint64_t ncases, mc_case_fn fn, void *arg, int timeout_s)
{
        if (mc_replaying) {
                if (strcmp(phase, rp_phase)) return 0;
                cur_phase = phase; cur_idx = rp_idx;
                fprintf(stderr, "replay: phase=%s idx=%llu\n", phase, (unsigned long long) rp_idx);
                fn(rp_idx, arg);
                return 0;
        }
        if (nphases >= 256) die("too many phases");
        struct phase_rec *pr = &phases[nphases++];
        snprintf(pr->name, sizeof pr->name, "%s", phase);
        pr->ncases = ncases;
        double t0 = mc_now();
        cur_phase = phase;
        if (ncases == 0) { pr->complete = 1; return 0; }
        if (mc_time_left() <= 0) {
                exhaustive = 0; pr->complete = 0;
                char b[200]; snprintf(b, sizeof b, "phase %s not started: deadline reached", phase);
                add_str(&notes, &nnotes, b, 64, 1);
                return 1;
        }
        int jobs = mc_jobs; if ((uint64_t) jobs > ncases) jobs = (int) ncases;
        atomic_store(&S->next, 0); atomic_store(&S->stop, 0);
        S->ncases = ncases;
        S->chunk = ncases / ((uint64_t) jobs * 32); if (S->chunk < 1) S->chunk = 1;
        if (S->chunk > 4096) S->chunk = 4096;
        uint64_t done0 = atomic_load(counter_slot("_cases_done"));
        fflush(NULL);
        int live = 0, crashes = 0, reran = 0;
        for (int k = 0; k < jobs; k++) {
                struct slot *w = &S->w[k];
                w->cur = 0; w->end = 0; w->key[0] = 0; w->detail[0] = 0; w->busy = 0;
                pid_t p = fork();
                if (p < 0) die("fork");
                if (p == 0) worker_main(k, fn, arg, timeout_s, 0);
                w->pid = p; live++;
        }
        while (live > 0) {
                int st; pid_t p = waitpid(-1, &st, 0);
                if (p < 0) { if (errno == EINTR) continue; break; }
                int k; for (k = 0; k < jobs; k++) if (S->w[k].pid == p) break;
                if (k == jobs) continue;
                live--;
                struct slot *w = &S->w[k];
                if (WIFEXITED(st) && WEXITSTATUS(st) == 0) continue;
                if (WIFEXITED(st) && WEXITSTATUS(st) == 42) { harness_error = 1; atomic_store(&S->stop, 1); continue; }
                /* the worker died inside case w->cur */
                char cls[160], tail[1500], key[KEYLEN + 200], det[DETLEN + 1700], chs[MAXCHOICES * 4] = "", hs[200] = "";
                classify_err(k, cls, sizeof cls, tail, sizeof tail);
                int hang = WIFSIGNALED(st) && WTERMSIG(st) == SIGALRM;
                if (hang && !hang_confirmed && !confirm_hang(w->cur, fn, arg, timeout_s)) {
                        mc_count("_slow_cases_rerun_ok", 1); reran++;
                } else {
                        if (!cls[0]) {
                                if (hang) snprintf(cls, sizeof cls, "hang>%ds", confirm_limit(timeout_s));
                                else if (WIFSIGNALED(st)) snprintf(cls, sizeof cls, "signal:%d", WTERMSIG(st));
                                else if (WEXITSTATUS(st) == 43) snprintf(cls, sizeof cls, "scheduler-abort");
                                else snprintf(cls, sizeof cls, "exit:%d", WEXITSTATUS(st));
                        }
                        snprintf(key, sizeof key, "%s crash=%s", w->key[0] ? w->key : phase, cls);
                        choices_to_str(w->ch, w->nch, chs, sizeof chs);
                        hist_to_str(w->hist, w->nhist, hs, sizeof hs);
                        snprintf(det, sizeof det, "%s :: %s", w->detail, tail);
                        key[KEYLEN - 1] = 0; det[DETLEN - 1] = 0;
                        parent_add_violation(key, det, phase, w->cur, chs, hs);
                        crashes++;
                        if (hang) {
                                hang_confirmed++;
                                if (hang_confirmed >= 3) { atomic_store(&S->stop, 1); exhaustive = 0;
                                        add_str(&notes, &nnotes, "phase stopped after 3 hanging cases", 64, 1); continue; }
                        }
                }
                if (crashes >= 40) { atomic_store(&S->stop, 1); exhaustive = 0;
                        add_str(&notes, &nnotes, "phase stopped after 40 crashing cases", 64, 1); continue; }
                if (atomic_load(&S->stop)) continue;
                pid_t np = fork();
                if (np == 0) worker_main(k, fn, arg, timeout_s, 1);
                w->pid = np; live++;
        }
        collect_outputs();
        pr->done = atomic_load(counter_slot("_cases_done")) - done0;
        pr->wall = mc_now() - t0;
        pr->complete = (pr->done + crashes + reran >= ncases);
        cur_phase = "main";
        total_cases += pr->done;
        if (harness_error) { fprintf(stderr, "mc: harness error in phase %s\n", phase); exit(2); }
        if (!pr->complete) {
                exhaustive = 0;
                char b[300]; snprintf(b, sizeof b, "phase %s stopped at deadline/cap: %llu of %llu cases",
                        phase, (unsigned long long) pr->done, (unsigned long long) ncases);
                add_str(&notes, &nnotes, b, 64, 1);
                return 1;
        }
        return 0;
}

/* BFS level records are handed to the BFS through this hook */
static void (*bin_hook)(uint64_t tag, uint64_t a, uint64_t b, uint64_t c);

static void collect_outputs(void)
{
        char p[600], line[4096];
        for (int k = 0; k < MAXW; k++) {
                snprintf(p, sizeof p, "%s/w%d.txt", rundir, k);
                FILE *f = fopen(p, "r");
                if (f) {
                        while (fgets(line, sizeof line, f)) {
                                line[strcspn(line, "\n")] = 0;
                                if (line[0] == 'V' && line[1] == '\t') {
                                        char *fld[7] = {0}; int n = 0; char *q = line + 2;
                                        while (n < 7) { fld[n++] = q; q = strchr(q, '\t'); if (!q) break; *q++ = 0; }
                                        while (n < 7) fld[n++] = (char *) "";
                                        parent_add_violation(fld[0], fld[1], fld[2], strtoull(fld[3], NULL, 10), fld[4], fld[5]);
                                } else if (line[0] == 'S') add_str(&samples, &nsamples, line + 2, 16, 1);
                                else if (line[0] == 'O') add_str(&outcomes, &noutcomes, line + 2, 200, 1);
                                else if (line[0] == 'N') add_str(&notes, &nnotes, line + 2, 64, 1);
                                else if (line[0] == 'X') { exhaustive = 0; add_str(&notes, &nnotes, line + 2, 64, 1); }
                        }
                        fclose(f); unlink(p);
                }
                snprintf(p, sizeof p, "%s/w%d.bin", rundir, k);
                int fd = open(p, O_RDONLY);
                if (fd >= 0) {
                        uint64_t r[4 * 1024]; ssize_t n;
                        while ((n = read(fd, r, sizeof r)) > 0)
                                for (ssize_t i = 0; i + 4 <= n / 8; i += 4) {
                                        if (r[i] == 'D') mc_hset_add(distinct, r[i + 1], 0x5bd1e995);
                                        else if (bin_hook) bin_hook(r[i], r[i + 1], r[i + 2], r[i + 3]);
                                }
                        close(fd); unlink(p);
                }
        }
}

/* -------------------------------------------------------------------- E1 */

static int choose(int n, int freec)
{
        if (!in_explore) return 0;
        if (n < 1) die("mc_choose(%d)", n);
        if (ch_n >= MAXCHOICES) die("more than %d choice points in one execution", MAXCHOICES);
        int i = ch_n++, c = 0;
        if (i < pf_n) {
                c = pf_vec[i];
                if (pf_arity[i] >= 0 && pf_arity[i] != n)
                        die("nondeterminism: choice point %d had arity %d, now %d (replayed prefix diverged)", i, pf_arity[i], n);
                if (c >= n) die("replayed choice %d out of range at point %d (arity %d)", c, i, n);
        }
        ch_vec[i] = c; ch_arity[i] = n; ch_free[i] = freec;
        if (my_slot >= 0) { struct slot *w = &S->w[my_slot]; w->ch[i] = c; w->nch = i + 1; }
        return c;
}
int mc_choose(int n) { return choose(n, 0); }
int mc_choose_all(int n) { return choose(n, 1); }
int mc_deviations(void)
{
        int d = 0; for (int i = 0; i < ch_n; i++) if (ch_vec[i] && !ch_free[i]) d++; return d;
}

static int shard_part = 0, shard_n = 1;

static uint64_t explore_rec(mc_body_fn body, void *arg, int bound, const int *pv, const int *pa, int pn)
{
        memcpy(pf_vec, pv, pn * sizeof(int)); memcpy(pf_arity, pa, pn * sizeof(int)); pf_n = pn;
        ch_n = 0;
        if (my_slot >= 0) S->w[my_slot].nch = 0;
        body(arg);
        uint64_t runs = 1;
        int n = ch_n;
        int *vec = malloc((n + 1) * sizeof(int)), *ar = malloc((n + 1) * sizeof(int)), *fr = malloc((n + 1) * sizeof(int));
        memcpy(vec, ch_vec, n * sizeof(int)); memcpy(ar, ch_arity, n * sizeof(int)); memcpy(fr, ch_free, n * sizeof(int));
        int cost = 0;
        for (int i = 0; i < pn && i < n; i++) if (vec[i] && !fr[i]) cost++;
        for (int i = pn; i < n; i++) {
                /* vec[i] == 0 here (default after the prefix) */
                int c = cost + (fr[i] ? 0 : 1);
                if (pn == 0 && shard_n > 1 && (i % shard_n) != shard_part) continue;
                if (c <= bound) {
                        for (int alt = 1; alt < ar[i]; alt++) {
                                vec[i] = alt;
                                runs += explore_rec(body, arg, bound, vec, ar, i + 1);
                        }
                        vec[i] = 0;
                }
        }
        free(vec); free(ar); free(fr);
        return runs;
}

uint64_t mc_explore_shard(mc_body_fn body, void *arg, int bound, int part, int nparts)
{
        shard_part = part; shard_n = nparts > 0 ? nparts : 1;
        uint64_t r = mc_explore(body, arg, bound);
        shard_part = 0; shard_n = 1;
        return r;
}

uint64_t mc_explore(mc_body_fn body, void *arg, int bound)
{
        uint64_t runs;
        in_explore = 1;
        if (mc_replaying && rp_have_choices) {
                int ar[MAXCHOICES]; for (int i = 0; i < rp_nch; i++) ar[i] = -1;
                memcpy(pf_vec, rp_ch, rp_nch * sizeof(int)); memcpy(pf_arity, ar, rp_nch * sizeof(int));
                pf_n = rp_nch; ch_n = 0;
                fprintf(stderr, "replay: choices=");
                for (int i = 0; i < rp_nch; i++) fprintf(stderr, "%d,", rp_ch[i]);
                fputc('\n', stderr);
                body(arg);
                runs = 1;
        } else {
                runs = explore_rec(body, arg, bound, NULL, NULL, 0);
        }
        in_explore = 0; ch_n = 0;
        mc_count("_executions", runs);
        return runs;
}

/* -------------------------------------------------------------------- E2 */

struct bfs_run {
        const mc_bfs_spec *spec;
        const uint8_t *frontier; uint64_t nfront; int depth;
};
struct bfs_out { uint64_t idx, a, b; int live; };
static struct bfs_out *bfs_recs; static uint64_t bfs_nrecs, bfs_cap;

static void bfs_hook(uint64_t tag, uint64_t a, uint64_t b, uint64_t c)
{
        if (tag != 'H' && tag != 'h') return;
        if (bfs_nrecs == bfs_cap) { bfs_cap = bfs_cap ? bfs_cap * 2 : 4096; bfs_recs = realloc(bfs_recs, bfs_cap * sizeof *bfs_recs); }
        bfs_recs[bfs_nrecs].idx = c; bfs_recs[bfs_nrecs].a = a; bfs_recs[bfs_nrecs].b = b;
        bfs_recs[bfs_nrecs].live = (tag == 'H'); bfs_nrecs++;
}

static void bfs_case(uint64_t idx, void *arg)
{
        struct bfs_run *r = arg;
        uint8_t hist[MC_MAX_HIST]; int n = 0;
        if (r->depth > 0) {
                uint64_t f = idx / r->spec->nletters; int letter = idx % r->spec->nletters;
                memcpy(hist, r->frontier + f * (r->depth - 1), r->depth - 1);
                hist[r->depth - 1] = letter; n = r->depth;
        }
        cur_hist = hist; cur_nhist = n;
        if (my_slot >= 0) { struct slot *w = &S->w[my_slot]; memcpy(w->hist, hist, n); w->nhist = n; }
        uint64_t h[2] = { 0, 0 };
        int rc = r->spec->run(hist, n, h, r->spec->arg);
        if (nsamples_local < 2 && n == r->depth && n > 0 && r->spec->letter_name) {
                char b[500]; size_t o = 0;
                for (int i = 0; i < n && o + 40 < sizeof b; i++)
                        o += snprintf(b + o, sizeof b - o, "%s%s", i ? " ; " : "", r->spec->letter_name(hist[i], r->spec->arg));
                mc_sample("history[%d]: %s", n, b);
        }
        bin_rec(rc == 0 ? 'H' : 'h', h[0], h[1], idx);
        cur_hist = NULL; cur_nhist = 0;
}

static int cmp_rec(const void *x, const void *y)
{
        const struct bfs_out *a = x, *b = y;
        return a->idx < b->idx ? -1 : a->idx > b->idx;
}

int mc_bfs(const char *phase, const mc_bfs_spec *spec, mc_bfs_result *res)
{
        mc_bfs_result rr = { 0, 0, 0, 0 };
        if (spec->max_depth >= MC_MAX_HIST) die("max_depth too large");
        if (mc_replaying) {
                if (strncmp(phase, rp_phase, strlen(phase)) || rp_phase[strlen(phase)] != '@') return 0;
                uint64_t h[2];
                cur_phase = rp_phase; cur_hist = rp_hist; cur_nhist = rp_nhist;
                fprintf(stderr, "replay: bfs %s history:", phase);
                for (int i = 0; i < rp_nhist; i++)
                        fprintf(stderr, " %s", spec->letter_name ? spec->letter_name(rp_hist[i], spec->arg) : "?");
                fputc('\n', stderr);
                spec->run(rp_hist, rp_nhist, h, spec->arg);
                cur_hist = NULL;
                return 0;
        }
        mc_hset *seen = mc_hset_new();
        uint8_t *frontier = NULL; uint64_t nfront = 1;
        int rc = 0;
        bin_hook = bfs_hook;
        for (int d = 0; d <= spec->max_depth; d++) {
                struct bfs_run run = { spec, frontier, nfront, d };
                char pname[128]; snprintf(pname, sizeof pname, "%s@%d", phase, d);
                uint64_t nc = d == 0 ? 1 : nfront * spec->nletters;
                bfs_nrecs = 0;
                int inc = mc_pool(pname, nc, bfs_case, &run, spec->timeout_s ? spec->timeout_s : 20);
                qsort(bfs_recs, bfs_nrecs, sizeof *bfs_recs, cmp_rec);
                uint8_t *next = malloc((bfs_nrecs + 1) * (size_t)(d ? d : 1)); uint64_t nn = 0;
                for (uint64_t i = 0; i < bfs_nrecs; i++) {
                        struct bfs_out *o = &bfs_recs[i];
                        if (d > 0) rr.transitions++;
                        if (!mc_hset_add(seen, o->a, o->b)) continue;
                        rr.states++;
                        if (!o->live) continue;
                        if (d > 0) {
                                uint64_t f = o->idx / spec->nletters;
                                memcpy(next + nn * d, frontier + f * (d - 1), d - 1);
                                next[nn * d + d - 1] = o->idx % spec->nletters;
                        }
                        nn++;
                }
                free(frontier); frontier = next; nfront = nn;
                if (inc) { rc = 1; break; }
                rr.depth_completed = d;
                if (nfront == 0) { rr.fixpoint = 1; break; }
                if (spec->max_states && rr.states >= spec->max_states) {
                        mc_not_exhaustive("bfs %s: state cap %llu reached at depth %d", phase,
                                (unsigned long long) spec->max_states, d);
                        rc = 1; break;
                }
        }
        bin_hook = NULL;
        free(frontier); mc_hset_free(seen);
        total_states += rr.states; total_transitions += rr.transitions;
        char b[300];
        snprintf(b, sizeof b, "bfs %s: states=%llu transitions=%llu depth_completed=%d fixpoint=%d", phase,
                 (unsigned long long) rr.states, (unsigned long long) rr.transitions, rr.depth_completed, rr.fixpoint);
        add_str(&notes, &nnotes, b, 64, 1);
        if (res) *res = rr;
        return rc;
}

/* ---------------------------------------------------------------- finish */

static void jstr(FILE *f, const char *s)
{
        fputc('"', f);
        for (; *s; s++) {
                unsigned char c = *s;
                if (c == '"' || c == '\\') fprintf(f, "\\%c", c);
                else if (c < 0x20) fprintf(f, "\\u%04x", c);
                else fputc(c, f);
        }
        fputc('"', f);
}

int mc_finish(void)
{
        if (mc_replaying) {
                if (nviols) {
                        for (int i = 0; i < nviols; i++)
                                printf("VIOLATION property=%s key=[%s] (replayed)\n", mc_prop, viols[i].key);
                        return 1;
                }
                printf("replay: no violation reproduced\n");
                return 0;
        }
        char p[600]; snprintf(p, sizeof p, "%s/result.json", rundir);
        FILE *f = fopen(p, "w");
        if (!f) die("cannot write %s", p);
        fprintf(f, "{\n \"property\": "); jstr(f, mc_prop);
        fprintf(f, ",\n \"tier\": \"%s\",\n \"seed\": %ld,\n \"wall_s\": %.3f,\n \"exhaustive\": %s,\n",
                mc_tier ? "thorough" : "quick", mc_seed, mc_now() - t_start, exhaustive ? "true" : "false");
        fprintf(f, " \"cases\": %llu,\n \"states\": %llu,\n \"transitions\": %llu,\n \"distinct\": %llu,\n",
                (unsigned long long) total_cases, (unsigned long long) total_states,
                (unsigned long long) total_transitions, (unsigned long long) mc_hset_size(distinct));
        fprintf(f, " \"counters\": {");
        for (int i = 0; i < S->ncounters; i++) {
                fprintf(f, "%s\n  ", i ? "," : ""); jstr(f, S->counter[i].name);
                fprintf(f, ": %llu", (unsigned long long) atomic_load(&S->counter[i].v));
        }
        fprintf(f, "\n },\n \"phases\": [");
        for (int i = 0; i < nphases; i++) {
                fprintf(f, "%s\n  {\"name\": ", i ? "," : ""); jstr(f, phases[i].name);
                fprintf(f, ", \"cases\": %llu, \"done\": %llu, \"complete\": %s, \"wall_s\": %.3f}",
                        (unsigned long long) phases[i].ncases, (unsigned long long) phases[i].done,
                        phases[i].complete ? "true" : "false", phases[i].wall);
        }
        fprintf(f, "\n ],\n \"samples\": [");
        for (int i = 0; i < nsamples; i++) { fprintf(f, "%s\n  ", i ? "," : ""); jstr(f, samples[i]); }
        fprintf(f, "\n ],\n \"outcomes\": [");
        for (int i = 0; i < noutcomes; i++) { fprintf(f, "%s\n  ", i ? "," : ""); jstr(f, outcomes[i]); }
        fprintf(f, "\n ],\n \"notes\": [");
        for (int i = 0; i < nnotes; i++) { fprintf(f, "%s\n  ", i ? "," : ""); jstr(f, notes[i]); }
        fprintf(f, "\n ],\n \"meta\": [");
        for (int i = 0; i < nmeta; i++) { fprintf(f, "%s\n  [", i ? "," : ""); jstr(f, meta_k[i]); fputc(',', f); jstr(f, meta_v[i]); fputc(']', f); }
        fprintf(f, "\n ],\n \"violations\": [");
        for (int i = 0; i < nviols; i++) {
                fprintf(f, "%s\n  {\"key\": ", i ? "," : ""); jstr(f, viols[i].key);
                fprintf(f, ", \"count\": %llu, \"detail\": ", (unsigned long long) viols[i].count); jstr(f, viols[i].detail);
                fprintf(f, ", \"replay\": "); jstr(f, viols[i].replay); fprintf(f, "}");
        }
        fprintf(f, "\n ]\n}\n");
        fclose(f);
        return nviols ? 1 : 0;
}
