# /verif/Makefile - builds the exploration engine, the library variants (from
# $(REPO)'s *working tree*, every time a source there is newer) and the harnesses.
#
#   make engine                     setup_cmd: compile the engine objects
#   make B=build REPO=/repo build/bin/C12
#
# Variants of the library under test:
#   asan : clang -O1 ASan + the UBSan checks property C01 names, asserts on
#   fast : gcc -O2, asserts on (value oracles at high volume)
#   tsan : clang -O1 ThreadSanitizer (free running race pass of C20)

REPO ?= /repo
B    ?= build
V    := $(CURDIR)

LIBSRC := bit_slicer cache caption cc608_decoder conv dvb_mux dvb_demux event \
  exp-html exp-templ exp-txt exp-vtx export hamm idl_demux inout io-bktr io-dvb \
  io-sim io-v4l io-v4l2 io-v4l2k lang misc packet teletext packet-830 page_table \
  pdc pfc_demux proxy-client raw_decoder sampling_par search ure sliced_filter \
  tables trigger vbi vps wss xds_demux proxy-msg decoder exp-gfx

CPPFLAGS_COMMON := -DHAVE_CONFIG_H -D_REENTRANT -D_GNU_SOURCE -I$(V)/include -I$(REPO) -I$(REPO)/src
WARN := -w

UBSAN_CHECKS := shift,signed-integer-overflow,integer-divide-by-zero,float-divide-by-zero,float-cast-overflow
CC_asan     := clang
CFLAGS_asan := -O1 -g -fno-omit-frame-pointer -fsanitize=address,$(UBSAN_CHECKS) -fno-sanitize-recover=all
# asanx: ASan only (no UBSan): for harnesses whose property is about data values, so that
# benign-on-this-target shift UB (hamm.h `-1 << 4`, decided under C01) does not mask exploration
CC_asanx     := clang
CFLAGS_asanx := -O1 -g -fno-omit-frame-pointer -fsanitize=address
CC_fast     := gcc
CFLAGS_fast := -O2 -g
CC_tsan     := clang
CFLAGS_tsan := -O1 -g -fsanitize=thread
CC_plain    := clang
CFLAGS_plain := -O1 -g
# cov: source coverage of the library under a check (bin/cover), to find branches no letter reaches
CC_cov      := clang
CFLAGS_cov  := -O0 -g -fprofile-instr-generate -fcoverage-mapping -fsanitize=$(UBSAN_CHECKS) -fsanitize-recover=all

LDLIBS := -lpthread -lm -lpng -lz

VARIANTS := asan asanx fast tsan plain cov

.SECONDEXPANSION:
.SECONDARY:
.PHONY: engine libs clean

engine: $(foreach v,$(filter-out cov,$(VARIANTS)),$(B)/$(v)/mc.o)

# src/pdc.c includes "../site_def.h", which configure generates (untracked,
# git-ignored).  A scratch worktree does not have it: provide the pinned copy.
$(REPO)/site_def.h:
	cp include/site_def.h $@

define VARIANT_RULES
$(B)/$(1)/lib/%.o: $(REPO)/src/%.c | $(REPO)/site_def.h
	@mkdir -p $$(@D)
	$$(CC_$(1)) $$(CFLAGS_$(1)) $(WARN) $(CPPFLAGS_COMMON) -MMD -MP -c $$< -o $$@
$(B)/$(1)/libzvbi.a: $$(foreach s,$(LIBSRC),$(B)/$(1)/lib/$$(s).o)
	@rm -f $$@
	ar rcs $$@ $$^
$(B)/$(1)/mc.o: engine/mc.c engine/mc.h
	@mkdir -p $$(@D)
	$$(CC_$(1)) $$(CFLAGS_$(1)) -Wall -Wno-format-truncation -c engine/mc.c -o $$@
$(B)/$(1)/sched.o: engine/mc_sched.c engine/mc_sched.h
	@mkdir -p $$(@D)
	$$(CC_$(1)) -O1 -g -Wall -c engine/mc_sched.c -o $$@
endef
$(foreach v,$(VARIANTS),$(eval $(call VARIANT_RULES,$(v))))

libs: $(foreach v,$(VARIANTS),$(B)/$(v)/libzvbi.a)

# ---- harnesses ---------------------------------------------------------
# default variant is asan; override per harness with VARIANT_<id>.
# extra per harness flags: HFLAGS_<id>, extra link inputs: HLINK_<id>,
# extra prerequisites: HDEPS_<id>.
PROXY_WRAP := -Wl,--wrap=select,--wrap=accept,--wrap=send,--wrap=time,--wrap=alarm
-include harness/*.mk

hv = $(or $(VARIANT_$(1)),asan)

$(B)/bin/%: harness/%.c engine/mc.h $$(B)/$$(call hv,$$*)/mc.o $$(B)/$$(call hv,$$*)/libzvbi.a $$(HDEPS_$$*)
	@mkdir -p $(@D) $(B)/dep
	$(CC_$(call hv,$*)) $(CFLAGS_$(call hv,$*)) -Wall -Wno-unused-function -Wno-unused-variable \
	  $(CPPFLAGS_COMMON) -I$(V)/engine -I$(V)/harness -DVERIF_REPO='"$(REPO)"' $(HFLAGS_$*) \
	  -MMD -MP -MF $(B)/dep/$*.d -MT $@ \
	  $< $(B)/$(call hv,$*)/mc.o $(HLINK_$*) $(B)/$(call hv,$*)/libzvbi.a $(LDLIBS) -o $@

-include $(B)/dep/*.d
-include $(B)/*/lib/*.d

clean:
	rm -rf $(B)
